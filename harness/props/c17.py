"""C17 - appending preserves everything already in the dataset (DESIGN.md section 4, C17).

Scenarios: an existing file E written by cfdm from a field set S0, then 1-3
successive appends of field sets S1 (sharing none / some / all coordinates
with what is in the file, same or different netCDF names, with or without
featureType or groups).  Every scenario runs in a worker process
(drive/c17.py); a worker that dies is an observation (`crash`) and the
unfinished cases are re-run one per process.

Property oracle (implementation only): old fields still read and equal
(cfdm.equals on fields brought into memory before the append), global
attributes / old dimensions / old variables unchanged through netCDF4-python
(attributes and a hash of the values), one new field per appended field equal
to it up to the properties the file held as global attributes, a request that
is documented as unsupported refused with the sha256 of the file unchanged.

Correspondence: the Gallina model of the two-pass writer (C17/Model.v) is
given the file before (netCDF4 view), the write options, the skeletons of the
fields cfdm reads from it and of the fields appended, and must predict the
outcome class and the file afterwards (dimensions, variables, attributes,
reference attributes, global attributes).  The same model run in mode 'w' must
predict the file that exists before the appends; the hypothesis of
C17_old_fields (`covers`) and the model reader's data variables are evaluated
on the real re-read.

The files appended to carry non-default global attributes (Conventions extras,
file descriptors, requested / forced global attributes, attributes set by
another tool with values equal to or different from the appended fields'
properties); every global attribute (type, shape, values) is compared through
netCDF4-python before and after each append.
"""
import copy
import json

import lib
from lib import gz, gstr, gbool, gnat, glist, gopt

REQ = ("From CfdmV Require Import Common.Base C17.Model C17.Run.\n"
       "Open Scope string_scope.\nOpen Scope list_scope.")
REF_ATTRS = ("coordinates", "bounds", "cell_measures", "formula_terms")
UNMODELLED_REF_ATTRS = ("climatology", "ancillary_variables", "grid_mapping", "geometry", "nodes",
                        "node_count", "part_node_count", "interior_ring", "sample_dimension",
                        "instance_dimension", "compress", "node_coordinates", "cell_methods")
DESCRIPTION = ["comment", "Conventions", "featureType", "history", "institution", "references", "source", "title"]


# ---------------------------------------------------------------------------
# Gallina printers
# ---------------------------------------------------------------------------
def safe(s):
    return all(32 <= ord(c) < 127 for c in s)


def g_props(d):
    return glist(sorted(d.items()), lambda kv: f"({gstr(kv[0])}, {gstr(kv[1])})")


def g_ostr(s):
    return gopt(s, gstr)


def g_shape(sh):
    return glist(sh, gz)


def g_content(c, kind):
    b = c.get("bnd")
    bnd = "None" if not b else (f"(Some {{| b_props := {g_props(b['props'])}; b_shape := {g_shape(b['shape'])}; "
                                f"b_tok := {gz(b['tok'])} |}})")
    return (f"{{| c_kind := {kind}; c_props := {g_props(c['props'])}; c_shape := {g_shape(c['shape'])}; "
            f"c_tok := {gz(c['tok'])}; c_measure := {gstr(c.get('measure') or '')}; c_bnd := {bnd} |}}")


KIND = {"dim": "KDim", "aux": "KAux", "anc": "KAnc", "msr": "KMsr"}


def g_cst(c):
    b = c.get("bnd") or {}
    return (f"{{| k_ncvar := {g_ostr(c['ncvar'])}; k_c := {g_content(c, KIND[c['kind']])}; "
            f"k_axes := {glist(c['axes'], gnat)}; k_bvar := {g_ostr(b.get('ncvar'))}; "
            f"k_bdim := {g_ostr(b.get('ncdim'))} |}}")


def g_field(s):
    ref = "None"
    if s["refs"]:
        r = s["refs"][0]
        terms = glist(r["terms"], lambda t: f"({gstr(t[0])}, {gopt(t[1], gnat)})")
        ref = (f"(Some {{| r_owner := {gnat(r['coords'][0][1])}; r_sn := {gstr(r['sn'])}; "
               f"r_csn := {g_ostr(r['csn'])}; r_terms := {terms} |}})")
    gl = glist(sorted(s["gl"].items(), key=lambda kv: kv[0]), lambda kv: f"({gstr(kv[0])}, {g_ostr(kv[1])})")
    axes = glist(s["axes"], lambda a: f"{{| a_size := {gz(a['size'])}; a_ncdim := {g_ostr(a['ncdim'])} |}}")
    return (f"{{| f_ncvar := {g_ostr(s['ncvar'])}; f_props := {g_props(s['props'])}; f_gl := {gl}; "
            f"f_groups := {glist(s['groups'], gstr)}; f_axes := {axes}; f_daxes := {glist(s['daxes'], gnat)}; "
            f"f_tok := {gz(s['tok'])}; f_dim := {glist(s['dim'], g_cst)}; f_aux := {glist(s['aux'], g_cst)}; "
            f"f_anc := {glist(s['anc'], g_cst)}; f_msr := {glist(s['msr'], g_cst)}; f_ref := {ref} |}}")


def parse_ref(value):
    """'a b' -> [('', 'a'), ('', 'b')];  'area: m t: v' -> [('area', 'm'), ('t', 'v')]"""
    out, label = [], ""
    for tok in value.split():
        if tok.endswith(":"):
            label = tok[:-1]
        else:
            out.append((label, tok))
            label = ""
    return out


def g_var(v):
    plain = {k: x for k, x in v["attrs"].items() if k not in REF_ATTRS}
    refs = [(k, parse_ref(x)) for k, x in sorted(v["attrs"].items()) if k in REF_ATTRS]
    g_refs = glist(refs, lambda r: f"({gstr(r[0])}, {glist(r[1], lambda p: f'({gstr(p[0])}, {gstr(p[1])})')})")
    return (f"{{| v_name := {gstr(v['name'])}; v_dims := {glist(v['dims'], gstr)}; "
            f"v_attrs := {g_props(plain)}; v_refs := {g_refs} |}}")


def g_file(a):
    dims = glist(a["dims"], lambda d: f"({gstr(d[0])}, {gz(d[1])})")
    return f"{{| d_dims := {dims}; d_vars := {glist(a['vars'], g_var)}; d_gatts := {g_props(a['gatts'])} |}}"


def g_opts(o):
    o = o or {}
    return (f"{{| o_conv := {glist(o.get('conv', []), gstr)}; o_desc := {g_props(o.get('desc', {}))}; "
            f"o_glob := {glist(o.get('glob', []), gstr)}; o_vatt := {glist(o.get('vatt', []), gstr)} |}}")


def opts_outside_model(o):
    """Options the model does not represent (they make the call fail before
    anything is written; only preservation is judged)."""
    o = o or {}
    why = []
    if any("," in c for c in o.get("conv", [])):
        why.append("conventions-with-comma")
    if "Conventions" in o.get("vatt", []) or "Conventions" in o.get("desc", {}):
        why.append("conventions-as-variable-attribute-or-descriptor")
    return why


def strings_of(obj):
    if isinstance(obj, str):
        yield obj
    elif isinstance(obj, dict):
        for k, v in obj.items():
            yield k
            yield from strings_of(v)
    elif isinstance(obj, (list, tuple)):
        for v in obj:
            yield from strings_of(v)


def in_model(step):
    """Reasons why an append step is outside the fragment Model.v covers."""
    why = []
    for s in step["r"] + step["s1"]:
        why += s.get("oom", [])
        if s.get("oom") == ["domain"]:
            continue
        if "axes" not in s:
            continue
        d = set(s["daxes"])
        for i, a in enumerate(s["axes"]):
            if i in d:
                continue
            span = [c for c in s["dim"] + s["aux"] + s["anc"] + s["msr"] if i in c["axes"]]
            if a["size"] != 1 or len(span) != 1 or span[0]["kind"] != "dim":
                why.append("unspanned-axis-not-scalar")
        for c in s["aux"] + s["anc"] + s["msr"]:
            if not set(c["axes"]) <= d:
                why.append("construct-off-data-axes")
            if c["shape"] is None:
                why.append("no-data")
        for c in s["dim"]:
            if len(c["axes"]) != 1:
                why.append("dim-coord-axes")
        for r in s["refs"]:
            if len(r["coords"]) != 1 or r["coords"][0][0] != "dim":
                why.append("formula-terms-coordinates")
        if len(s["axes"]) > 9:
            why.append("many-axes")
        for k in ("_FillValue", "missing_value"):
            if k in s["props"] and not s["props"][k].startswith("num:"):
                why.append("non-numeric-fill-value")
    for key in ("before", "after"):
        a = step.get(key)
        if not a:
            why.append("no-file-view")
            continue
        if a["ngroups"]:
            why.append("groups-in-file")
        for v in a["vars"]:
            if any(k in v["attrs"] for k in UNMODELLED_REF_ATTRS):
                why.append("unmodelled-reference-attribute")
    if not step["s1"]:
        why.append("empty-request")
    why += opts_outside_model(step.get("opts"))
    if not all(safe(x) for x in strings_of([step["r"], step["s1"], step.get("before"), step.get("after"),
                                            step.get("opts")])):
        why.append("non-ascii")
    return sorted(set(why))


# ---------------------------------------------------------------------------
# generators
# ---------------------------------------------------------------------------
COORDS = {
    "lat": {"standard_name": "latitude", "units": "degrees_north"},
    "lon": {"standard_name": "longitude", "units": "degrees_east"},
    "time": {"standard_name": "time", "units": "days since 2000-01-01"},
    "x": {"standard_name": "projection_x_coordinate", "units": "m"},
    "y": {"standard_name": "projection_y_coordinate", "units": "m"},
    "height": {"standard_name": "height", "units": "m"},
    "plain": {"long_name": "an axis"},
    "noname": {"units": "km"},
}
FIELD_NAMES = [("specific_humidity", "1"), ("air_temperature", "K"), ("eastward_wind", "m s-1"), (None, "1")]
DESC_VALUES = {"comment": ["c1", "c2"], "title": ["t1", "t2"], "history": ["h1"], "source": ["s1", "s2"],
               "institution": ["i1"], "references": ["r1"]}


def gen_axis(rng):
    name = rng.choice(["lat", "lon", "time", "x", "y", "height", "plain", "noname"])
    ax = {"name": name, "size": rng.choice([1, 2, 2, 3, 3, 4]), "v": rng.choice([0, 0, 1, 2]),
          "coord": rng.random() < 0.85, "bnd": rng.random() < 0.4, "bv": rng.choice([0, 0, 1]),
          "ncvar": rng.choice([None, None, name, name + "v"]), "ncdim": rng.choice([None, None, name, "d_" + name]),
          "bncvar": rng.choice([None, None, name + "_bnds"]), "bncdim": rng.choice([None, None, None, "nv"]),
          "unlim": rng.random() < 0.08}
    return ax


def gen_grid(rng):
    n = rng.choice([1, 2, 2, 2, 3])
    axes = []
    used = set()
    while len(axes) < n:
        a = gen_axis(rng)
        if a["name"] in used:
            continue
        used.add(a["name"])
        axes.append(a)
    g = {"axes": axes, "scalar": None, "aux": [], "msr": [], "vert": None}
    if rng.random() < 0.35:
        g["scalar"] = {"name": "time" if "time" not in used else "height", "v": rng.choice([0, 1]),
                       "bnd": rng.random() < 0.3, "ncvar": rng.choice([None, "t0"])}
        if g["scalar"]["name"] in used:
            g["scalar"] = None
    for _ in range(rng.choice([0, 0, 1, 1, 2])):
        k = rng.choice([1, 1, 2]) if n >= 2 else 1
        ax = sorted(rng.sample(range(n), k))
        if rng.random() < 0.3:
            ax = list(reversed(ax))
        g["aux"].append({"axes": ax, "v": rng.choice([3, 3, 4]), "props": rng.choice([
            {"long_name": "aux"}, {"standard_name": "altitude", "units": "m"}, {"long_name": "other aux", "units": "1"}]),
            "ncvar": rng.choice([None, None, "auxv"]), "bnd": rng.random() < 0.25, "bv": 0})
    if n >= 2 and rng.random() < 0.3:
        # two axes of one size, the first with a 1-d auxiliary coordinate that has bounds: an appended
        # field may then carry a different coordinate with equal bounds on the other axis (mutate_grid)
        axes[1]["size"] = axes[0]["size"]
        if not any(x["axes"] == [0] and x["bnd"] for x in g["aux"]):
            g["aux"].insert(0, {"axes": [0], "v": 3, "props": rng.choice([{"long_name": "aux"},
                                                                            {"long_name": "other aux", "units": "1"}]),
                                "ncvar": rng.choice([None, "auxv"]), "bnd": True, "bv": 0})
    if n >= 2 and rng.random() < 0.3:
        g["msr"].append({"axes": [0, 1], "v": rng.choice([6, 7]), "ncvar": rng.choice([None, "areacell"]),
                         "props": {"units": "m2"}, "measure": "area"})
    if rng.random() < 0.3:
        # a vertical axis with formula terms: a(z), b(z), orog(first horizontal axis)
        g["vert"] = {"size": rng.choice([1, 2]), "v": rng.choice([0, 1]), "bnd": rng.random() < 0.6,
                     "a": rng.choice([8, 9]), "b": rng.choice([10, 11]), "orog": rng.choice([12, 13]),
                     "tb": rng.random() < 0.5, "names": rng.random() < 0.5}
    return g


def mutate_grid(rng, g, level):
    """A grid sharing all (level 0), some (1) or few (2) coordinates with g."""
    h = copy.deepcopy(g)
    p = [0.0, 0.35, 0.8][level]
    for a in h["axes"]:
        if rng.random() < p:
            what = rng.choice(["v", "v", "size", "coord", "bnd", "bv", "props", "unlim"])
            if what == "v":
                a["v"] = (a["v"] + 1) % 3
            elif what == "size":
                a["size"] = a["size"] % 4 + 1
            elif what == "coord":
                a["coord"] = not a["coord"]
            elif what == "bnd":
                a["bnd"] = not a["bnd"]
            elif what == "bv":
                a["bv"] = 1 - a["bv"]
            elif what == "unlim":
                a["unlim"] = not a.get("unlim")
            else:
                a["extra_prop"] = True
        # netCDF names never matter for equality: change them freely
        if rng.random() < 0.5:
            a["ncvar"] = rng.choice([None, a["name"], a["name"] + "v", a["name"] + "w"])
        if rng.random() < 0.3:
            a["ncdim"] = rng.choice([None, a["name"], "d_" + a["name"]])
    if h["scalar"] and rng.random() < p:
        h["scalar"]["v"] = 1 - h["scalar"]["v"]
    if h["scalar"] is None and rng.random() < p * 0.3 and all(a["name"] != "time" for a in h["axes"]):
        h["scalar"] = {"name": "time", "v": 0, "bnd": False, "ncvar": None}
    for x in h["aux"]:
        if rng.random() < p:
            x["v"] = x["v"] + 1
        if rng.random() < 0.3:
            x["ncvar"] = rng.choice([None, "auxv", "auxw"])
    for x in h["msr"]:
        if rng.random() < p:
            x["v"] = x["v"] + 1
    if len(h["axes"]) >= 2 and h["axes"][0]["size"] == h["axes"][1]["size"] and rng.random() < 0.5:
        first = [x for x in h["aux"] if x["axes"] == [0] and x["bnd"]]
        if first and not any(x.get("twin") for x in h["aux"]):
            # a different coordinate, on the other axis, whose bounds equal those of the first
            a = first[0]
            h["aux"].append({"axes": [1], "v": a["v"], "props": dict(a["props"], long_name="twin aux"),
                             "ncvar": rng.choice([None, "twin"]), "bnd": True, "bv": a["bv"], "twin": True})
    if h["vert"] and rng.random() < p:
        k = rng.choice(["a", "b", "orog", "v"])
        h["vert"][k] = h["vert"][k] + 1
    if rng.random() < p * 0.3 and len(h["axes"]) > 1:
        rng.shuffle(h["axes"])
        n = len(h["axes"])
        h["aux"] = [x for x in h["aux"] if len(x["axes"]) == 1]
        h["msr"] = []
    return h


def field_spec(rng, g, fprops, ncvar, v, gl=None, groups=None, fill=None):
    axes, dim, aux, msr = [], [], [], []
    for i, a in enumerate(g["axes"]):
        axes.append({"size": a["size"], "ncdim": a["ncdim"], "data": True, "unlim": bool(a.get("unlim"))})
        if a["coord"]:
            props = dict(COORDS[a["name"]])
            if a.get("extra_prop"):
                props["long_name"] = "changed"
            d = {"axis": i, "ncvar": a["ncvar"], "props": props, "v": a["v"]}
            if a["bnd"]:
                d["bnd"] = {"v": a["bv"], "ncvar": a["bncvar"], "ncdim": a["bncdim"]}
            dim.append(d)
    for x in g["aux"]:
        if all(i < len(axes) for i in x["axes"]):
            d = {"axes": x["axes"], "ncvar": x["ncvar"], "props": x["props"], "v": x["v"]}
            if x["bnd"]:
                d["bnd"] = {"v": x["bv"]}
            aux.append(d)
    for x in g["msr"]:
        if all(i < len(axes) for i in x["axes"]):
            msr.append({"axes": x["axes"], "ncvar": x["ncvar"], "props": x["props"], "v": x["v"],
                        "measure": x["measure"]})
    vert = None
    if g["vert"]:
        vt = g["vert"]
        zi = len(axes)
        axes.append({"size": vt["size"], "ncdim": None, "data": True})
        d = {"axis": zi, "ncvar": "z" if vt["names"] else None,
             "props": {"standard_name": "atmosphere_hybrid_height_coordinate",
                       "computed_standard_name": "altitude"}, "v": vt["v"]}
        if vt["bnd"]:
            d["bnd"] = {"v": 0}
        dim.append(d)
        terms = [{"term": "a", "axes": [zi], "ncvar": "a" if vt["names"] else None, "props": {"units": "m"}, "v": vt["a"]},
                 {"term": "b", "axes": [zi], "ncvar": "b" if vt["names"] else None, "props": {}, "v": vt["b"]},
                 {"term": "orog", "axes": [0], "ncvar": None,
                  "props": {"standard_name": "surface_altitude", "units": "m"}, "v": vt["orog"]}]
        if vt["tb"] and vt["bnd"]:
            terms[0]["bnd"] = {"v": 0}
            terms[1]["bnd"] = {"v": 0}
        vert = {"axis": zi, "terms": terms, "sn": "atmosphere_hybrid_height_coordinate", "csn": "altitude"}
    if g["scalar"]:
        sc = g["scalar"]
        si = len(axes)
        axes.append({"size": 1, "ncdim": None, "data": False})
        d = {"axis": si, "ncvar": sc["ncvar"], "props": dict(COORDS[sc["name"]]), "v": sc["v"]}
        if sc["bnd"]:
            d["bnd"] = {"v": 0}
        dim.append(d)
    s = {"ncvar": ncvar, "props": fprops, "v": v, "axes": axes, "dim": dim, "aux": aux, "msr": msr, "vert": vert}
    if gl:
        s["gl"] = gl
    if groups:
        s["groups"] = groups
    if fill is not None:
        s["fill"] = fill
    return {"syn": s}


def gen_fprops(rng, desc_p=0.4):
    sn, units = rng.choice(FIELD_NAMES)
    p = {"units": units}
    if sn:
        p["standard_name"] = sn
    if rng.random() < 0.4:
        p["project"] = rng.choice(["research", "other"])
    if rng.random() < 0.3:
        p["long_name"] = rng.choice(["a field", "another field"])
    for k, vals in DESC_VALUES.items():
        if rng.random() < desc_p / 2.5:
            p[k] = rng.choice(vals)
    return p


def gen_syn_case(rng, cid, fam):
    g0 = gen_grid(rng)
    n0 = rng.choice([1, 1, 2])
    s0 = []
    for j in range(n0):
        gj = g0 if j == 0 else mutate_grid(rng, g0, rng.choice([0, 1]))
        gl = {"project": None} if rng.random() < 0.2 else None
        s0.append(field_spec(rng, gj, gen_fprops(rng), rng.choice([None, "q", "ta"]), 20 + j, gl=gl))
    nsteps = {"seq": rng.choice([2, 3]), "share": 1, "indep": 1}.get(fam, 1)
    appends = []
    for k in range(nsteps):
        m = rng.choice([1, 1, 1, 2])
        step = []
        for j in range(m):
            if fam == "indep":
                gj = gen_grid(rng)
            else:
                gj = mutate_grid(rng, g0, rng.choice([0, 0, 1, 1, 2]))
            gl = None
            r = rng.random()
            if r < 0.12:
                gl = {"project": None}
            elif r < 0.2:
                gl = {"foo": "bar"}
            fp = gen_fprops(rng)
            if r > 0.9:
                fp["foo"] = "baz"
            fill = -999.0 if rng.random() < 0.12 else None
            spec = field_spec(rng, gj, fp, rng.choice([None, "q", "ta", "new"]), 30 + 10 * k + j, gl=gl, fill=fill)
            if rng.random() < (0.5 if fill is not None else 0.15):
                spec["via_file"] = True
            step.append(spec)
        if rng.random() < 0.06:
            # a field of the file itself, unread, appended again under another name
            step.append({"self": rng.choice([0, 1, 2]), "mods": [["ncvar", "again"], ["prop", "long_name", "appended again"]]})
        appends.append(step)
    return {"id": cid, "fam": fam, "s0": s0, "appends": appends}


# ---- existing files whose global attributes are not what a default write gives ----
CONV_EXTRAS = [["ACDD-1.3"], "UGRID-1.0", ["CF-1.6", "ACDD-1.3"], ["my convention"], ["ACDD-1.3", "UGRID-1.0"]]
DESCRIPTORS = [{"title": "t1"}, {"history": "made by a tool", "campaign": "c"}, {"version": {"i4": [3]}},
               {"comment": "a file comment", "source": "s1"}, {"levels": {"f8": [1.5, 2.5]}, "institution": "i2"}]
FOREIGN = [["Conventions", "CF-1.6"], ["Conventions", "CF-1.6 ACDD-1.1"], ["source", "another tool"],
           ["version", {"i4": [3]}], ["levels", {"f8": [1.5, 2.5]}], ["project", "research"], ["project", "other"],
           ["foo", "bar"], ["foo", "baz"], ["history", "2001-01-01: created\n2002-02-02: changed"],
           ["comment", "c1"], ["title", "t2"], ["flags", {"i2": [1, 2, 4]}], ["empty", ""]]
FORCED = [["foo", "bar"], ["comment", "forced comment"], ["project", "forced project"], ["title", "t1"],
          ["Conventions", "ACDD-1.3"]]
APPEND_KW = [{"Conventions": ["ACDD-1.3"]}, {"Conventions": "CF-1.7"}, {"file_descriptors": {"title": "t2"}},
             {"file_descriptors": {"history": "appended", "foo": "descriptor"}}, {"global_attributes": ["project"]},
             {"global_attributes": ["foo", "long_name"]}, {"variable_attributes": ["comment"]},
             {"variable_attributes": ["title", "project"], "global_attributes": ["foo"]}]


def decorate_globals(rng, case, p=0.6):
    """Make the file that exists before the appends carry global attributes
    that a default write would not produce (Conventions extras, file
    descriptors, requested and forced global attributes, attributes set by
    another tool - some with the values the appended fields have, some with
    other values), and pass write options to some of the append calls."""
    if rng.random() >= p:
        return case
    kw = {}
    if rng.random() < 0.5:
        kw["Conventions"] = rng.choice(CONV_EXTRAS)
    if rng.random() < 0.4:
        kw["file_descriptors"] = rng.choice(DESCRIPTORS)
    if rng.random() < 0.25:
        kw["global_attributes"] = rng.choice([["project"], ["foo", "project"], "long_name"])
    if rng.random() < 0.12:
        kw["variable_attributes"] = rng.choice([["comment"], ["title", "source"]])
    if kw:
        case["w_kw"] = kw
    if rng.random() < 0.35:
        name, val = rng.choice(FORCED)
        for sp in case["s0"]:
            if "syn" in sp:
                sp["syn"].setdefault("gl", {})
                sp["syn"]["gl"] = dict(sp["syn"]["gl"], **{name: val})
            else:
                sp.setdefault("mods", [])
                sp["mods"] = list(sp["mods"]) + [["global", name, val]]
    if rng.random() < 0.45:
        names, out = set(), []
        for name, val in rng.sample(FOREIGN, rng.choice([1, 2, 3])):
            if name not in names:
                names.add(name)
                out.append([name, val])
        case["foreign"] = out
    akw = []
    for _ in case["appends"]:
        akw.append(rng.choice(APPEND_KW) if rng.random() < 0.25 else None)
    if any(akw):
        case["a_kw"] = akw
    return case


APPEND_SPELLINGS = ["a", "r+"]          # docstring of cfdm.write: 'r+' is an alias for 'a'
BAD_SPELLINGS = ["A", "r", "append", "a+", "w+", "R+", "", "x", " a", "ra"]


def spell_modes(rng, case):
    """Every append call is made with one of the accepted spellings of append mode."""
    case["a_mode"] = [rng.choice(APPEND_SPELLINGS) for _ in case["appends"]]
    return case


def gen_refusal_case(rng, cid):
    """featureType / groups requests (documented as unsupported or not)."""
    g0 = gen_grid(rng)
    g0["vert"] = None
    for a in g0["axes"]:
        a["unlim"] = False          # NETCDF3 allows one unlimited dimension only
    p0 = gen_fprops(rng, 0.1)
    file_ft = rng.choice([None, None, "timeSeries", "trajectory"])
    if file_ft:
        p0["featureType"] = file_ft
    s0 = [field_spec(rng, g0, p0, "q", 20)]
    m = rng.choice([1, 1, 2])
    mixed = None
    if file_ft and rng.random() < 0.4:
        # one request with the featureType of the file and another one (either order, each given as a
        # property, a forced global attribute or a marked property) - documented as unsupported
        m = rng.choice([2, 2, 3])
        other = rng.choice([t for t in ("timeSeries", "trajectory", "profile") if t != file_ft])
        mixed = [file_ft] * (m - 1) + [other]
        rng.shuffle(mixed)
    step = []
    for j in range(m):
        fp = gen_fprops(rng, 0.1)
        gl, groups = None, None
        r = rng.random()
        if mixed:
            how = rng.choice(["prop", "forced", "marked"])
            if how == "prop":
                fp["featureType"] = mixed[j]
            elif how == "forced":
                gl = {"featureType": mixed[j]}
            else:
                gl = {"featureType": None}
                fp["featureType"] = mixed[j]
        elif r < 0.3:
            fp["featureType"] = rng.choice(["timeSeries", "trajectory", "profile"])
        elif r < 0.5:
            gl = {"featureType": rng.choice(["timeSeries", "trajectory"])}
        elif r < 0.6:
            gl = {"featureType": None}
            fp["featureType"] = rng.choice(["timeSeries", "trajectory"])
        if rng.random() < (0.3 if not mixed else 0.0):
            groups = rng.choice([["forecast"], ["a", "b"]])
        step.append(field_spec(rng, mutate_grid(rng, g0, rng.choice([0, 1])), fp, rng.choice(["q", "new"]), 30 + j,
                               gl=gl, groups=groups))
    fmt = rng.choice(["NETCDF4", "NETCDF4", "NETCDF4", "NETCDF3_CLASSIC"])
    return decorate_globals(rng, {"id": cid, "fam": "refusal", "s0": s0, "appends": [step], "fmt": fmt}, p=0.35)


EX_MODS = [
    [],
    [["ncvar", "renamed"]],
    [["scale", 2.0, 1.0]],
    [["prop", "comment", "a comment"]],
    [["prop", "project", "other"]],
    [["scale", 1.0, 5.0], ["prop", "title", "a title"]],
]


def gen_example_cases(rng, n, thorough):
    """Example fields and variations: oracle only (most are outside Model.v)."""
    out = []
    pairs = [(0, 1), (1, 1), (0, 0), (1, 0), (0, 3), (3, 3), (2, 0), (0, 2), (5, 0), (0, 4), (6, 0), (0, 6), (7, 1),
             (1, 7), (4, 4), (2, 2), (0, 5), (3, 0), (6, 6), (1, 2)]
    for k in range(n):
        if k < len(pairs):
            a, b = pairs[k]
        else:
            a, b = rng.choice(range(8)), rng.choice(range(8))
        mods = rng.choice(EX_MODS) if k >= 6 else []
        extra = []
        if a == b and rng.random() < 0.5 and k >= 6:
            cname = {0: "latitude", 1: "grid_latitude", 2: "latitude", 5: "latitude", 4: None, 3: None, 6: None, 7: "grid_latitude"}[a]
            if cname:
                extra = [["coord_shift", cname, 1.5]]
        case = {"id": f"ex{k}", "fam": "example", "s0": [{"ex": a}],
                "appends": [[{"ex": b, "mods": list(mods) + extra}]]}
        if rng.random() < 0.2 and k >= 6:
            case["appends"][0][0]["via_file"] = True
        if thorough and rng.random() < 0.3:
            case["appends"].append([{"ex": rng.choice([0, 1, 2]), "mods": [["ncvar", "again"], ["scale", 3.0, 0.0]]}])
        if k >= 4:
            decorate_globals(rng, case, p=0.5)
        out.append(case)
    return out


def gen_domain_cases(rng, n):
    """Domain constructs: appended to domain-only and to mixed datasets, with the netCDF name of a domain
    variable of the dataset (default name) or another one; fields appended to domain-only datasets."""
    out = []
    for k in range(n):
        g0 = gen_grid(rng)
        g0["vert"] = None
        base = field_spec(rng, g0, gen_fprops(rng, 0.1), "q", 20)
        dom0 = dict(copy.deepcopy(base), domain=rng.choice(["default", "default", "dom0"]))
        kind = k % 5
        if kind in (0, 1):
            s0 = [dom0]                                              # domain-only dataset
        elif kind == 2:
            s0 = [base, dom0]                                        # mixed
        elif kind == 3:
            s0 = [base]                                              # fields only, a domain arrives
        else:
            s0 = [dict({"ex": rng.choice([0, 1, 2])}, domain="default")]
        steps = []
        for j in range(rng.choice([1, 1, 2])):
            gj = mutate_grid(rng, g0, rng.choice([0, 0, 1, 2]))
            spec = field_spec(rng, gj, gen_fprops(rng, 0.1), rng.choice(["q", "new"]), 30 + j)
            r = rng.random()
            if kind == 4:
                spec = dict({"ex": s0[0]["ex"]}, domain=rng.choice(["default", "dom2"]))
            elif r < 0.7:
                spec = dict(spec, domain=rng.choice(["default", "default", "dom0", "dom2"]))
            steps.append([spec])
        out.append(spell_modes(rng, {"id": f"dom{k}", "fam": "domain", "s0": s0, "appends": steps}))
    return out


def gen_external_cases(rng, n):
    """Datasets with an external_variables attribute: an internal cell measure that bears the name of the
    external variable, the same external variable again, other names."""
    out = []
    for k in range(n):
        name = rng.choice(["areacella", "cell_area"])
        s0 = [{"ex": 1, "mods": [["external_cm", name]]}]
        if k % 3 == 2:
            s0.append({"ex": 0})
        kind = k % 4
        if kind == 0:
            app = {"ex": 0, "mods": [["ncvar", "q_new"], ["add_cm", name]]}            # the name of the external variable
        elif kind == 1:
            app = {"ex": 2, "mods": [["ncvar", "q_new"], ["add_cm", name, "volume"]]}
        elif kind == 2:
            app = {"ex": 1, "mods": [["ncvar", "ta2"], ["external_cm", name], ["scale", 2.0, 0.0]]}   # same external variable
        else:
            app = {"ex": 0, "mods": [["ncvar", "q_new"], ["add_cm", "another_area"]]}
        out.append(spell_modes(rng, {"id": f"ext{k}", "fam": "external", "s0": s0, "external": True, "appends": [[app]]}))
    return out


def gen_dsg_cases(rng, n):
    """Ragged arrays appended to a dataset holding one with an equal count / index variable: instance-level
    and / or element-level coordinates equal or moved."""
    out = []
    shifts = [[], ["instance"], ["element"], ["instance", "element"]]
    for k in range(n):
        method = ["contiguous", "indexed"][k % 2]
        sh = shifts[(k // 2) % 4]
        app = {"ex": 3, "mods": [["ncvar", "p2"], ["prop", "standard_name", "rainfall_flux"]],
               "dsg": {"method": method if k % 5 != 4 else rng.choice(["contiguous", "indexed"]), "shift": sh}}
        out.append(spell_modes(rng, {"id": f"dsg{k}", "fam": "dsg", "s0": [{"ex": 3, "dsg": {"method": method, "shift": []}}],
                                     "appends": [[app]]}))
    return out


def gen_malformed(rng, n):
    out = []
    for k in range(n):
        g0 = gen_grid(rng)
        s0 = [field_spec(rng, g0, gen_fprops(rng), "q", 20)]
        kind = k % 9
        step = [field_spec(rng, mutate_grid(rng, g0, 1), gen_fprops(rng), "q", 31)]
        case = {"id": f"mal{k}", "fam": "malformed", "s0": s0, "appends": [step]}
        if kind == 0:
            case["appends"] = [[]]                       # nothing to append
        elif kind == 1:
            case["fmt_append"] = "NETCDF3_CLASSIC"       # format does not match the file
        elif kind == 2:
            step[0]["syn"]["props"]["_FillValue"] = "not a number"
        elif kind == 3:
            step[0]["syn"]["ncvar"] = "bad name/with slash"
        elif kind in (7, 8):
            # a spelling of the mode that is not accepted: rejected, file untouched
            case["w_kw"] = {"Conventions": ["ACDD-1.3"]}
            case["a_mode"] = [rng.choice(BAD_SPELLINGS)]
        else:
            # write options that are rejected - after the file has been opened for appending (a Conventions
            # name with a comma) or before (Conventions as a variable attribute or a file descriptor)
            case["w_kw"] = {"Conventions": ["ACDD-1.3"], "file_descriptors": {"title": "t1"}}
            case["a_kw"] = [[{"Conventions": ["A,B"]}, {"variable_attributes": ["Conventions"]},
                             {"file_descriptors": {"Conventions": "CF-1.0"}}][kind - 4]]
        out.append(case)
    return out


CORPUS = [
    # F17a: formula terms of an appended field
    {"id": "corpus-F17a", "fam": "corpus", "s0": [{"ex": 0}], "appends": [[{"ex": 1}]]},
    # F17b: the file already holds the field (crash at the pinned commit)
    {"id": "corpus-F17b", "fam": "corpus", "s0": [{"ex": 1}], "appends": [[{"ex": 1}]]},
    # F17c: DSG field (featureType) appended to a file without featureType
    {"id": "corpus-F17c", "fam": "corpus", "s0": [{"ex": 0}], "appends": [[{"ex": 3}]]},
    # F17d: description-of-file-contents property that the file does not hold
    {"id": "corpus-F17d", "fam": "corpus", "s0": [{"ex": 0}],
     "appends": [[{"ex": 0, "mods": [["prop", "comment", "hello"], ["ncvar", "q2"]]}]]},
    # C17-fix2-1: two bare dimensions of one size; the dry run of the third append put a re-read field on the
    # other dimension and the appended field got a coordinate variable of the wrong dimension
    {"id": "corpus-dry-run-dimension", "fam": "corpus", "s0": [{"syn": {"ncvar": "q", "props": {"units": "1", "standard_name": "specific_humidity"}, "v": 20, "axes": [{"size": 4, "ncdim": "time", "data": True, "unlim": False}], "dim": [], "aux": [{"axes": [0], "ncvar": None, "props": {"long_name": "other aux", "units": "1"}, "v": 4, "bnd": {"v": 0}}, {"axes": [0], "ncvar": None, "props": {"standard_name": "altitude", "units": "m"}, "v": 3}], "msr": [], "vert": None}}], "appends": [[{"syn": {"ncvar": "ta", "props": {"units": "K", "standard_name": "air_temperature", "project": "other", "long_name": "a field"}, "v": 30, "axes": [{"size": 1, "ncdim": "time", "data": True, "unlim": False}], "dim": [], "aux": [{"axes": [0], "ncvar": None, "props": {"long_name": "other aux", "units": "1"}, "v": 5, "bnd": {"v": 0}}, {"axes": [0], "ncvar": None, "props": {"standard_name": "altitude", "units": "m"}, "v": 3}], "msr": [], "vert": None}}, {"syn": {"ncvar": "new", "props": {"units": "1", "standard_name": "specific_humidity", "project": "research", "title": "t1", "institution": "i1"}, "v": 31, "axes": [{"size": 4, "ncdim": "d_time", "data": True, "unlim": False}], "dim": [], "aux": [{"axes": [0], "ncvar": None, "props": {"long_name": "other aux", "units": "1"}, "v": 5, "bnd": {"v": 0}}, {"axes": [0], "ncvar": "auxw", "props": {"standard_name": "altitude", "units": "m"}, "v": 4}], "msr": [], "vert": None, "fill": -999.0}, "via_file": True}], [{"syn": {"ncvar": None, "props": {"units": "1", "comment": "c2"}, "v": 40, "axes": [{"size": 4, "ncdim": "time", "data": True, "unlim": False}], "dim": [], "aux": [{"axes": [0], "ncvar": None, "props": {"long_name": "other aux", "units": "1"}, "v": 5, "bnd": {"v": 0}}, {"axes": [0], "ncvar": "auxv", "props": {"standard_name": "altitude", "units": "m"}, "v": 3}], "msr": [], "vert": None}}, {"syn": {"ncvar": "ta", "props": {"units": "1", "title": "t1", "references": "r1"}, "v": 41, "axes": [{"size": 4, "ncdim": "d_time", "data": True, "unlim": False}], "dim": [], "aux": [{"axes": [0], "ncvar": None, "props": {"long_name": "other aux", "units": "1"}, "v": 4, "bnd": {"v": 0}}, {"axes": [0], "ncvar": None, "props": {"standard_name": "altitude", "units": "m"}, "v": 3}], "msr": [], "vert": None, "fill": -999.0}}], [{"syn": {"ncvar": None, "props": {"units": "K", "standard_name": "air_temperature", "title": "t2", "source": "s2", "institution": "i1", "foo": "baz"}, "v": 50, "axes": [{"size": 4, "ncdim": "time", "data": True, "unlim": False}], "dim": [], "aux": [{"axes": [0], "ncvar": None, "props": {"long_name": "other aux", "units": "1"}, "v": 4, "bnd": {"v": 0}}, {"axes": [0], "ncvar": None, "props": {"standard_name": "altitude", "units": "m"}, "v": 3}], "msr": [], "vert": None, "fill": -999.0}}]]},
    # commit b49d869: fields of the file itself, their data unread, appended to it
    {"id": "corpus-append-own-field", "fam": "corpus", "s0": [{"ex": 0}, {"ex": 1}],
     "appends": [[{"self": 0, "mods": [["ncvar", "again"]]}], [{"self": 1, "mods": [["ncvar", "ta2"], ["scale", 2.0, 0.0]]}]]},
    # seeded C17-s6: the documented alias 'r+' (file with non-default global attributes; a refusal; a sharing append)
    {"id": "corpus-alias-globals", "fam": "corpus", "s0": [{"ex": 0}], "a_mode": ["r+", "r+"],
     "w_kw": {"Conventions": ["ACDD-1.3"], "file_descriptors": {"comment": "a file comment"}},
     "appends": [[{"ex": 2, "mods": [["prop", "comment", "another comment"]]}], [{"ex": 0, "mods": [["ncvar", "q4"], ["scale", 2.0, 0.0]]}]]},
    {"id": "corpus-alias-refusal", "fam": "corpus", "s0": [{"ex": 0}], "a_mode": ["r+", "r+"],
     "appends": [[{"ex": 3}], [{"ex": 0, "mods": [["groups", ["forecast"]], ["ncvar", "q5"]]}]]},
    # third pass, pristine-tree observations: domain appended to a domain-only dataset under the same name;
    # an internal cell measure bearing the name of the dataset's external variable
    {"id": "corpus-domain-only", "fam": "corpus", "s0": [{"ex": 0, "domain": "default"}],
     "appends": [[{"ex": 0, "domain": "default"}], [{"ex": 0, "mods": [["ncvar", "q6"]]}]]},
    {"id": "corpus-external-name", "fam": "corpus", "s0": [{"ex": 1, "mods": [["external_cm", "areacella"]]}],
     "external": True, "appends": [[{"ex": 0, "mods": [["ncvar", "q_new"], ["add_cm", "areacella"]]}]]},
    # C17-fix3-4: a field appended to a domain-only dataset whose auxiliary coordinate has bounds (the dry run
    # renamed the bounds dimension 'bounds2_1')
    {"id": "corpus-domain-file-field-appended", "fam": "corpus", "s0": [{"syn": {"ncvar": "q", "props": {"units": "1"}, "v": 20, "axes": [{"size": 3, "ncdim": "d_lon", "data": True, "unlim": False}, {"size": 3, "ncdim": None, "data": True, "unlim": False}, {"size": 2, "ncdim": "lat", "data": True, "unlim": False}, {"size": 1, "ncdim": None, "data": False}], "dim": [{"axis": 0, "ncvar": "lon", "props": {"standard_name": "longitude", "units": "degrees_east"}, "v": 1}, {"axis": 1, "ncvar": "plainv", "props": {"long_name": "an axis"}, "v": 2, "bnd": {"v": 0, "ncvar": None, "ncdim": None}}, {"axis": 2, "ncvar": None, "props": {"standard_name": "latitude", "units": "degrees_north"}, "v": 1}, {"axis": 3, "ncvar": None, "props": {"standard_name": "time", "units": "days since 2000-01-01"}, "v": 0}], "aux": [{"axes": [0], "ncvar": None, "props": {"long_name": "other aux", "units": "1"}, "v": 3, "bnd": {"v": 0}}, {"axes": [0], "ncvar": None, "props": {"standard_name": "altitude", "units": "m"}, "v": 4}], "msr": [], "vert": None}, "domain": "default"}], "appends": [[{"syn": {"ncvar": "new", "props": {"units": "K", "standard_name": "air_temperature", "project": "research", "long_name": "a field"}, "v": 30, "axes": [{"size": 3, "ncdim": "d_lon", "data": True, "unlim": False}, {"size": 3, "ncdim": "d_plain", "data": True, "unlim": False}, {"size": 2, "ncdim": "lat", "data": True, "unlim": False}, {"size": 1, "ncdim": None, "data": False}], "dim": [{"axis": 0, "ncvar": "lonw", "props": {"standard_name": "longitude", "units": "degrees_east"}, "v": 1, "bnd": {"v": 1, "ncvar": "lon_bnds", "ncdim": None}}, {"axis": 1, "ncvar": "plainv", "props": {"long_name": "an axis"}, "v": 2, "bnd": {"v": 1, "ncvar": None, "ncdim": None}}, {"axis": 2, "ncvar": "latw", "props": {"standard_name": "latitude", "units": "degrees_north"}, "v": 1}, {"axis": 3, "ncvar": None, "props": {"standard_name": "time", "units": "days since 2000-01-01"}, "v": 1}], "aux": [{"axes": [0], "ncvar": None, "props": {"long_name": "other aux", "units": "1"}, "v": 4, "bnd": {"v": 0}}, {"axes": [0], "ncvar": None, "props": {"standard_name": "altitude", "units": "m"}, "v": 4}], "msr": [], "vert": None}}], [{"syn": {"ncvar": "q", "props": {"units": "m s-1", "standard_name": "eastward_wind", "long_name": "another field", "comment": "c1"}, "v": 31, "axes": [{"size": 3, "ncdim": None, "data": True, "unlim": False}, {"size": 3, "ncdim": None, "data": True, "unlim": False}, {"size": 2, "ncdim": "lat", "data": True, "unlim": False}, {"size": 1, "ncdim": None, "data": False}], "dim": [{"axis": 0, "ncvar": "lon", "props": {"standard_name": "longitude", "units": "degrees_east"}, "v": 1}, {"axis": 1, "ncvar": "plainv", "props": {"long_name": "an axis"}, "v": 2, "bnd": {"v": 0, "ncvar": None, "ncdim": None}}, {"axis": 2, "ncvar": "lat", "props": {"standard_name": "latitude", "units": "degrees_north"}, "v": 1, "bnd": {"v": 1, "ncvar": None, "ncdim": "nv"}}, {"axis": 3, "ncvar": None, "props": {"standard_name": "time", "units": "days since 2000-01-01"}, "v": 0}], "aux": [{"axes": [0], "ncvar": None, "props": {"long_name": "other aux", "units": "1"}, "v": 3, "bnd": {"v": 0}}, {"axes": [0], "ncvar": None, "props": {"standard_name": "altitude", "units": "m"}, "v": 4}], "msr": [], "vert": None}, "domain": "dom0"}]], "a_mode": ["r+", "r+"]},
    # seed robustness (VERIF_SEED=2): an appended domain whose coordinate bounds variable gets the default name
    # 'bounds' - alphabetically before its coordinate variable, so that cfdm.read (field mode) returns the bounds
    # variable, not the coordinate variable, as the field; not an extra field of the append
    {"id": "corpus-domain-bounds-named-bounds", "fam": "corpus", "s0": [{"syn": {"ncvar": "q", "props": {"units": "1", "long_name": "another field", "references": "r1"}, "v": 20, "axes": [{"size": 3, "ncdim": "d_height", "data": True, "unlim": False}, {"size": 4, "ncdim": None, "data": True, "unlim": False}, {"size": 1, "ncdim": None, "data": False}], "dim": [{"axis": 0, "ncvar": "heightv", "props": {"standard_name": "height", "units": "m"}, "v": 0}, {"axis": 1, "ncvar": None, "props": {"long_name": "an axis"}, "v": 0}, {"axis": 2, "ncvar": None, "props": {"standard_name": "time", "units": "days since 2000-01-01"}, "v": 0, "bnd": {"v": 0}}], "aux": [{"axes": [1], "ncvar": None, "props": {"standard_name": "altitude", "units": "m"}, "v": 3}, {"axes": [0], "ncvar": None, "props": {"long_name": "aux"}, "v": 3}], "msr": [{"axes": [0, 1], "ncvar": "areacell", "props": {"units": "m2"}, "v": 7, "measure": "area"}], "vert": None}, "domain": "default"}], "appends": [[{"syn": {"ncvar": "q", "props": {"units": "m s-1", "standard_name": "eastward_wind"}, "v": 30, "axes": [{"size": 3, "ncdim": None, "data": True, "unlim": False}, {"size": 4, "ncdim": None, "data": True, "unlim": False}, {"size": 1, "ncdim": None, "data": False}], "dim": [{"axis": 0, "ncvar": "heightv", "props": {"standard_name": "height", "units": "m"}, "v": 0}, {"axis": 1, "ncvar": "plainv", "props": {"long_name": "an axis"}, "v": 0}, {"axis": 2, "ncvar": None, "props": {"standard_name": "time", "units": "days since 2000-01-01"}, "v": 0, "bnd": {"v": 0}}], "aux": [{"axes": [1], "ncvar": None, "props": {"standard_name": "altitude", "units": "m"}, "v": 3}, {"axes": [0], "ncvar": None, "props": {"long_name": "aux"}, "v": 3}], "msr": [{"axes": [0, 1], "ncvar": "areacell", "props": {"units": "m2"}, "v": 7, "measure": "area"}], "vert": None}, "domain": "default"}], [{"syn": {"ncvar": "new", "props": {"units": "K", "standard_name": "air_temperature", "project": "research"}, "v": 31, "axes": [{"size": 3, "ncdim": "d_height", "data": True, "unlim": False}, {"size": 4, "ncdim": None, "data": True, "unlim": False}, {"size": 1, "ncdim": None, "data": False}], "dim": [{"axis": 1, "ncvar": None, "props": {"long_name": "an axis"}, "v": 1}, {"axis": 2, "ncvar": None, "props": {"standard_name": "time", "units": "days since 2000-01-01"}, "v": 1, "bnd": {"v": 0}}], "aux": [{"axes": [1], "ncvar": None, "props": {"standard_name": "altitude", "units": "m"}, "v": 4}, {"axes": [0], "ncvar": None, "props": {"long_name": "aux"}, "v": 4}], "msr": [{"axes": [0, 1], "ncvar": "areacell", "props": {"units": "m2"}, "v": 7, "measure": "area"}], "vert": None}, "domain": "dom2"}]], "a_mode": ["r+", "a"]},
    # seed robustness (VERIF_SEED=2, 3): an appended domain whose auxiliary coordinate equals one of the domain-only
    # dataset but is not shared (there it is only known as a field): the greedy matching of old fields took the new
    # variable and reported the old one as extra
    {"id": "corpus-domain-equal-unshared-metadata-0", "fam": "corpus", "s0": [{"syn": {"ncvar": "q", "props": {"units": "1", "standard_name": "specific_humidity", "references": "r1"}, "v": 20, "axes": [{"size": 1, "ncdim": "time", "data": True, "unlim": False}], "dim": [{"axis": 0, "ncvar": "time", "props": {"standard_name": "time", "units": "days since 2000-01-01"}, "v": 0, "bnd": {"v": 0, "ncvar": "time_bnds", "ncdim": None}}], "aux": [{"axes": [0], "ncvar": "auxv", "props": {"long_name": "aux"}, "v": 3}, {"axes": [0], "ncvar": None, "props": {"standard_name": "altitude", "units": "m"}, "v": 3}], "msr": [], "vert": None}, "domain": "default"}], "appends": [[{"syn": {"ncvar": "q", "props": {"units": "1", "project": "research", "long_name": "another field"}, "v": 30, "axes": [{"size": 1, "ncdim": "time", "data": True, "unlim": False}], "dim": [{"axis": 0, "ncvar": "time", "props": {"standard_name": "time", "units": "days since 2000-01-01"}, "v": 0, "bnd": {"v": 0, "ncvar": "time_bnds", "ncdim": None}}], "aux": [{"axes": [0], "ncvar": None, "props": {"long_name": "aux"}, "v": 3}, {"axes": [0], "ncvar": "auxw", "props": {"standard_name": "altitude", "units": "m"}, "v": 3}], "msr": [], "vert": None}, "domain": "dom2"}]], "a_mode": ["r+"]},
    {"id": "corpus-domain-equal-unshared-metadata-1", "fam": "corpus", "s0": [{"syn": {"ncvar": "q", "props": {"units": "1", "standard_name": "specific_humidity", "long_name": "another field", "comment": "c1", "references": "r1"}, "v": 20, "axes": [{"size": 3, "ncdim": None, "data": True, "unlim": False}, {"size": 3, "ncdim": None, "data": True, "unlim": False}], "dim": [{"axis": 0, "ncvar": "time", "props": {"standard_name": "time", "units": "days since 2000-01-01"}, "v": 1}], "aux": [{"axes": [0], "ncvar": None, "props": {"long_name": "other aux", "units": "1"}, "v": 3, "bnd": {"v": 0}}], "msr": [], "vert": None}, "domain": "default"}], "appends": [[{"syn": {"ncvar": "q", "props": {"units": "1"}, "v": 30, "axes": [{"size": 3, "ncdim": None, "data": True, "unlim": False}, {"size": 3, "ncdim": None, "data": True, "unlim": False}], "dim": [{"axis": 0, "ncvar": None, "props": {"standard_name": "time", "units": "days since 2000-01-01"}, "v": 1}], "aux": [{"axes": [0], "ncvar": "auxw", "props": {"long_name": "other aux", "units": "1"}, "v": 3, "bnd": {"v": 0}}, {"axes": [1], "ncvar": "twin", "props": {"long_name": "twin aux", "units": "1"}, "v": 3, "bnd": {"v": 0}}], "msr": [], "vert": None}, "domain": "dom0"}], [{"syn": {"ncvar": "q", "props": {"units": "1", "project": "research"}, "v": 31, "axes": [{"size": 3, "ncdim": None, "data": True, "unlim": False}, {"size": 3, "ncdim": None, "data": True, "unlim": False}], "dim": [{"axis": 0, "ncvar": "timew", "props": {"standard_name": "time", "units": "days since 2000-01-01"}, "v": 1}], "aux": [{"axes": [0], "ncvar": None, "props": {"long_name": "other aux", "units": "1"}, "v": 3, "bnd": {"v": 0}}, {"axes": [1], "ncvar": None, "props": {"long_name": "twin aux", "units": "1"}, "v": 3, "bnd": {"v": 0}}], "msr": [], "vert": None}, "domain": "dom0"}]], "a_mode": ["a", "r+"]},
    # seeded C17-s1: one request holding the file's featureType and another one
    {"id": "corpus-mixed-featureType", "fam": "corpus", "s0": [{"ex": 3}],
     "appends": [[{"ex": 3, "mods": [["ncvar", "rf"]]}, {"ex": 4}], [{"ex": 4}, {"ex": 3, "mods": [["ncvar", "rf"]]}]]},
    # seeded C17-s3: a file written with extra Conventions (and descriptors); two successive appends
    {"id": "corpus-conventions", "fam": "corpus", "s0": [{"ex": 0}],
     "w_kw": {"Conventions": ["ACDD-1.3"], "file_descriptors": {"title": "t1", "version": {"i4": [3]}}},
     "appends": [[{"ex": 2}], [{"ex": 7}]]},
    # a file whose Conventions come from another tool / an older CF version, appended to with a Conventions option
    {"id": "corpus-foreign-conventions", "fam": "corpus", "s0": [{"ex": 0}],
     "foreign": [["Conventions", "CF-1.6"], ["history", "made elsewhere"], ["project", "other"]],
     "a_kw": [{"Conventions": ["ACDD-1.3"], "file_descriptors": {"history": "appended"}}],
     "appends": [[{"ex": 0, "mods": [["ncvar", "q3"], ["prop", "project", "research"], ["global", "project", None]]}]]},
]


# ---------------------------------------------------------------------------
# running
# ---------------------------------------------------------------------------
def run_cases(chk, cases, per_worker=6):
    """Run every case; a dead worker loses only the case it was running."""
    results = {}
    crashed = {}
    order = list(cases)
    chunks = [order[i:i + per_worker] for i in range(0, len(order), per_worker)]
    res = lib.run_workers_parallel("drive/c17.py", [{"scratch": chk.scratch, "cases": ch} for ch in chunks],
                                   timeout=1500)
    retry = []
    for ch, (rc, rows, err) in zip(chunks, res):
        done = {r["id"]: r for r in rows if "setup" in r}
        results.update(done)
        left = [c for c in ch if c["id"] not in done]
        if left:
            started = [r["id"] for r in rows if "starting" in r]
            culprit = left[0]["id"]
            crashed[culprit] = {"rc": rc, "err": err[-300:], "started": culprit in started}
            retry += left
    if retry:
        res = lib.run_workers_parallel("drive/c17.py", [{"scratch": chk.scratch, "cases": [c]} for c in retry],
                                       timeout=600)
        for c, (rc, rows, err) in zip(retry, res):
            done = [r for r in rows if "setup" in r]
            if done:
                results[c["id"]] = done[0]
                crashed.pop(c["id"], None)
            else:
                crashed[c["id"]] = {"rc": rc, "err": err[-300:], "confirmed": True}
                results[c["id"]] = {"id": c["id"], "setup": "ok", "steps": [], "crash": True}
    return results, crashed


def wanted_refusal(step):
    """The documented-unsupported decision from the request itself:
    groups (NETCDF4), or a featureType that is not the file's."""
    if step["want_groups"]:
        return "groups"
    fts = step["new_fts"]
    if fts and any(ft != step["old_ft"] for ft in fts):
        return "featureType"
    return None


def same_construct(a, b):
    def bn(c):
        x = c.get("bnd")
        return None if not x else (x["props"], x["shape"], x["tok"])
    return (a["props"], a["shape"], a["tok"], bn(a)) == (b["props"], b["shape"], b["tok"], bn(b))


def owner_shared(sk, old):
    """Does the coordinate that owns the field's formula terms equal a
    dimension coordinate that the file already holds?"""
    for r in sk.get("refs", []):
        for kind, i in r["coords"]:
            if kind != "dim":
                continue
            c = sk["dim"][i]
            if c["props"].get("standard_name") != r["sn"]:
                continue
            for o in old:
                if any(same_construct(c, d) for d in o.get("dim", [])):
                    return True
    return False


def has_domain_variable(view):
    return any("dimensions" in v["attrs"] for v in view["vars"])


def used_as_metadata(view):
    """Names that some variable refers to, and coordinate variables."""
    names = set()
    for v in view["vars"]:
        for k, x in v["attrs"].items():
            if k in REF_ATTRS or k in UNMODELLED_REF_ATTRS or k == "dimensions":
                names.update(t for t in str(x).split() if not t.endswith(":"))
        if v["dims"] == [v["name"]]:
            names.add(v["name"])
    return names


def signature(case, step, what):
    s1 = step.get("s1", [])
    if what == "new-field":
        idx = (step["oracle"].get("new_missing_idx") or [0])[0]
        sk = s1[idx] if idx < len(s1) else {}
        others = [x for i, x in enumerate(s1) if i != idx]
        if (sk.get("refs") or sk.get("dim")) and (
                (sk.get("refs") and owner_shared(sk, step["r"] + others))
                or any(o.get("refs") and owner_shared(o, [sk]) for o in others)):
            # the owning coordinate equals one of the file, or one of another field of the same request
            # (then the later field's formula_terms replace the earlier one's)
            return "new-field-differs:formula-terms-on-shared-coordinate"
        if sk.get("anc") or sk.get("refs") or "datum" in sk.get("oom", []):
            return "new-field-differs:formula-terms"
        if "compressed" in sk.get("oom", []) and any("compressed" in o.get("oom", []) for o in step["r"] + others):
            # C06's open finding reached through an append: count / index variables are shared by value
            return "new-field-differs:ragged-count-or-index-variable-shared-across-instance-dimensions"
        if "compressed" in sk.get("oom", []) or "featureType" in sk.get("props", {}):
            return "new-field-differs:featureType-or-dsg"
        sizes = [d[1] for d in step["before"]["dims"]]
        coord_axes = {c["axes"][0] for c in sk.get("dim", []) if len(c.get("axes", [])) == 1}
        if any(i in sk.get("daxes", []) and i not in coord_axes and sizes.count(a["size"]) >= 2
               for i, a in enumerate(sk.get("axes", []))):
            # C17-fix2-1: the dry run may have put a re-read field on the other dimension of that size
            return "new-field-differs:bare-axis-next-to-equal-size-dimensions"
        held = set(step["before"]["gatts"])
        if any(k in DESCRIPTION and k not in held for k in sk.get("props", {})):
            return "new-field-differs:description-property-not-held-by-file"
        if "_FillValue" in sk.get("props", {}) or "missing_value" in sk.get("props", {}):
            return "new-field-differs:fill-value"
        return "new-field-differs"
    return what


def oracle(chk, case, res, crashed, stats):
    """The property itself, on the implementation."""
    failed_steps = set()
    if res.get("crash"):
        info = crashed.get(case["id"], {})
        chk.fail("property", "append-crash",
                 f"the interpreter died while appending (rc={info.get('rc')}): {case['id']}",
                 {"input": case, "observed": info})
        stats["crash"] += 1
        return {0}
    if res["setup"] != "ok":
        stats["setup-failed"] += 1
        return failed_steps
    for step in res["steps"]:
        k = step["k"]
        out = step.get("outcome", "")
        stats["outcome:" + out.split(":")[0] + (":" + out.split(":")[1] if out.startswith("refused") else "")] += 1
        if "oracle" not in step:
            continue
        orc = step["oracle"]
        inp = {"case": case, "step": k}
        bad = []
        if "file_unreadable" in orc:
            bad.append(("file-unreadable-after-append", f"netCDF4 cannot open the file afterwards: {orc}"))
        else:
            if not orc.get("gatts_same", True):
                diff = orc.get("gatts_diff") or []
                bad.append(("global-attributes-changed",
                            "global attributes changed: " +
                            "; ".join(f"{a}: {step['before']['graw'].get(a)} -> {step['after']['graw'].get(a)}" for a in diff)))
            if orc.get("dims_lost"):
                bad.append(("old-dimension-changed", f"dimensions changed: {orc['dims_lost']}"))
            if orc.get("vars_changed"):
                bad.append(("old-variable-changed", f"variables changed: {orc['vars_changed']}"))
            if orc.get("read_after_failed"):
                bad.append(("file-unreadable-after-append", f"cfdm.read fails afterwards: {orc['read_after_failed']}"))
            if orc.get("old_missing"):
                sig = "old-field-lost"
                lost = [n for n in orc.get("old_missing_ncvars") or [] if n]
                if (lost and len(lost) == len(orc["old_missing"]) and has_domain_variable(step["before"])
                        and all(n in used_as_metadata(step["after"]) for n in lost)):
                    # a coordinate-like variable of a domain, read as a field for want of a data variable
                    # using it, is now used by an appended field
                    sig = "old-field-lost:variable-of-a-domain-read-as-field"
                elif "external_variables" in step["before"]["gatts"]:
                    sig = "old-field-lost:external-variable"
                elif (any("datum" in s.get("oom", []) for s in step["r"])
                        and any({"datum", "grid-mapping"} & set(s.get("oom", [])) for s in step["s1"])):
                    sig = "old-field-lost:vertical-datum-next-to-another-grid-mapping"
                bad.append((sig, f"fields readable before are not read (equal) afterwards: {orc['old_missing']}"))
        want = wanted_refusal(step)
        malformed = case.get("fam") == "malformed"
        spelling = step.get("mode", "a")
        if out.startswith("badmode") or spelling not in APPEND_SPELLINGS:
            # the spelling of the mode: accepted ones behave alike (that is the rest of this oracle, run for
            # 'a' and 'r+' alike), any other is rejected before the file is looked at
            if out.startswith("badmode"):
                if not step.get("sha_same"):
                    bad.append(("mode-rejected-but-file-modified", f"{out} for mode {spelling!r}: the file changed"))
                if spelling in APPEND_SPELLINGS:
                    bad.append(("accepted-mode-rejected", f"mode {spelling!r} is documented but was rejected: {step.get('message')}"))
            else:
                bad.append(("unknown-mode-accepted", f"mode {spelling!r} is not a documented spelling but the call went on: {out}"))
        elif out.startswith("refused"):
            if not step.get("sha_same"):
                bad.append(("refused-but-file-modified", f"{out}: the file changed"))
            if want is None and not malformed:
                bad.append(("refused-supported-request:" + out.split(":")[1],
                            f"{out} although the request is not documented as unsupported "
                            f"(new featureTypes {step['new_fts']}, file featureType {step['old_ft']})"))
        elif want is not None:
            bad.append(("unsupported-not-refused:" + want,
                        f"request documented as unsupported ({want}) was not refused: outcome {out}; "
                        f"file modified: {not step.get('sha_same')}"))
        elif out == "ok":
            if orc.get("new_missing"):
                bad.append((signature(case, step, "new-field"),
                            f"appended field not read back equal: {orc['new_missing']} {orc.get('why')}"))
            elif orc.get("extra_fields") and not orc.get("old_missing"):
                bad.append(("extra-fields", f"extra fields after the append: {orc['extra_fields']}"))
        elif out.startswith("raised") and not malformed:
            dom = ":domain" if (has_domain_variable(step["before"])
                                or any(x.get("oom") == ["domain"] for x in step["s1"])) else ""
            bad.append(("append-raises:" + out.split(":")[1] + dom, f"append raised {out}: {step.get('message')}"))
        for sig, what in bad:
            chk.fail("property", sig, what, {"input": inp, "observed": {"outcome": out, "oracle": orc}})
            failed_steps.add(k)
    return failed_steps


def run(chk, model_ok):
    from collections import Counter
    rng = chk.rng
    thorough = chk.tier == "thorough"
    n_syn = 1500 if thorough else 130
    cases = list(CORPUS)
    fams = ["share"] * 5 + ["indep"] * 2 + ["seq"] * 3
    for i in range(n_syn):
        fam = fams[i % len(fams)]
        cases.append(gen_syn_case(rng, f"s{i}", fam))
    for i in range(400 if thorough else 40):
        cases.append(gen_refusal_case(rng, f"r{i}"))
    cases += gen_example_cases(rng, 120 if thorough else 22, thorough)
    cases += gen_malformed(rng, 54 if thorough else 18)
    for c in cases:
        if c["fam"] not in ("corpus", "malformed") and "a_mode" not in c:
            spell_modes(rng, c)
    cases += gen_domain_cases(rng, 60 if thorough else 15)
    cases += gen_external_cases(rng, 24 if thorough else 8)
    cases += gen_dsg_cases(rng, 32 if thorough else 8)
    for c in cases:
        if "fmt_append" in c:
            c["fmt"] = "NETCDF4"

    results, crashed = run_cases(chk, cases, per_worker=8 if thorough else 6)
    stats = Counter()
    lits, lit_src, ref_lits, ref_src, cre_lits, cre_src, cov_lits = [], [], [], [], [], [], []
    nontrivial = set()
    shared_stats = Counter()
    samples = []
    for case in cases:
        res = results.get(case["id"])
        if res is None:
            chk.fail("correspondence", "worker-crash", f"no result for case {case['id']}",
                     {"correspondence": "drive/c17.py", "input": case})
            continue
        stats["fam:" + case["fam"]] += 1
        failed = oracle(chk, case, res, crashed, stats)
        if res.get("created") and "s0" in res and case.get("fmt", "NETCDF4") == "NETCDF4":
            # the write that made the file: the other side of the guard in _write_global_attributes
            pseudo = {"r": [], "s1": res["s0"], "before": res["created"], "after": res["created"],
                      "opts": res.get("w_opts")}
            if not in_model(pseudo):
                cre_lits.append(f"({g_opts(res.get('w_opts'))}, {glist(res['s0'], g_field)}, {g_file(res['created'])})")
                cre_src.append(case)
        for step in res.get("steps", []):
            if "after" not in step or step.get("after") is None or "r" not in step:
                continue
            oc = {"ok": 0}.get(step["outcome"], 1 if step["outcome"].startswith("refused") else
                               3 if step["outcome"].startswith("badmode") else 2)
            stats["mode:" + step.get("mode", "a")] += 1
            why = in_model(step)
            nc4 = case.get("fmt", "NETCDF4") == "NETCDF4"
            if step["s1"] and all("axes" in s for s in step["r"] + step["s1"]):
                # the refusal decision is compared for every request
                try:
                    ref_lits.append(f"({gbool(nc4)}, {glist(step['r'], g_field_light)}, "
                                    f"{glist(step['s1'], g_field_light)}, {gbool(oc == 1)})")
                    ref_src.append((case, step["k"]))
                except AssertionError:
                    pass
            for w in why:
                stats["outside-model:" + w] += 1
            if why:
                stats["steps-outside-model"] += 1
                continue
            stats["steps-in-model"] += 1
            lits.append(f"({gstr(step.get('mode', 'a'))}, {gbool(nc4)}, {g_opts(step.get('opts'))}, {g_file(step['before'])}, {glist(step['r'], g_field)}, "
                        f"{glist(step['s1'], g_field)}, {g_file(step['after'])}, {gnat(oc)})")
            lit_src.append((case, step["k"], step["k"] in failed))
            cov_lits.append(f"({g_file(step['before'])}, {glist(step['r'], g_field)})")
            # what makes the step non-trivial: something of the old file is shared or a name collided
            old_names = {v["name"] for v in step["before"]["vars"]}
            newvars = [v for v in step["after"]["vars"] if v["name"] not in old_names]
            refs_old = any(set(v["dims"]) & {d[0] for d in step["before"]["dims"]} for v in newvars)
            renamed = any(v["name"].rsplit("_", 1)[-1].isdigit() for v in newvars)
            if refs_old:
                shared_stats["new variable on an old dimension"] += 1
            if renamed:
                shared_stats["name collision resolved"] += 1
            if refs_old or renamed or oc != 0:
                nontrivial.add(lib.canon([step["r"], step["s1"]]))
            if len(samples) < 3 and refs_old:
                samples.append({"id": case["id"], "new_variables": [v["name"] for v in newvars],
                                "outcome": step["outcome"]})

    ncorr = 0
    if model_ok:
        bad = lib.coq_bad_indices("C17", REQ, "check_case", lits, chunk=60)
        ncorr = len(lits)
        for i in bad[:40]:
            case, k, explained = lit_src[i]
            if explained:
                continue
            chk.fail("correspondence", "model-vs-impl",
                     "model and implementation disagree on the outcome / the file after an append",
                     {"correspondence": "C17.Run.check_case", "input": {"case": case, "step": k},
                      "observed": results[case["id"]]["steps"][k].get("after")})
        # the hypothesis of C17_old_fields on the real re-read, and the model's reader against cfdm.read
        for entry, sig, what in (
                ("check_covers", "model-vs-impl:reread-does-not-cover-file",
                 "the dry run over what cfdm.read returned does not register every name of the file "
                 "(hypothesis of C17_old_fields not met)"),
                ("check_reader", "model-vs-impl:reader",
                 "the data variables of the file (model reader) are not the variables of the fields cfdm.read returns")):
            bad = lib.coq_bad_indices("C17", REQ, entry, cov_lits, chunk=100)
            ncorr += len(cov_lits)
            stats[entry + "-holds"] = len(cov_lits) - len(bad)
            for i in bad[:40]:
                case, k, explained = lit_src[i]
                chk.fail("correspondence", sig, what,
                         {"correspondence": "C17.Run." + entry, "input": {"case": case, "step": k},
                          "observed": results[case["id"]]["steps"][k].get("before")})
        stats["reader-check-waived:data-variable-with-bounds"] = len(
            lib.coq_bad_indices("C17", REQ, "reader_waived", cov_lits, chunk=100))
        bad = lib.coq_bad_indices("C17", REQ, "check_created", cre_lits, chunk=60)
        ncorr += len(cre_lits)
        stats["created-files-in-model"] = len(cre_lits)
        for i in bad[:40]:
            case = cre_src[i]
            chk.fail("correspondence", "model-vs-impl:created-file",
                     "model and implementation disagree on the file written with mode 'w' (global attributes included)",
                     {"correspondence": "C17.Run.check_created", "input": {"case": case, "step": -1},
                      "observed": results[case["id"]].get("created")})
        bad = lib.coq_bad_indices("C17", REQ, "check_refusal", ref_lits, chunk=200)
        ncorr += len(ref_lits)
        for i in bad[:40]:
            case, k = ref_src[i]
            step = results[case["id"]]["steps"][k]
            if step["outcome"].startswith("raised"):
                continue
            chk.fail("correspondence", "model-vs-impl:refusal",
                     "model and implementation disagree on whether the request is refused",
                     {"correspondence": "C17.Run.check_refusal", "input": {"case": case, "step": k},
                      "observed": step["outcome"]})

    nsteps = sum(len(r.get("steps", [])) for r in results.values())
    chk.coverage.update({
        "evaluations": nsteps,
        "distinct_nontrivial": len(nontrivial),
        "rule": "an append step is an evaluation; it is non-trivial when, inside the modelled fragment, a new "
                "variable uses a dimension that was already in the file, or a requested netCDF name collided and was "
                "renamed, or the request was refused / failed; distinct = distinct canonical (re-read skeletons, "
                "appended skeletons)",
        "samples": samples,
        "traces_validated_against_impl": ncorr,
        "disagreements_checked": ncorr,
        "scenarios": len(cases),
        "counters": dict(sorted(stats.items())),
        "sharing": dict(shared_stats),
        "crashed_cases": sorted(crashed),
        "exhaustive": False,
        "historical_refutations": "C17/Refuted.v: witnesses against the append branch as it was at the pinned commit "
                                  "(F17a formula_terms, F17c featureType decision, F17d description-of-file-contents properties)",
    })
    chk.assumptions += [
        "Model.v covers fields without groups, compression, geometries, cell methods, field ancillaries, grid "
        "mappings or datums; other requests (example fields 1-7) are judged by the property oracle only",
        "data are opaque: equality of arrays is decided by the harness (shape, values, mask); numeric tolerance of "
        "cfdm.equals is not modelled (generated values differ by at least 1e-2)",
        "the fields re-read from the file before each append are an input of the model (cfdm.read is not modelled; "
        "C01 covers it); C17_old_fields is about the model's own reader (data_vars / view) under the hypothesis "
        "`covers` on (file, re-read), which is evaluated for every in-model step (Run.check_covers), and the "
        "model's choice of data variables is compared with the fields cfdm.read returns (Run.check_reader)",
        "the file that exists before the appends is written with mode 'w' by the same model (Run.check_created: "
        "whole file incl. global attributes), so both sides of the guard in _write_global_attributes are exercised",
        "a domain ancillary is never generated with the same properties, shape and data as a whole field "
        "(construct.equals(field, ignore_type=True) raises AttributeError in any write mode)",
        "netCDF-C / HDF5 behaviour (creating a dimension or variable whose name exists is an error) is modelled by "
        "its documented semantics",
    ]


def g_field_light(s):
    """Only what the refusal decision reads."""
    t = {"ncvar": None, "props": {k: v for k, v in s["props"].items() if k == "featureType"}, "gl": s["gl"],
         "groups": s["groups"], "axes": [], "daxes": [], "tok": 0, "dim": [], "aux": [], "anc": [], "msr": [],
         "refs": []}
    return g_field(t)


def replay(chk, path):
    d = json.load(open(path))
    cases = []
    for x in d.get("cases", []):
        c = (x.get("input") or {}).get("case") or x.get("input")
        if isinstance(c, dict) and "s0" in c and c not in cases:
            cases.append(c)
    from collections import Counter
    results, crashed = run_cases(chk, cases, per_worker=1)
    n0 = len(chk.failures)
    stats = Counter()
    for c in cases:
        before = len(chk.failures)
        oracle(chk, c, results[c["id"]], crashed, stats)
        ok = len(chk.failures) == before
        print(("ok   " if ok else "FAIL ") + c["id"],
              [s.get("outcome") for s in results[c["id"]].get("steps", [])],
              [f.signature for f in chk.failures[before:]])
    return 1 if len(chk.failures) > n0 else 0
