"""C04 - copies are independent; operations that are not in-place are pure
(DESIGN.md section 4, C04).

Three parts:
 (1) reflection sweep = the property oracle on the implementation: every public
     method / property / special operation of every instantiable public class,
     arguments from a per-signature table, applied to x = source.copy() while
     y = x.copy() and the source are watched with a fingerprint that never
     calls equals(); whatever the call returns is then mutated as hard as the
     public API allows.  Methods offering `inplace` are also run through the
     in-place protocol check.
 (2) correspondence of the copy recipes: the object graph of x and of
     x.copy() (cells by identity) against Model.copy evaluated in Coq.
 (3) correspondence of the in-place protocol: what the decorated methods
     showed (placeholder, outcome, receiver, result) against Model.call.
"""
import collections
import json

import lib
from lib import gstr, gnat, gz, gbool

REQ = "From CfdmV Require Import Common.Base C04.Model C04.Run.\nOpen Scope string_scope."
MODEL_FILES = ["Model", "Run"]

# instances per class in the reflection sweep
QUOTA = {"quick": {"Field": 3, "Data": 4, "Domain": 2, "Constructs": 2, "*": 1},
         "thorough": {"Field": 21, "Data": 60, "Domain": 12, "Constructs": 12, "*": 16}}
# labels that are always included (minimised past failures / structurally special)
ALWAYS = ["g0", "m1", "field.template", "f7", "f1.constructs.filtered", "f0.constructs.filtered2", "f0.constructs.inverse",
          "f6.auxiliarycoordinate0", "data.masked", "array.numpy.masked", "f3c.data", "f1.coordinatereference1",
          "f1.dimensioncoordinate0", "cellmethod.new", "file-netCDF4-0.data"]
# file-backed fields re-read every variable for each fingerprint: swept in the thorough tier only
SLOW = ("file-netCDF4-0", "file-netCDF4-1", "file-h5netcdf-0", "file-h5netcdf-1")


def g_obj(t):
    if "i" in t:
        return f"(Imm {gstr(t['i'])})"
    if "b" in t:
        return f"(Buf {gnat(t['b'])} {gz(t['c'])})"
    kids = "; ".join(f"({gstr(k)}, {g_obj(c)})" for k, c in t["k"])
    return f"(Node {gnat(t['n'])} {gstr(t['cls'])} [{kids}])"


def tree_size(t):
    return 1 + sum(tree_size(c) for _, c in t.get("k", []))


def has_ignored_types(t):
    """A Constructs cell whose _ignore is non-empty (a Domain view of a field):
    its copy drops the ignored construct types - outside the model."""
    if "k" not in t:
        return False
    if t.get("cls") == "Constructs":
        for k, c in t["k"]:
            if k == "_ignore" and c.get("i") not in ("tuple:[]", None):
                return True
    return any(has_ignored_types(c) for _, c in t["k"])


def choose_labels(chk, labels):
    quota = QUOTA[chk.tier]
    by_cls = collections.defaultdict(list)
    for l, c in labels:
        by_cls[c].append(l)
    chosen = [l for l in ALWAYS if any(l == x for x, _ in labels)]
    for c in sorted(by_cls):
        ls = sorted(by_cls[c])
        chk.rng.shuffle(ls)
        q = quota.get(c, quota["*"])
        have = sum(1 for l in chosen if l in by_cls[c])
        for l in ls:
            if have >= q:
                break
            if (chk.tier == "quick" or l != "file-netCDF4-1") and (l in SLOW or any(l == s + x for s in SLOW for x in (".domain", ".constructs",
                                                                                          ".constructs.filtered"))):
                continue
            if l not in chosen:
                chosen.append(l)
                have += 1
    return chosen


def where(diff):
    """The part of the state that changed: first component of the first differing path."""
    if not diff:
        return "?"
    p = diff[0].split(":")[0].strip("/$.")
    if p.startswith("["):
        return p.split("]")[0][:39] + "]"
    for sep in ("/", "["):
        p = p.split(sep)[0] if p.split(sep)[0] else p
    return p[:40] or "?"


def classify(row):
    """Stable signature of a failing sweep row."""
    m = row.get("m", "?")
    if row.get("copy_raises"):
        if "must have 1-dimensional data" in row["copy_raises"]:
            return f"dimension-coordinate-not-1d-after:{m}"
        return f"uncopyable-after:{m}"
    if row.get("dir") == "P":
        if row.get("placeholder_receiver") or row.get("placeholder_inplace") or row.get("placeholder_result"):
            return "inplace-placeholder-survives"
        if row.get("changed"):
            if any("INPLACE_ENABLED_PLACEHOLDER" in d for d in row.get("diff", [])):
                return "inplace-placeholder-survives"
            return f"not-inplace-changes-receiver:{m}"
        if row.get("result_differs"):
            return f"not-inplace-result-differs:{m}"
        if row.get("result_is_receiver"):
            return f"not-inplace-returns-receiver:{m}"
        if row.get("inplace_returns_none") is False:
            return f"inplace-returns-value:{m}"
        if row.get("outcome_mismatch"):
            return f"inplace-outcome-mismatch:{m}"
    if row.get("pool_changed"):
        return f"source-changed-by-operation-on-copy:{row.get('pool_changed')}:{where(row.get('pool_diff'))}"
    if row.get("changed"):
        return f"copy-changed-by-operation-on-source:{row.get('changed')}:{where(row.get('diff'))}"
    if row.get("copyfid"):
        return f"copy-not-faithful:{row.get('cls')}"
    return f"other:{m}"


def describe(r):
    if r.get("copy_raises"):
        return "copy() of the " + r["copy_raises"]
    if r.get("outcome_mismatch"):
        return (f"inplace=False: {r.get('outcome')} ({r.get('msg', '')[:120]}); "
                f"inplace=True on a copy: {r.get('outcome_inplace')}")
    if r.get("placeholder_receiver") or r.get("placeholder_inplace") or r.get("placeholder_result"):
        return "placeholder left behind"
    if r.get("result_is_receiver"):
        return "inplace=False returned the receiver itself"
    if r.get("inplace_returns_none") is False:
        return "inplace=True returned a value"
    return "see observed"


def is_bad(row):
    if "skip" in row:
        return False
    if row.get("dir") == "P":
        return bool(row.get("changed") or row.get("pool_changed") or row.get("result_differs")
                    or row.get("placeholder_receiver") or row.get("placeholder_inplace")
                    or row.get("placeholder_result") or row.get("outcome_mismatch") or row.get("copy_raises")
                    or row.get("result_is_receiver") or row.get("inplace_returns_none") is False)
    if "copyfid" in row:
        return bool(row.get("copyfid")) or row.get("stable") is False
    return bool(row.get("changed") or row.get("pool_changed") or row.get("copy_of_copy_differs") or row.get("copy_raises"))


def run(chk, model_ok):
    thorough = chk.tier == "thorough"
    # ---- inventory by reflection -----------------------------------------------------------
    rc, out, err = lib.run_worker("drive/c04.py", {"mode": "list", "scratch": chk.scratch})
    if rc != 0 or not out:
        chk.fail("correspondence", "worker-crash", f"C04 inventory worker failed rc={rc}: {err[-600:]}",
                 {"correspondence": "drive/c04.py list"})
        return
    inv = out[-1]
    labels = inv["labels"]
    chosen = choose_labels(chk, labels)
    cls_of = dict(labels)

    # ---- (1) reflection sweep ------------------------------------------------------------------
    nw = 16
    # spread big classes over the workers
    def cost(l):
        w = 6 if cls_of[l] in ("Field", "Domain", "Constructs") else 1
        if l.startswith("file-"):
            w *= 4
        return w * len(inv["inventory"].get(cls_of[l], []))
    order = sorted(chosen, key=lambda l: (-cost(l), l))
    shards = [[] for _ in range(nw)]
    load = [0] * nw
    for l in order:                     # longest-processing-time-first balancing
        k = load.index(min(load))
        shards[k].append(l)
        load[k] += cost(l)
    shards = [s for s in shards if s]
    res = lib.run_workers_parallel(
        "drive/c04.py",
        [{"mode": "sweep", "scratch": chk.scratch, "labels": sh, "variants": [0, 1]} for sh in shards],
        timeout=3000 if thorough else 900)
    rows = []
    for w, (rc, out, err) in enumerate(res):
        if rc != 0:
            chk.fail("correspondence", "worker-crash",
                     f"C04 sweep worker {w} (labels {shards[w][:3]}...) ended rc={rc}: {err[-400:]}",
                     {"correspondence": "drive/c04.py sweep"})
        rows.extend(out)

    cases = [r for r in rows if "dir" in r and "skip" not in r and "harness_error" not in r]
    skipped = [r for r in rows if "skip" in r]
    for r in rows:
        if "harness_error" in r or "fp_error" in r:
            chk.fail("correspondence", "harness-error", f"sweep case could not be evaluated: {json.dumps(r)[:400]}",
                     {"correspondence": "drive/c04.py sweep", "input": r})
    nbad = 0
    for r in rows:
        if is_bad(r):
            nbad += 1
            sig = classify(r)
            what = (f"{r.get('cls')}.{r.get('m')} on {r.get('label')} (variant {r.get('v')}, {r.get('dir', 'copy')}): "
                    + "; ".join((r.get("diff") or r.get("pool_diff") or r.get("result_diff")
                                 or r.get("copy_of_copy_differs") or [describe(r)])[:3]))
            chk.fail("property", sig, what[:500],
                     {"input": {"label": r.get("label"), "m": r.get("m"), "kind": r.get("kind"), "v": r.get("v"),
                                "dir": r.get("dir")},
                      "expected": "fingerprint unchanged / result equal to the in-place form on a copy",
                      "observed": {k: v for k, v in r.items() if k not in ("kw",)}})

    # ---- (2) copy recipes against the model --------------------------------------------------------
    glabels = sorted(set(chosen) | set(l for l, c in labels if chk.rng.random() < (0.6 if thorough else 0.15)))
    gsh = [glabels[i::8] for i in range(8)]
    gres = lib.run_workers_parallel(
        "drive/c04.py", [{"mode": "graph", "scratch": chk.scratch, "labels": sh, "how": ["copy", "deepcopy"],
                          "set_data": True} for sh in gsh if sh], timeout=900)
    graphs = []
    for rc, out, err in gres:
        if rc != 0:
            chk.fail("correspondence", "worker-crash", f"C04 graph worker ended rc={rc}: {err[-400:]}",
                     {"correspondence": "drive/c04.py graph"})
        graphs.extend(out)
    outside = 0
    lits, meta = [], []
    sd_lits, sd_meta = [], []
    overlap = 0
    for g in graphs:
        if "graph_error" in g:
            chk.fail("correspondence", "harness-error", f"graph extraction failed: {g}",
                     {"correspondence": "drive/c04.py graph", "input": g})
            continue
        if has_ignored_types(g["x"]) or tree_size(g["x"]) > 4000:
            outside += 1
            continue
        if g["how"] == "set_data":
            sd_lits.append(f"({gnat(g['n'])}, {g_obj(g['x'])}, Imm \"d\", {g_obj(g['y'])})")
            sd_meta.append(g)
            continue
        if g.get("fresh_buffers_overlapping_source"):
            overlap += 1
            chk.fail("property", "copy-buffer-overlaps-source",
                     f"{g['label']}: a new numpy array of the {g['how']} overlaps memory of the source",
                     {"input": {"label": g["label"], "how": g["how"]}})
        lits.append(f"({gnat(g['n'])}, {g_obj(g['x'])}, {g_obj(g['y'])})")
        meta.append(g)
    ncorr = 0
    bad_labels = {r.get("label") for r in rows if is_bad(r)}
    if model_ok and lits:
        bad = lib.coq_bad_indices("C04", REQ, "check_case", lits, chunk=40)
        ncorr += len(lits)
        for i in bad[:40]:
            g = meta[i]
            chk.fail("correspondence", "model-vs-impl",
                     f"the sharing pattern of {g['how']}({g['label']} : {g['cls']}) differs from Model.copy",
                     {"correspondence": "C04.Run.check_case", "input": {"label": g["label"], "how": g["how"]},
                      "observed": json.dumps(g["y"])[:1500]})
    # second pass: the write paths of Model.inplace_table are owned in the real object graphs
    # (hypothesis `paths_owned` of C04_not_inplace_table)
    path_lits, path_meta = [], []
    inplace_all = inv.get("inplace_methods_all", {})
    for g in meta:
        if g["how"] != "copy" or g["cls"] not in inplace_all:
            continue
        row = ("Data" if g["cls"] == "Data" else "Field" if g["cls"] == "Field"
               else "PropertiesDataBounds" if g["cls"] in ("DimensionCoordinate", "AuxiliaryCoordinate", "DomainAncillary")
               else "PropertiesData")
        if g["cls"] == "Domain":
            continue
        path_lits.append(f"({gstr(row)}, {g_obj(g['x'])})")
        path_meta.append(g)
    if model_ok and path_lits:
        bad = lib.coq_bad_indices("C04", REQ, "check_paths", path_lits, chunk=40)
        ncorr += len(path_lits)
        for i in bad[:40]:
            g = path_meta[i]
            chk.fail("correspondence", "model-vs-impl",
                     f"a write path of Model.inplace_table is not owned by the copy of {g['label']} : {g['cls']}",
                     {"correspondence": "C04.Run.check_paths", "input": {"label": g["label"]}})
    if model_ok and sd_lits:
        bad = lib.coq_bad_indices("C04", REQ, "check_set_data", sd_lits, chunk=40)
        ncorr += len(sd_lits)
        for i in bad[:40]:
            g = sd_meta[i]
            if any(r.get("m") == "set_data" and is_bad(r) for r in rows):
                continue  # explained by the property oracle
            chk.fail("correspondence", "model-vs-impl",
                     f"set_data(inplace=False) on {g['label']} : {g['cls']} is not 'copy, then set' (Model.set_data_new)",
                     {"correspondence": "C04.Run.check_set_data", "input": {"label": g["label"]},
                      "observed": json.dumps(g["y"])[:1500]})

    # ---- (3) the in-place protocol against the model -------------------------------------------------
    plits, pmeta = [], []
    for r in rows:
        if r.get("dir") != "P" or "skip" in r or "outcome" not in r:
            continue
        early = r.get("v") == 2
        raised = r["outcome"] != "ok"
        # not in place
        plits.append(f"({gbool(early)}, false, {gbool(raised and not early)}, "
                     f"({gbool(bool(r.get('placeholder_receiver')))}, {gbool(raised)}, "
                     f"{gbool(bool(r.get('changed')))}, {gbool(bool(r.get('result_none')))}))")
        pmeta.append(r)
        if "outcome_inplace" in r:
            raised2 = r["outcome_inplace"] != "ok"
            plits.append(f"({gbool(early)}, true, {gbool(raised2 and not early)}, "
                         f"({gbool(bool(r.get('placeholder_inplace')))}, {gbool(raised2)}, false, "
                         f"{gbool(r.get('inplace_returns_none', True))}))")
            pmeta.append(r)
    if model_ok and plits:
        bad = lib.coq_bad_indices("C04", REQ, "check_protocol", plits, chunk=400)
        ncorr += len(plits)
        for i in bad[:40]:
            r = pmeta[i]
            if is_bad(r):
                continue  # the property oracle already reported this case
            chk.fail("correspondence", "model-vs-impl",
                     f"in-place protocol trace of {r.get('cls')}.{r.get('m')} differs from Model.call",
                     {"correspondence": "C04.Run.check_protocol", "input": r})

    # ---- coverage ----------------------------------------------------------------------------------------
    per_cls = collections.Counter(cls_of[l] for l in chosen)
    ops_run = collections.Counter()
    outcomes = collections.Counter()
    kinds = collections.Counter()
    for r in cases:
        ops_run[(r.get("cls"), r.get("m"))] += 1
        outcomes[r.get("outcome", "?")] += 1
        kinds[r.get("kind", "?") + ":" + r.get("dir", "?")] += 1
    skip_list = sorted({f"{r.get('cls')}.{r.get('m')}: {r['skip']}" for r in skipped})
    inplace_methods = sorted({f"{r.get('cls')}.{r.get('m')}" for r in rows if r.get("dir") == "P"})
    all_inplace = sorted(f"{c}.{m}" for c, ms in inplace_all.items() for m in ms)
    prows = [r for r in rows if r.get("dir") == "P" and "skip" not in r and "outcome" in r]
    effective = sorted({f"{r.get('cls')}.{r.get('m')}" for r in prows if r.get("effect")})
    raising = sorted({f"{r.get('cls')}.{r.get('m')}" for r in prows if r.get("outcome") != "ok" and r.get("v") != 2})
    scribbled = sum(1 for r in cases if r.get("scribbles", 0) > 0)
    distinct = {lib.canon([r.get("label"), r.get("kind"), r.get("m"), r.get("v"), r.get("dir")])
                for r in cases if r.get("outcome") == "ok" or r.get("dir") == "P"}
    not_instantiated = sorted(set(inv["public_classes"]) - {c for _, c in labels})
    chk.coverage.update({
        "evaluations": len(cases) + len(lits) + len(sd_lits),
        "distinct_nontrivial": len(distinct),
        "rule": "a sweep case = (instance, operation, argument variant); it is non-trivial when the operation "
                "completed without raising on the operated object (so it really ran) or is an in-place protocol case; "
                "distinct = distinct (instance label, kind, method, variant, direction). Each case watches BOTH the source "
                "of the operated object and a copy of it (two fingerprints per case: public accessors and raw private state "
                "with checksummed numpy buffers).",
        "samples": [{k: v for k, v in r.items() if k in ("label", "cls", "m", "v", "dir", "kw", "outcome", "scribbles")}
                    for r in (cases[:1] + cases[len(cases) // 2:len(cases) // 2 + 1] + cases[-1:])],
        "traces_validated_against_impl": ncorr,
        "disagreements_checked": ncorr,
        "instances_in_pool": len(labels),
        "instances_swept": len(chosen),
        "instances_swept_per_class": dict(per_cls),
        "public_classes": len(inv["public_classes"]),
        "public_classes_with_instances": len({c for _, c in labels}),
        "public_classes_not_instantiated": not_instantiated,
        "operations_by_reflection": {c: len(v) for c, v in inv["inventory"].items()},
        "distinct_class_method_pairs_run": len(ops_run),
        "case_kinds": dict(kinds),
        "outcomes": dict(outcomes.most_common(12)),
        "cases_where_returned_value_was_mutated": scribbled,
        "methods_with_inplace_found": inplace_methods,
        "inplace_protocol_cases": sum(1 for r in cases if r.get("dir") == "P"),
        "inplace_methods_by_reflection_all_public_classes": len(all_inplace),
        "inplace_methods_not_run": sorted(set(all_inplace) - set(inplace_methods)),
        "inplace_methods_with_an_effective_not_inplace_case": len(effective),
        "inplace_methods_run_but_never_effective": sorted(set(inplace_methods) - set(effective)),
        "inplace_methods_with_a_raising_body_case": len(raising),
        "inplace_cases_by_variant": dict(collections.Counter(str(r.get("v")) for r in prows)),
        "inplace_cases_with_effect": sum(1 for r in prows if r.get("effect")),
        "inplace_table_path_checks_vs_model": len(path_lits),
        "inplace_protocol_traces_vs_model": len(plits),
        "skipped_count": len(skip_list),
        "skipped": skip_list[:120],
        "copy_graphs_vs_model": len(lits),
        "set_data_graphs_vs_model": len(sd_lits),
        "copy_graphs_outside_model": outside,
        "graph_cells_compared": sum(tree_size(g["y"]) for g in meta),
        "fresh_buffers_overlapping_source": overlap,
        "failing_rows": nbad,
        "exhaustive": False,
        "hypothesis_checked_per_run": "C04_inplace_protocol assumes `body_owns` (the body of a decorated method writes only cells of the "
                                      "object returned by _inplace_enabled_define_and_cleanup) and the frame theorems assume writes go to "
                                      "non-shared cells (no in-place write into a numpy buffer held by a NumpyArray, no mutation of a value "
                                      "stored in 'custom'): that every public method body respects this is NOT proved - it is exactly what "
                                      "this reflection sweep tests on the implementation, on every run",
        "historical_refutations": "C04/Refuted.v: the decorator at the pinned commit leaves the placeholder behind when the call fails "
                                  "before the clean-up (F04a); set_data(inplace=False) stripped the data of bounds and of every metadata "
                                  "construct (F04b)",
    })
    chk.assumptions += [
        "fingerprint = every zero-argument public getter (get_*/has_*/is_*/nc_*, properties, identities, parameters, ...), data values "
        "+ mask + dtype + shape, construct keys/types/axes, recursively - plus a walk over the private state with raw buffer checksums; "
        "cfdm's equals() is never called by the oracle",
        "functools.cached_property entries are treated as caches, not state",
        "private state of a Domain view that ignores construct types (field.domain) may legitimately differ from its copy's; only "
        "public differences are reported for copy fidelity",
        "values stored in the 'custom' dictionary are shared by design (documented in Container); the sweep does not store mutable "
        "values there",
        "Subarray helper classes, SubsampledArray/TiePointIndex/InterpolationParameter, SparseArray and the UGRID array classes are "
        "not instantiated by the pool (listed in coverage.public_classes_not_instantiated)",
        "methods whose required arguments cannot be synthesised are skipped and listed (coverage.skipped)",
    ]


def replay(chk, path):
    d = json.load(open(path))
    bad = 0
    for c in d.get("cases", []):
        inp = c.get("input") or {}
        if "label" not in inp:
            continue
        if "m" in inp:
            rc, out, err = lib.run_worker("drive/c04.py", {"mode": "sweep", "scratch": chk.scratch,
                                                           "labels": [inp["label"]], "only": [inp["m"]],
                                                           "variants": [0, 1]})
            rows = [r for r in out if is_bad(r)]
            for r in rows:
                print("FAIL", classify(r), json.dumps({k: v for k, v in r.items() if k != "kw"})[:400])
            if not rows:
                print("ok  ", inp)
            bad += len(rows)
    return 1 if bad else 0
