"""C05 - equality testing is total, reflexive, order-blind and discriminating
(DESIGN.md section 4, C05).

Abstract descriptions (JSON) of constructs are generated here; from each one
the driver builds the cfdm object through the public API and this module
prints the Gallina literal for the model (coq/theories/C05/Model.v).

  arr   {"shape": [..], "dt": "i1|i2|i4|i8|f4|f8|U", "vals": [int|None, ..], "ma": bool}
  pval  {"s": str} | arr (+ "py": true for a Python scalar)
  data  {"arr": arr, "fill": int|None, "units": str|None, "cal": str|None,
         "comp": None | {"carr": arr, "counts": [..]}}
  pd    {"props": [[name, pval]..], "data": data|None, "ext": bool, "ncvar": str|None}
  cons  {"cls": dim|aux|domanc|meas|fanc|dtop|cconn, "pd": pd, "geom", "bounds": pd|None,
         "iring": pd|None, "meas": str|None}
  cm    {"axes": [str], "method": str|None, "quals": [[k, v]], "intervals": [data]}
  cr    {"coords": [key], "cparams": [[term, pval|None]], "cdas": [[term, key|None]], "dparams": [...]}
  field {"isfield", "props", "data", "daxes", "axes": [[key, size]], "cons": [[key, [axes], cons]],
         "cms": [[key, cm]], "crs": [[key, cr]]}
  top   {"k": cons|bounds|axis|cm|cr|data|field|py, "v": ...}
"""
import copy
import json
from fractions import Fraction

import lib
from lib import gz, gstr, gbool, gopt, glist

REQ = "From CfdmV Require Import Common.Base C05.Model C05.Run.\nOpen Scope Z_scope."
DT_TAG = {"i1": 1, "i2": 2, "i4": 3, "i8": 4, "f4": 5, "f8": 6}
EXC_CODE = {"TypeError": -1, "ValueError": -2, "KeyError": -3, "IndexError": -4}
FILL_NAMES = ("_FillValue", "missing_value")


def code_str(k):  # the same function as in drive/c05.py
    return ("a%d" % k) if 0 <= k < 10 else ("b" + chr(97 + (k - 10) % 26)) if k < 50 else ("long%03d" % k)


def tag(a):
    if a["dt"] != "U":
        return DT_TAG[a["dt"]]
    w = a.get("w") or max([len(code_str(0 if v is None else v)) for v in a["vals"]] or [2])
    return 100 + w


# "fine" cases hold float64 values v + t * 2**-60 (differences far below the default tolerances).
# The model computes with integers, so for such a case EVERY number of both operands and the
# absolute tolerance are printed multiplied by 2**60 (the comparison |x-y| <= atol + rtol*|y| is
# invariant under that scaling).
FINE = 2 ** 60
_S = [1]


def g_val(v, t=0):
    return gopt(None if v is None else v * _S[0] + t, gz)


# ---- Gallina printers ---------------------------------------------------------
def g_ostr(s):
    return gopt(s, gstr)


def g_arr(a):
    ticks = a.get("ticks") or [0] * len(a["vals"])
    if a["dt"] == "U":
        vals = "[" + "; ".join(gopt(v, gz) for v in a["vals"]) + "]"
    else:
        vals = "[" + "; ".join(g_val(v, t) for v, t in zip(a["vals"], ticks)) + "]"
    return f"(mkA {glist(a['shape'], gz)} {gbool(a['dt'] == 'U')} {gz(tag(a))} {vals})"


EMPTY_ARR = "(mkA [] false 0%Z [])"


def g_pval(p):
    if "s" in p:
        return f"(PStr {gstr(p['s'])})"
    return f"(PArr {g_arr(p)})"


def g_opval(p):
    return "None" if p is None else f"(Some {g_pval(p)})"


def g_data(d):
    if d.get("comp"):
        ct, ca = gstr("ragged contiguous"), g_arr(d["comp"]["carr"])
    else:
        ct, ca = gstr(""), EMPTY_ARR
    return (f"(mkD {g_arr(d['arr'])} {g_val(d.get('fill'))} {g_ostr(d.get('units'))} "
            f"{g_ostr(d.get('cal'))} {ct} {ca})")


def g_props(ps):
    return glist(ps, lambda kv: f"({gstr(kv[0])}, {g_pval(kv[1])})")


def g_pd(p):
    return (f"(mkP {g_props(p['props'])} {gopt(p.get('data'), g_data)} {gbool(p.get('ext', False))} "
            f"{g_ostr(p.get('ncvar'))})")


GCLS = {"dim": "CDim", "aux": "CAux", "domanc": "CDomAnc", "meas": "CMeas", "fanc": "CFAnc",
        "dtop": "CDTop", "cconn": "CCConn"}


def g_cons(c):
    return (f"(mkC {GCLS[c['cls']]} {g_pd(c['pd'])} {g_ostr(c.get('geom'))} {gopt(c.get('bounds'), g_pd)} "
            f"{gopt(c.get('iring'), g_pd)} {g_ostr(c.get('meas'))})")


def g_cm(c):
    return (f"(mkM {glist(c['axes'], gstr)} {g_ostr(c.get('method'))} "
            f"{glist(c['quals'], lambda kv: f'({gstr(kv[0])}, {gstr(kv[1])})')} {glist(c['intervals'], g_data)})")


def g_cr(r):
    return (f"(mkR {glist(r['coords'], gstr)} {glist(r['cparams'], lambda kv: f'({gstr(kv[0])}, {g_opval(kv[1])})')} "
            f"{glist(r['cdas'], lambda kv: f'({gstr(kv[0])}, {g_ostr(kv[1])})')} "
            f"{glist(r['dparams'], lambda kv: f'({gstr(kv[0])}, {g_opval(kv[1])})')})")


def g_field(f):
    return (f"(mkF {gbool(f['isfield'])} {g_props(f['props'])} {gopt(f.get('data'), g_data)} "
            f"{gopt(f.get('daxes') if f.get('data') is not None else None, lambda l: glist(l, gstr))} "
            f"{glist(f['axes'], lambda kv: f'({gstr(kv[0])}, {gopt(kv[1], gz)})')} "
            f"{glist(f['cons'], lambda t: f'({gstr(t[0])}, ({glist(t[1], gstr)}, {g_cons(t[2])}))')} "
            f"{glist(f['cms'], lambda kv: f'({gstr(kv[0])}, {g_cm(kv[1])})')} "
            f"{glist(f['crs'], lambda kv: f'({gstr(kv[0])}, {g_cr(kv[1])})')})")


def g_top(t):
    k, v = t["k"], t["v"]
    if k == "cons":
        return f"(TCons {g_cons(v)})"
    if k == "bounds":
        return f"(TBounds {g_pd(v)})"
    if k == "axis":
        return f"(TAxis {gopt(v, gz)})"
    if k == "cm":
        return f"(TCm {g_cm(v)})"
    if k == "cr":
        return f"(TCr {g_cr(v)})"
    if k == "data":
        return f"(TData {g_data(v)})"
    if k == "field":
        return f"(TField {g_field(v)})"
    raise ValueError(k)


def g_tol(t, absolute=False):
    if absolute and _S[0] != 1:
        t = [1, 2 ** 52] if t is None else t
        return f"(Some ({gz(t[0] * _S[0])}, {gz(t[1])}))"
    return "None" if t is None else f"(Some ({gz(t[0])}, {gz(t[1])}))"


def g_ip(ip):
    if ip is None:
        return "IPNone"
    if isinstance(ip, str):
        return f"(IPStr {gstr(ip)})"
    return f"(IPSeq {glist(ip, gstr)})"


def g_opts(o):
    return (f"(mkO {g_tol(o.get('rtol'))} {g_tol(o.get('atol'), True)} {gbool(o.get('idt', False))} "
            f"{gbool(o.get('ifv', False))} {g_ip(o.get('ip'))} {gbool(o.get('icomp', True))} "
            f"{gbool(o.get('itype', False))})")


# which options each kind's equals() accepts (the others are dropped by the driver and
# must be neutral in the literal)
ACCEPTS = {
    "cons": {"rtol", "atol", "verbose", "idt", "ifv", "ip", "icomp", "itype"},
    "bounds": {"rtol", "atol", "verbose", "idt", "ifv", "ip", "icomp", "itype"},
    "iring": {"rtol", "atol", "verbose", "idt", "ifv", "ip", "icomp", "itype"},
    "count": {"rtol", "atol", "verbose", "idt", "ifv", "ip", "icomp", "itype"},
    "index": {"rtol", "atol", "verbose", "idt", "ifv", "ip", "icomp", "itype"},
    "list": {"rtol", "atol", "verbose", "idt", "ifv", "ip", "icomp", "itype"},
    "field": {"rtol", "atol", "verbose", "idt", "ifv", "ip", "icomp", "itype"},
    "data": {"rtol", "atol", "verbose", "idt", "ifv", "icomp", "itype"},
    "axis": {"verbose", "itype"},
    "cm": {"rtol", "atol", "verbose", "itype"},
    "cr": {"rtol", "atol", "verbose", "itype"},
}


def effective_opts(kind, o):
    acc = ACCEPTS[kind]
    return {k: v for k, v in o.items() if k in acc or k == "ip_tuple"}


# ---- generators ---------------------------------------------------------------------
NUM_DT = ["i4", "i8", "f8", "f4", "i4", "f8", "i2"]
UNITS = [None, "m", "K", "days since 2000-01-01", "m"]
NAMES = ["latitude", "longitude", "time", "height", "air_temperature", "surface_altitude", "area", "foo_name"]


def prod(shape):
    n = 1
    for s in shape:
        n *= s
    return n


def gen_arr(rng, shape, dt=None, pmask=0.3, ma=None):
    dt = dt or rng.choice(NUM_DT)
    n = prod(shape)
    hi = 9 if dt != "U" else rng.choice([9, 9, 30, 60])
    vals = [rng.randint(-3 if dt != "U" else 0, hi) for _ in range(n)]
    if n and rng.random() < pmask:
        for i in range(n):
            if rng.random() < 0.3:
                vals[i] = None
    return {"shape": list(shape), "dt": dt, "vals": vals, "ma": bool(rng.random() < 0.2) if ma is None else ma}


def gen_data(rng, shape, allow_str=True, allow_comp=False):
    dt = "U" if (allow_str and rng.random() < 0.08) else None
    d = {"arr": gen_arr(rng, shape, dt), "fill": rng.choice([None, None, -99, -1]),
         "units": rng.choice(UNITS), "cal": None, "comp": None}
    if d["units"] and d["units"].startswith("days") and rng.random() < 0.5:
        d["cal"] = rng.choice(["noleap", "360_day"])
    if allow_comp and rng.random() < 0.5:
        make_ragged(rng, d)
    return d


def make_ragged(rng, d):
    """Replace d's array by a ragged-contiguous one (2-d, rows padded with missing)."""
    ninst = rng.choice([1, 2, 3])
    counts = [rng.randint(1, 3) for _ in range(ninst)]
    w = max(counts)
    dt = rng.choice(["i4", "f8"])
    carr = gen_arr(rng, [sum(counts)], dt, pmask=0.2, ma=False)
    vals, k = [], 0
    for c in counts:
        vals += carr["vals"][k:k + c] + [None] * (w - c)
        k += c
    d["arr"] = {"shape": [ninst, w], "dt": dt, "vals": vals, "ma": True}
    d["comp"] = {"carr": carr, "counts": counts}


def gen_pval(rng):
    r = rng.random()
    if r < 0.45:
        return {"s": rng.choice(["alpha", "beta", "gamma", "up", "x y", "K"])}
    if r < 0.75:
        a = gen_arr(rng, [], rng.choice(["i8", "f8"]), pmask=0, ma=False)
        a["py"] = rng.random() < 0.6
        return a
    return gen_arr(rng, [rng.choice([2, 3])], rng.choice(["i8", "f8", "i4"]), pmask=0, ma=False)


PROP_POOL = ["long_name", "comment", "foo", "valid_range", "positive", "_FillValue", "missing_value", "history"]


def gen_props(rng, name=None, extra=()):
    ps = []
    if name is not None:
        ps.append(["standard_name", {"s": name}])
    for p in rng.sample(PROP_POOL, rng.choice([0, 1, 2, 3])):
        if p in FILL_NAMES:
            v = gen_arr(rng, [], "f8", pmask=0, ma=False)
            v["py"] = True
        else:
            v = gen_pval(rng)
        ps.append([p, v])
    for p in extra:
        ps.append([p, gen_pval(rng)])
    return ps


def gen_pd(rng, shape, name=None, allow_comp=False, allow_str=True):
    p = {"props": gen_props(rng, name), "data": gen_data(rng, shape, allow_str, allow_comp),
         "ext": False, "ncvar": rng.choice([None, None, "v1", "lat"])}
    d = p["data"]
    if d["units"] is not None:
        p["props"].append(["units", {"s": d["units"]}])
    if d["cal"] is not None:
        p["props"].append(["calendar", {"s": d["cal"]}])
    sync_pd(p)
    return p


def gen_cons(rng, cls, shape, name=None, allow_comp=False, simple=False):
    c = {"cls": cls, "pd": gen_pd(rng, shape, name, allow_comp), "geom": None, "bounds": None,
         "iring": None, "meas": None}
    if cls in ("dim", "aux", "domanc") and not c["pd"]["data"]["comp"]:
        if rng.random() < (0.3 if simple else 0.5):
            b = gen_pd(rng, list(shape) + [2], None, allow_str=False)
            b["props"] = [] if rng.random() < 0.6 else gen_props(rng)
            c["bounds"] = b
        if cls == "aux" and not simple and rng.random() < 0.2:
            c["geom"] = rng.choice(["polygon", "line", "point"])
            if c["bounds"] is not None and rng.random() < 0.5:
                ir = gen_pd(rng, list(shape) + [1], None, allow_str=False)
                ir["props"] = []
                c["iring"] = ir
    if cls == "meas":
        c["meas"] = rng.choice(["area", "volume", None])
    return c


def gen_cm(rng, axis_keys, valid=True):
    pool = list(axis_keys) + ["area", "foo_axis"]
    n = rng.choice([1, 1, 1, 2, 3]) if pool else 1
    n = min(n, len(pool))
    axes = rng.sample(pool, n)
    quals = []
    # a climatological qualifier on a single domain axis makes cfdm flag the coordinates of that
    # axis as climatological, which it refuses for coordinates without reference-time units
    clim_ok = not (n == 1 and axes[0] in axis_keys)
    for q in rng.sample((["within", "over"] if clim_ok else []) + ["where", "comment"], rng.choice([0, 0, 1, 2])):
        quals.append([q, rng.choice(["years", "days", "land", "sea", "note"])])
    r = rng.random()
    if r < 0.5:
        nint = 0
    elif r < 0.8 or n == 1:
        nint = 1
    else:
        nint = n
    ivs = []
    for _ in range(nint):
        d = gen_data(rng, [], allow_str=False)
        d["arr"]["vals"] = [rng.randint(1, 9)]
        d["arr"]["ma"] = False
        ivs.append(d)
    return {"axes": axes, "method": rng.choice(["mean", "maximum", "point", "mean", None]),
            "quals": quals, "intervals": ivs}


def gen_params(rng, pool):
    out = []
    for t in rng.sample(pool, rng.choice([0, 1, 2, min(3, len(pool))])):
        out.append([t, None if rng.random() < 0.1 else gen_pval(rng)])
    return out


def gen_cr(rng, coord_keys, domanc_keys):
    coords = rng.sample(coord_keys, rng.choice([0, 1, min(2, len(coord_keys))])) if coord_keys else []
    cdas = []
    for t in rng.sample(["a", "b", "orog"], rng.choice([0, 1, 2])):
        cdas.append([t, rng.choice(domanc_keys) if domanc_keys and rng.random() < 0.8 else None])
    return {"coords": coords,
            "cparams": gen_params(rng, ["grid_mapping_name", "standard_parallel", "earth_radius", "false_easting"]),
            "cdas": cdas,
            "dparams": gen_params(rng, ["earth_radius", "semi_major_axis", "inverse_flattening"])}


KEYBASE = {"dim": "dimensioncoordinate", "aux": "auxiliarycoordinate", "domanc": "domainancillary",
           "meas": "cellmeasure", "fanc": "fieldancillary", "dtop": "domaintopology", "cconn": "cellconnectivity"}


def gen_field(rng, isfield=True, twin=False):
    naxes = rng.choice([0, 1, 2, 2, 3, 3])
    sizes = [rng.choice([1, 2, 3, 3]) for _ in range(naxes)]
    if naxes >= 2 and rng.random() < 0.5:
        sizes[1] = sizes[0]
    axes = [[f"domainaxis{i}", sizes[i]] for i in range(naxes)]
    size = dict(axes)
    cons, count = [], {}

    def add(cls, ax, name):
        k = count.get(cls, 0)
        count[cls] = k + 1
        c = gen_cons(rng, cls, [size[a] for a in ax], name, simple=True)
        c["pd"]["data"]["arr"]["dt"] = c["pd"]["data"]["arr"]["dt"] if c["pd"]["data"]["arr"]["dt"] != "U" else "i4"
        if c["pd"]["data"]["arr"]["dt"] == "i4" and "U" == "x":
            pass
        cons.append([f"{KEYBASE[cls]}{k}", list(ax), c])
        return c

    names = list(NAMES)
    rng.shuffle(names)
    for i, (a, n) in enumerate(axes):
        if rng.random() < 0.7:
            add("dim", [a], names[i])
    if twin and naxes >= 2 and sizes[0] == sizes[1]:
        # two axes whose coordinate constructs are indistinguishable
        cons[:] = [t for t in cons if t[1] not in ([axes[0][0]], [axes[1][0]])]
        c = gen_cons(rng, "dim", [sizes[0]], "latitude", simple=True)
        cons.append([f"dimensioncoordinate{count.get('dim', 0) + 5}", [axes[0][0]], copy.deepcopy(c)])
        cons.append([f"dimensioncoordinate{count.get('dim', 0) + 6}", [axes[1][0]], copy.deepcopy(c)])
    if naxes:
        for _ in range(rng.choice([0, 1, 1, 2])):
            ax = rng.sample([a for a, _ in axes], rng.choice([1, min(2, naxes)]))
            add("aux", ax, rng.choice([None, "aux_" + rng.choice("pqr")]))
        if rng.random() < 0.35:
            add("meas", rng.sample([a for a, _ in axes], min(naxes, rng.choice([1, 2]))), None)
        for _ in range(rng.choice([0, 0, 1, 2])):
            add("domanc", rng.sample([a for a, _ in axes], rng.choice([1, min(2, naxes)])), rng.choice([None, "surface_altitude"]))
        if isfield and rng.random() < 0.3:
            add("fanc", rng.sample([a for a, _ in axes], min(naxes, rng.choice([1, 2]))), "fa_name")
    rng.shuffle(cons)
    f = {"isfield": isfield, "props": gen_props(rng, rng.choice(["air_temperature", None]),
                                                extra=["Conventions"] if rng.random() < 0.3 else ()),
         "data": None, "daxes": None, "axes": axes, "cons": cons, "cms": [], "crs": []}
    if isfield and rng.random() < 0.9:
        dax = [a for a, _ in axes]
        rng.shuffle(dax)
        if dax and rng.random() < 0.2:
            dax = dax[:-1]
        f["daxes"] = dax
        f["data"] = gen_data(rng, [size[a] for a in dax], allow_str=False)
        if f["data"]["units"] is not None:
            f["props"].append(["units", {"s": f["data"]["units"]}])
    if isfield:
        for i in range(rng.choice([0, 0, 1, 2])):
            f["cms"].append([f"cellmethod{i}", gen_cm(rng, [a for a, _ in axes])])
    ckeys = [t[0] for t in cons if t[2]["cls"] in ("dim", "aux")]
    dkeys = [t[0] for t in cons if t[2]["cls"] == "domanc"]
    for i in range(rng.choice([0, 0, 1, 2])):
        f["crs"].append([f"coordinatereference{i}", gen_cr(rng, ckeys, dkeys)])
    return f


def gen_opts(rng, loose_p=0.35):
    o = {}
    r = rng.random()
    if r < loose_p:
        o["rtol"] = rng.choice([[1, 2], [0, 1], [1, 4]])
        o["atol"] = rng.choice([[2, 1], [0, 1], [1, 1]])
    elif r < loose_p + 0.25:
        o["rtol"] = [0, 1]
        o["atol"] = [0, 1]
    elif r < loose_p + 0.35:
        o["atol"] = [1, 1]
    for k, p in (("idt", 0.3), ("ifv", 0.3), ("itype", 0.25)):
        if rng.random() < p:
            o[k] = rng.random() < 0.8
    if rng.random() < 0.3:
        o["icomp"] = rng.random() < 0.6
    if rng.random() < 0.35:
        o["ip"] = rng.choice(["long_name", "comment", ["long_name", "foo"], [], ["standard_name"], "", ["_FillValue"]])
        o["ip_tuple"] = rng.random() < 0.5
    if rng.random() < 0.4:
        o["verbose"] = rng.choice([-1, 0, 1, 2, 3])
    return o



# ---- the data's units, calendar and fill value are taken from the parent's properties --------
def _pget(props, name):
    for k, v in props:
        if k == name:
            return v
    return None


def sync_pd(p, inherit=None, bounds=False):
    """core PropertiesData.get_data copies units/calendar/missing_value|_FillValue of the parent
    onto the data; Bounds.get_data falls back on the parent coordinate's units and calendar."""
    d = p.get("data")
    if d is None:
        return
    for key, name in (("units", "units"), ("cal", "calendar")):
        v = _pget(p["props"], name)
        val = v["s"] if v is not None and "s" in v else None
        if val is None and inherit is not None:
            w = _pget(inherit, name)
            val = w["s"] if w is not None and "s" in w else None
        d[key] = val
    fv = _pget(p["props"], "missing_value")
    if fv is None:
        fv = _pget(p["props"], "_FillValue")
    d["fill"] = fv["vals"][0] if fv is not None and "vals" in fv else None


def sync_cons(c):
    sync_pd(c["pd"])
    if c.get("bounds") is not None:
        sync_pd(c["bounds"], inherit=c["pd"]["props"])
    if c.get("iring") is not None:
        sync_pd(c["iring"])


def sync_top(t):
    k, v = t["k"], t["v"]
    if k == "cons":
        sync_cons(v)
    elif k == "bounds":
        sync_pd(v)
    elif k == "field":
        if v.get("data") is not None:
            sync_pd(v)
        for _, _, c in v["cons"]:
            sync_cons(c)
    return t


def set_prop(props, name, val):
    for kv in props:
        if kv[0] == name:
            if val is None:
                props.remove(kv)
            else:
                kv[1] = {"s": val}
            return
    if val is not None:
        props.append([name, {"s": val}])

# ---- perturbations --------------------------------------------------------------------------
def unmasked_positions(a):
    return [i for i, v in enumerate(a["vals"]) if v is not None]


def p_data(rng, d, which, props=None):
    """Perturb a data description in place; returns the class actually applied or None.
    props: the parent's property list when the data belong to a construct (units, calendar
    and fill value then live there)."""
    a = d["arr"]
    if props is not None:
        if which == "datafill":
            return None
        if which == "units":
            set_prop(props, "units", "km" if d.get("units") != "km" else None)
            return which
        if which == "calendar":
            set_prop(props, "calendar", "julian" if d.get("cal") != "julian" else None)
            return which
    if d.get("comp") and which in ("datum_far", "datum_near", "mask", "shape"):
        return None
    if which in ("datum_far", "datum_near"):
        pos = unmasked_positions(a)
        if not pos or a["dt"] == "U":
            return None
        i = rng.choice(pos)
        a["vals"][i] += 1000 if which == "datum_far" else 1
        if a["dt"] in ("i1", "i2") and which == "datum_far":
            a["vals"][i] -= 900
        return which
    if which == "mask":
        if not a["vals"]:
            return None
        i = rng.randrange(len(a["vals"]))
        a["vals"][i] = None if a["vals"][i] is not None else 5
        return which
    if which == "shape":
        if rng.random() < 0.5 or len(a["shape"]) < 2 or a["shape"][0] == a["shape"][1]:
            a["shape"] = list(a["shape"]) + [1]
        else:
            a["shape"] = [a["shape"][1], a["shape"][0]] + a["shape"][2:]
        return which
    if which == "dtype":
        swap = {"i4": "i8", "i8": "i4", "f4": "f8", "f8": "f4", "i2": "i4", "i1": "i2"}
        if a["dt"] not in swap or d.get("comp"):
            return None
        a["dt"] = swap[a["dt"]]
        return which
    if which == "datafill":
        d["fill"] = 7 if d.get("fill") != 7 else None
        return which
    if which == "units":
        d["units"] = "km" if d.get("units") != "km" else None
        return which
    if which == "calendar":
        d["cal"] = "julian" if d.get("cal") != "julian" else None
        return which
    if which == "uncompress":
        if not d.get("comp"):
            return None
        d["comp"] = None
        return which
    return None


DATA_P = ["datum_far", "datum_near", "mask", "dtype", "datafill", "units", "calendar"]


def p_props(rng, ps, which):
    if which == "prop_value":
        cand = [kv for kv in ps if kv[0] not in FILL_NAMES]
        if not cand:
            return None
        kv = rng.choice(cand)
        if "s" in kv[1]:
            kv[1]["s"] = kv[1]["s"] + "_changed"
        else:
            kv[1]["vals"][0] += 1000
        return f"prop_value:{kv[0]}"
    if which == "prop_add":
        ps.append(["extra_prop", {"s": "added"}])
        return "prop_add:extra_prop"
    if which == "prop_del":
        cand = [kv for kv in ps if kv[0] not in FILL_NAMES]
        if not cand:
            return None
        kv = rng.choice(cand)
        ps.remove(kv)
        return f"prop_del:{kv[0]}"
    if which == "prop_fill":
        cand = [kv for kv in ps if kv[0] in FILL_NAMES]
        if cand and rng.random() < 0.5:
            kv = rng.choice(cand)
            kv[1]["vals"][0] += 1000
            return f"prop_fill:{kv[0]}"
        have = {kv[0] for kv in ps}
        for nm in FILL_NAMES:
            if nm not in have:
                ps.append([nm, {"shape": [], "dt": "f8", "vals": [-77], "ma": False, "py": True}])
                return f"prop_fill:{nm}"
        return None
    return None


def p_cons(rng, c, which=None, infield=False):
    """Perturb a construct description in place -> class label or None."""
    choices = ["prop_value", "prop_add", "prop_del", "prop_fill"] + DATA_P + \
              ["bounds_del", "bounds_add", "bounds_datum", "bounds_prop", "geometry", "iring", "measure", "ncvar"]
    if not infield:
        choices += ["shape", "uncompress", "cls"]
    which = which or rng.choice(choices)
    if which == "shape" and c["cls"] == "dim":
        return None        # the API refuses a dimension coordinate that is not 1-d
    if which.startswith("prop_"):
        return p_props(rng, c["pd"]["props"], which)
    if which in DATA_P or which in ("shape", "uncompress"):
        r = p_data(rng, c["pd"]["data"], which, props=c["pd"]["props"])
        if r == "shape":
            c["bounds"] = None
            c["iring"] = None
        return r
    bounded = c["cls"] in ("dim", "aux", "domanc")
    if which == "bounds_del":
        if c["bounds"] is None:
            return None
        c["bounds"] = None
        c["iring"] = None
        return which
    if which == "bounds_add":
        if c["bounds"] is not None or not bounded or c["pd"]["data"].get("comp"):
            return None
        b = gen_pd(rng, list(c["pd"]["data"]["arr"]["shape"]) + [2], None, allow_str=False)
        b["props"] = []
        c["bounds"] = b
        return which
    if which == "bounds_datum":
        if c["bounds"] is None:
            return None
        return "bounds_datum" if p_data(rng, c["bounds"]["data"], "datum_far", props=c["bounds"]["props"]) else None
    if which == "bounds_prop":
        if c["bounds"] is None:
            return None
        c["bounds"]["props"].append(["bprop", {"s": "b"}])
        return which
    if which == "geometry":
        if c["cls"] != "aux":
            return None
        c["geom"] = "polygon" if c["geom"] != "polygon" else "line"
        return which
    if which == "iring":
        if c["cls"] != "aux":
            return None
        if c["iring"] is None:
            ir = gen_pd(rng, list(c["pd"]["data"]["arr"]["shape"]) + [1], None, allow_str=False)
            ir["props"] = []
            c["iring"] = ir
        elif rng.random() < 0.5:
            c["iring"] = None
        elif not p_data(rng, c["iring"]["data"], "datum_far", props=c["iring"]["props"]):
            c["iring"] = None
        return which
    if which == "measure":
        if c["cls"] != "meas":
            return None
        c["meas"] = "area" if c["meas"] != "area" else "volume"
        return which
    if which == "ncvar":
        c["pd"]["ncvar"] = "other_nc" if c["pd"]["ncvar"] != "other_nc" else None
        return which
    if which == "cls":
        if not bounded:
            return None
        c["cls"] = rng.choice([k for k in ("dim", "aux", "domanc") if k != c["cls"]])
        if c["cls"] != "aux" and c["geom"] is not None and False:
            pass
        return which
    return None


def tol_frac(o, key):
    t = o.get(key)
    return Fraction(1, 2 ** 52) if t is None else Fraction(t[0], t[1])


def expected_for(pclass, o, level):
    """The answer the property demands for a single perturbation of class pclass
    (None = no demand from the class alone).  level: 'top' (the perturbed object is
    the operand itself), 'nested' (a construct inside a field), 'bounds'."""
    base = pclass.split(":")[0]
    ign = []
    if level == "top" or level == "fieldprop":
        ip = o.get("ip")
        ign = [ip] if isinstance(ip, str) else list(ip or [])
    if o.get("ifv") and level != "cm":
        ign = ign + list(FILL_NAMES)
    if level == "fieldprop":
        ign.append("Conventions")
    if base == "prop_fill":
        # the fill value is also an attribute of the data: only ignore_fill_value removes it
        return True if (o.get("ifv") and level != "cm") else (None if pclass.split(":")[1] in ign else False)
    if base in ("prop_value", "prop_add", "prop_del"):
        return pclass.split(":")[1] in ign
    if base == "dtype":
        return bool(o.get("idt"))
    if base == "datafill":
        return bool(o.get("ifv"))
    if base == "uncompress":
        return bool(o.get("icomp", True))
    if base == "ncvar":
        return True
    if base == "cls":
        return bool(o.get("itype"))
    if base == "datum_near":
        return None
    if base in ("identical", "renamed", "reordered", "strwidth"):
        return True
    return False


# ---- field-level perturbations ---------------------------------------------------------------
def rename_keys(f, rng):
    g = copy.deepcopy(f)
    m = {}
    for i, (k, _) in enumerate(g["axes"]):
        m[k] = f"domainaxis{i + 20 + rng.randrange(3) * 10}"
    for j, t in enumerate(g["cons"]):
        m[t[0]] = f"{KEYBASE[t[2]['cls']]}{j + 40}"
    for k, _ in g["cms"]:
        m[k] = k.replace("cellmethod", "cellmethod9")
    for k, _ in g["crs"]:
        m[k] = k.replace("coordinatereference", "coordinatereference9")
    g["axes"] = [[m[k], n] for k, n in g["axes"]]
    g["cons"] = [[m[k], [m[a] for a in ax], c] for k, ax, c in g["cons"]]
    if g.get("daxes") is not None:
        g["daxes"] = [m[a] for a in g["daxes"]]
    for kv in g["cms"]:
        kv[0] = m[kv[0]]
        kv[1]["axes"] = [m.get(a, a) for a in kv[1]["axes"]]
    for kv in g["crs"]:
        kv[0] = m[kv[0]]
        kv[1]["coords"] = [m.get(a, a) for a in kv[1]["coords"]]
        kv[1]["cdas"] = [[t, m.get(k, k) if k is not None else None] for t, k in kv[1]["cdas"]]
    return g


def reorder(f, rng):
    g = copy.deepcopy(f)
    rng.shuffle(g["cons"])
    rng.shuffle(g["axes"])
    rng.shuffle(g["crs"])
    return g


def spanned_axes(f):
    s = set()
    for _, ax, _ in f["cons"]:
        s.update(ax)
    if f.get("data") is not None:
        s.update(f["daxes"] or [])
    return s


def cm_on_unspanned_axis(f):
    keys = {k for k, _ in f["axes"]}
    sp = spanned_axes(f)
    return any(a in keys and a not in sp for _, c in f["cms"] for a in c["axes"])


def group_sig(f, ax):
    return sorted(lib.canon(c) for _, a, c in f["cons"] if a == ax)


def has_twin_groups(f):
    """Two different axes tuples of the same length whose construct collections have the same
    description (greedy matching may then pair the axes either way)."""
    tuples = []
    for _, ax, _ in f["cons"]:
        if ax not in tuples:
            tuples.append(ax)
    for i in range(len(tuples)):
        for j in range(i + 1, len(tuples)):
            if len(tuples[i]) == len(tuples[j]) and group_sig(f, tuples[i]) == group_sig(f, tuples[j]):
                return True
    return False


def symmetric_under_swap(d, i, j):
    a = d["arr"]
    shape = a["shape"]
    if shape[i] != shape[j]:
        return False
    import itertools
    strides = [prod(shape[k + 1:]) for k in range(len(shape))]
    for idx in itertools.product(*[range(s) for s in shape]):
        jdx = list(idx)
        jdx[i], jdx[j] = jdx[j], jdx[i]
        if a["vals"][sum(x * s for x, s in zip(idx, strides))] != a["vals"][sum(x * s for x, s in zip(jdx, strides))]:
            return False
    return True


def p_field(rng, f, which=None):
    """Perturb a field description (returns (new description, class label) or None)."""
    g = copy.deepcopy(f)
    size = dict(g["axes"])
    choices = ["cons", "cons", "cons", "cons_del", "cons_add", "span_swap", "data_axes_swap", "axis_extra",
               "cm_method", "cm_qual", "cm_interval", "cm_axes", "cm_add", "cm_del", "cm_order",
               "cr_param", "cr_datum", "cr_coords", "cr_term", "cr_add", "cr_del",
               "fprop_value", "fprop_add", "fprop_del", "fprop_fill", "fdata"]
    which = which or rng.choice(choices)
    if which == "cons":
        if not g["cons"]:
            return None
        t = rng.choice(g["cons"])
        r = p_cons(rng, t[2], infield=True)
        return (g, "cons:" + r) if r else None
    if which == "cons_del":
        if not g["cons"]:
            return None
        t = rng.choice(g["cons"])
        g["cons"].remove(t)
        for _, r in g["crs"]:
            r["coords"] = [k for k in r["coords"] if k != t[0]]
            r["cdas"] = [[a, (None if k == t[0] else k)] for a, k in r["cdas"]]
        if any(t[0] in r["coords"] or any(k == t[0] for _, k in r["cdas"]) for _, r in f["crs"]):
            return None
        return g, "cons_del"
    if which == "cons_add":
        if not g["axes"]:
            return None
        cls = rng.choice(["aux", "meas", "domanc", "fanc" if g["isfield"] else "aux", "dim"])
        ax = [rng.choice(g["axes"])[0]]
        if cls == "dim" and any(a == ax and c["cls"] == "dim" for _, a, c in g["cons"]):
            return None
        g["cons"].append([f"{KEYBASE[cls]}77", ax, gen_cons(rng, cls, [size[ax[0]]], "added_one", simple=True)])
        g["cons"][-1][2]["pd"]["data"]["arr"]["dt"] = "f8"
        return g, "cons_add:" + cls
    if which == "span_swap":
        # the two axes must be told apart by their own, different, dimension coordinates: otherwise
        # exchanging them is a mere renaming of the axes and the fields ARE equal
        def dimc0(a):
            return [lib.canon(c) for _, ax, c in g["cons"] if ax == [a] and c["cls"] == "dim"]
        cand = [t for t in g["cons"] if len(t[1]) == 2 and size[t[1][0]] == size[t[1][1]] and size[t[1][0]] > 1
                and not symmetric_under_swap(t[2]["pd"]["data"], 0, 1)
                and dimc0(t[1][0]) and dimc0(t[1][1]) and dimc0(t[1][0]) != dimc0(t[1][1])]
        if not cand:
            return None
        t = rng.choice(cand)
        t[1] = [t[1][1], t[1][0]]
        return g, "span_swap"
    if which == "data_axes_swap":
        if g.get("data") is None or len(g["daxes"]) < 2:
            return None
        dax = g["daxes"]
        pairs = [(i, j) for i in range(len(dax)) for j in range(i + 1, len(dax))
                 if size[dax[i]] == size[dax[j]] and size[dax[i]] > 1 and not symmetric_under_swap(g["data"], i, j)]
        # the two axes must be told apart by their own dimension coordinates
        def dimc(a):
            return [lib.canon(c) for _, ax, c in g["cons"] if ax == [a] and c["cls"] == "dim"]
        pairs = [(i, j) for i, j in pairs if dimc(dax[i]) and dimc(dax[j]) and dimc(dax[i]) != dimc(dax[j])]
        if not pairs:
            return None
        i, j = rng.choice(pairs)
        dax[i], dax[j] = dax[j], dax[i]
        return g, "data_axes_swap"
    if which == "axis_extra":
        g["axes"].append(["domainaxis88", rng.choice([1, 2, 3])])
        return g, "axis_extra"
    if which.startswith("cm_"):
        if not g["isfield"]:
            return None          # a domain holds no cell methods
        if which == "cm_add":
            g["cms"].append(["cellmethod77", gen_cm(rng, [a for a, _ in g["axes"]])])
            return g, which
        if not g["cms"]:
            return None
        kv = rng.choice(g["cms"])
        cm = kv[1]
        if which == "cm_del":
            g["cms"].remove(kv)
        elif which == "cm_method":
            cm["method"] = "median" if cm["method"] != "median" else "sum"
        elif which == "cm_qual":
            if cm["quals"] and rng.random() < 0.5:
                cm["quals"][0][1] += "_x"
            else:
                cm["quals"].append(["extra_q", "v"])
        elif which == "cm_interval":
            if cm["intervals"] and rng.random() < 0.6:
                cm["intervals"][0]["arr"]["vals"][0] += 1000
            elif cm["intervals"]:
                cm["intervals"] = []
            else:
                d = gen_data(rng, [], allow_str=False)
                d["arr"]["vals"] = [3]
                cm["intervals"] = [d]
        elif which == "cm_axes":
            if len(cm["axes"]) != 1:
                return None
            others = [a for a, _ in g["axes"] if a not in cm["axes"]] + ["zzz_name"]
            new = rng.choice(others)
            # only demanded to differ when both axes are identifiable (spanned) or names
            sp = spanned_axes(g)
            keys = {k for k, _ in g["axes"]}
            if (new in keys and new not in sp) or (cm["axes"][0] in keys and cm["axes"][0] not in sp):
                return None
            # ... and, when both are domain axes, told apart by the 1-d constructs they carry
            if new in keys and cm["axes"][0] in keys and group_sig(g, [new]) == group_sig(g, [cm["axes"][0]]):
                return None
            cm["axes"] = [new]
        elif which == "cm_order":
            if len(g["cms"]) < 2 or lib.canon(g["cms"][0][1]) == lib.canon(g["cms"][1][1]):
                return None
            g["cms"][0][1], g["cms"][1][1] = g["cms"][1][1], g["cms"][0][1]
        return g, which
    if which.startswith("cr_"):
        ckeys = [t[0] for t in g["cons"] if t[2]["cls"] in ("dim", "aux")]
        dkeys = [t[0] for t in g["cons"] if t[2]["cls"] == "domanc"]
        if which == "cr_add":
            g["crs"].append(["coordinatereference77", gen_cr(rng, ckeys, dkeys)])
            return g, which
        if not g["crs"]:
            return None
        kv = rng.choice(g["crs"])
        r = kv[1]
        if which == "cr_del":
            g["crs"].remove(kv)
        elif which in ("cr_param", "cr_datum"):
            ps = r["cparams"] if which == "cr_param" else r["dparams"]
            if ps and rng.random() < 0.6:
                t = rng.choice(ps)
                if t[1] is None:
                    t[1] = {"s": "now_set"}
                elif "s" in t[1]:
                    t[1]["s"] += "_x"
                else:
                    t[1]["vals"][0] += 1000
            else:
                ps.append(["extra_term", {"s": "v"}])
        elif which == "cr_coords":
            # the changed key must denote a construct that differs from the one replaced
            cand = [k for k in ckeys if k not in r["coords"]]
            if r["coords"] and cand and rng.random() < 0.5:
                # same number of coordinates, one of them another construct
                r["coords"] = [rng.choice(cand)] + r["coords"][1:]
            elif r["coords"] and rng.random() < 0.5:
                r["coords"] = r["coords"][1:]
            else:
                cand = [k for k in ckeys if k not in r["coords"]]
                if not cand:
                    return None
                r["coords"] = r["coords"] + [rng.choice(cand)]
        elif which == "cr_term":
            if r["cdas"] and rng.random() < 0.6:
                t = rng.choice(r["cdas"])
                others = [k for k in dkeys if k != t[1]]
                if t[1] is None:
                    if not dkeys:
                        return None
                    t[1] = rng.choice(dkeys)
                elif others and rng.random() < 0.6:
                    t[1] = rng.choice(others)       # another domain ancillary for the same term
                else:
                    t[1] = None
            else:
                r["cdas"].append(["extra_da_term", None])
        return g, which
    if which.startswith("fprop_"):
        r = p_props(rng, g["props"], which[1:])
        return (g, "f" + r) if r else None
    if which == "fdata":
        if g.get("data") is None:
            return None
        r = p_data(rng, g["data"], rng.choice(DATA_P), props=g["props"])
        return (g, "fdata:" + r) if r else None
    return None


# ---- case construction -------------------------------------------------------------------------
def near_expected(x, y, o, path):
    return None


def mk_case(fam, kind, x, y, o, pclass, level, extra=False, exp=None, seq=None, fine=False):
    if seq is None:
        seq = kind == "field"       # whole fields: always the repeated / reversed sequence
    return {"fam": fam, "x": sync_top({"k": kind, "v": x}), "y": sync_top({"k": kind, "v": y}), "opts": effective_opts(kind, o),
            "pclass": pclass, "level": level, "extra": extra, "exp": exp, "seq": seq, "fine": fine}


# ---- sub-epsilon differences ------------------------------------------------------------------
def fine_arrays(obj, out=None):
    """The float64 arrays inside a description, in a deterministic order (not the fill-value
    properties, whose value is mirrored on the data, nor compressed data)."""
    if out is None:
        out = []
    if isinstance(obj, dict):
        if "shape" in obj and "vals" in obj and "dt" in obj:
            if obj["dt"] == "f8" and any(v is not None for v in obj["vals"]):
                out.append(obj)
            return out
        if obj.get("comp"):
            return out
        for k, v in obj.items():
            if k in ("props", "cparams", "dparams"):
                for name, pv in v:
                    # not Conventions either: a field's equals always ignores it
                    if name not in FILL_NAMES and name != "Conventions" and pv is not None:
                        fine_arrays(pv, out)
            elif k not in ("opts",):
                fine_arrays(v, out)
    elif isinstance(obj, list):
        for v in obj:
            fine_arrays(v, out)
    return out


def make_fine(rng, x):
    """y = x with ONE float64 number changed by less than the default tolerances.
    -> (x, y, label) or None; x is modified (the chosen number becomes 0 or 1)."""
    ax = fine_arrays(x)
    if not ax:
        return None
    j = rng.randrange(len(ax))
    a = ax[j]
    i = rng.choice([k for k, v in enumerate(a["vals"]) if v is not None])
    kind = rng.choice(["abs", "rel"])
    a["vals"][i] = 0 if kind == "abs" else 1
    y = copy.deepcopy(x)
    b = fine_arrays(y)[j]
    b["ticks"] = [0] * len(b["vals"])
    # 0.0 against 12 * 2**-60 (about 1e-17); 1.0 against nextafter(1.0) = 1 + 2**-52
    b["ticks"][i] = rng.choice([1, 12, 200]) if kind == "abs" else 256
    return x, y, "datum_fine:" + kind


FINE_OPTS = [{"rtol": [0, 1], "atol": [0, 1]}, {"rtol": [0, 1], "atol": [0, 1]}, {"rtol": [0, 1], "atol": [0, 1]},
             {}, {"rtol": [0, 1]}, {"atol": [0, 1]}, {"rtol": [0, 1], "atol": [0, 1], "idt": True},
             {"rtol": [0, 1], "atol": [0, 1], "verbose": 0}]


def fine_cases(rng, n):
    out = []
    for _ in range(n):
        kind = rng.choice(["data", "data", "cons", "cons", "bounds", "cm", "cr", "cr", "field", "field", "field"])
        if kind == "data":
            x = gen_data(rng, rng.choice([[3], [2, 2], []]), allow_str=False)
            x["arr"]["dt"] = "f8"
        elif kind == "cons":
            cls = rng.choice(["dim", "aux", "domanc", "meas", "fanc"])
            x = gen_cons(rng, cls, [3] if cls == "dim" else rng.choice([[3], [2, 2]]), rng.choice(NAMES))
            for p in (x["pd"], x["bounds"], x["iring"]):
                if p is not None and p["data"]["arr"]["dt"] != "U" and rng.random() < 0.7:
                    p["data"]["arr"]["dt"] = "f8"
        elif kind == "bounds":
            x = gen_pd(rng, [3, 2], None, allow_str=False)
            x["data"]["arr"]["dt"] = "f8"
        elif kind == "cm":
            x = gen_cm(rng, ["domainaxis0", "domainaxis1"])
            if not x["intervals"]:
                d = gen_data(rng, [], allow_str=False)
                d["arr"]["vals"] = [3]
                d["arr"]["ma"] = False
                x["intervals"] = [d]
            for d in x["intervals"]:
                d["arr"]["dt"] = "f8"
        elif kind == "cr":
            x = gen_cr(rng, ["dimensioncoordinate0"], ["domainancillary0"])
            tgt = x["cparams"] if rng.random() < 0.5 else x["dparams"]
            tgt.append(["scale_factor_at_central_meridian", {"shape": [], "dt": "f8", "vals": [1], "ma": False, "py": rng.random() < 0.5}])
        else:
            x = gen_field(rng, rng.random() < 0.85)
            for t in x["cons"]:
                if t[2]["pd"]["data"]["arr"]["dt"] != "U" and rng.random() < 0.5:
                    t[2]["pd"]["data"]["arr"]["dt"] = "f8"
            if x.get("data") is not None and rng.random() < 0.6:
                x["data"]["arr"]["dt"] = "f8"
        for c in ([x] if kind == "cons" else [t[2] for t in x["cons"]] if kind == "field" else []):
            if c.get("bounds") is not None:
                c["bounds"]["props"] = [kv for kv in c["bounds"]["props"] if kv[0] not in INHERITABLE]
        r = make_fine(rng, {"k": kind, "v": x})
        if r is None:
            continue
        tx, ty, label = r
        o = dict(rng.choice(FINE_OPTS))
        zero = o.get("rtol") == [0, 1] and o.get("atol") == [0, 1]
        exp = False if zero else None
        lvl = "cm" if kind in ("cm", "cr") else "top"
        if kind == "field" and rng.random() < 0.3:
            ty["v"] = rename_keys(ty["v"], rng)
        out.append(mk_case("fine", kind, tx["v"], ty["v"], o, label, lvl, exp=exp, seq=True, fine=True))
        out.append(mk_case("fine", kind, ty["v"], tx["v"], o, label, lvl, exp=exp, seq=False, fine=True))
    return out


# ---- ignore_properties in each of its forms, naming exactly the property that differs -------------
INHERITABLE = ("units", "standard_name", "axis", "positive", "calendar", "month_lengths", "leap_year", "leap_month")


def ip_directed_cases(rng, n):
    """One property differs (value / added / removed); ignore_properties names exactly that property
    (or, as a control, another one) as a str, a list or a tuple, crossed with ignore_fill_value
    unset / True / False - on every Properties subclass called directly, and on fields."""
    out = []
    for _ in range(n):
        kind = rng.choice(["cons"] * 6 + ["bounds"] * 2 + ["field"] * 2)
        if kind == "cons":
            cls = rng.choice(list(GCLS))
            x = gen_cons(rng, cls, [3], rng.choice(NAMES), simple=True)
            props = lambda d: d["pd"]["props"]
        elif kind == "bounds":
            x = gen_pd(rng, [3, 2], None, allow_str=False)
            props = lambda d: d["props"]
        else:
            x = gen_field(rng, rng.random() < 0.8)
            props = lambda d: d["props"]
        if not any(k == "long_name" for k, _ in props(x)):
            props(x).append(["long_name", {"s": rng.choice(["alpha", "beta"])}])
        y = copy.deepcopy(x)
        pc = p_props(rng, props(y), rng.choice(["prop_value", "prop_add", "prop_del"]))
        if pc is None:
            continue
        name = pc.split(":")[1]
        if name in ("units", "calendar"):
            continue            # mirrored on the data: ignoring the property does not hide it
        named = name if rng.random() < 0.8 else rng.choice([q for q in ("comment", "foo", "long_name") if q != name])
        form = rng.choice(["str", "str", "list", "tuple", "list2", "tuple2"])
        o = {}
        if form == "str":
            o["ip"] = named
        else:
            o["ip"] = [named] + (["history"] if form.endswith("2") else [])
            o["ip_tuple"] = form.startswith("tuple")
        ifv = rng.choice([None, True, True, False])
        if ifv is not None:
            o["ifv"] = ifv
        if rng.random() < 0.2:
            o["idt"] = True
        if rng.random() < 0.2:
            o["rtol"], o["atol"] = [0, 1], [0, 1]
        lvl = "fieldprop" if kind == "field" else "top"
        label = ("f" + pc) if kind == "field" else pc
        out.append(mk_case("ip-directed", kind, x, y, o, label, lvl, seq=rng.random() < 0.3))
        out.append(mk_case("ip-directed", kind, y, x, o, label, lvl, seq=False))
    return out


# ---- bounds that set a property they inherit from the parent coordinate ------------------------------
def _inh_values(rng, p, parent_props):
    """(value the parent has / would have, contradicting value, same value in another dtype or None)

    HEAD decides redundancy with the DEFAULT tolerances (`self._equals(b[p], p[p])` without rtol/atol)
    and data types compared, but a property that is not redundant is then compared by
    Properties.equals with the tolerances OF THE CALL.  A numeric contradiction is therefore made
    larger (+1000) than any tolerance the generators use (atol <= 2, rtol <= 1/2), as for every
    other numeric property perturbation (p_props)."""
    if p == "standard_name":
        cur = _pget(parent_props, "standard_name")
        q = cur["s"] if cur is not None and "s" in cur else "latitude"
        return {"s": q}, {"s": q + "_other"}, None
    if p == "axis":
        return {"s": "Y"}, {"s": "X"}, None
    if p == "positive":
        return {"s": "up"}, {"s": "down"}, None
    if p == "units":
        return {"s": "m"}, {"s": "km"}, None
    if p in ("leap_month", "leap_year"):
        v = rng.choice([2, 4])
        mk = lambda val, dt: {"shape": [], "dt": dt, "vals": [val], "ma": False, "py": True}
        return mk(v, "i8"), mk(v + 1000, "i8"), mk(v, "f8")
    v = [rng.randint(28, 31) for _ in range(3)]
    mk = lambda vals, dt: {"shape": [3], "dt": dt, "vals": list(vals), "ma": False}
    return mk(v, "i8"), mk([v[0] + 1000] + v[1:], "i8"), mk(v, "i4")


def _put(props, name, val):
    for kv in list(props):
        if kv[0] == name:
            props.remove(kv)
    if val is not None:
        props.append([name, copy.deepcopy(val)])


def bounds_inherit_cases(rng, n):
    out = []
    for _ in range(n):
        cls = rng.choice(["dim", "aux", "aux", "domanc"])
        m = rng.choice([2, 3])
        x = gen_cons(rng, cls, [m], rng.choice(NAMES), simple=True)
        if x["pd"]["data"]["arr"]["dt"] == "U":
            x["pd"]["data"]["arr"]["dt"] = "f8"
        if x["bounds"] is None:
            b = gen_pd(rng, [m, 2], None, allow_str=False)
            b["props"] = [] if rng.random() < 0.6 else gen_props(rng)
            x["bounds"] = b
        x["bounds"]["props"] = [kv for kv in x["bounds"]["props"] if kv[0] not in INHERITABLE]
        p = rng.choice(["standard_name", "axis", "positive", "positive", "leap_month", "leap_year", "month_lengths", "units"])
        q, qc, qd = _inh_values(rng, p, x["pd"]["props"])
        which = rng.choice(["contra", "contra", "repeat", "repeat", "both_contra", "contra_vs_repeat", "noparent",
                            "repeat_both", "dtype"])
        if which == "dtype" and qd is None:
            which = "contra"
        if which == "noparent" and p in ("units",):
            which = "contra"
        _put(x["pd"]["props"], p, None if which == "noparent" else q)
        y = copy.deepcopy(x)
        if which == "contra":
            _put(y["bounds"]["props"], p, qc)
            exp = False
        elif which == "repeat":
            _put(y["bounds"]["props"], p, q)
            exp = True
        elif which == "both_contra":
            _put(x["bounds"]["props"], p, qc)
            _put(y["bounds"]["props"], p, qc)
            exp = True
        elif which == "contra_vs_repeat":
            _put(x["bounds"]["props"], p, q)
            _put(y["bounds"]["props"], p, qc)
            exp = False
        elif which == "noparent":
            _put(y["bounds"]["props"], p, q)
            exp = False
        elif which == "repeat_both":
            _put(x["bounds"]["props"], p, q)
            _put(y["bounds"]["props"], p, q)
            exp = True
        else:
            _put(y["bounds"]["props"], p, qd)
            exp = False
        o = gen_opts(rng, loose_p=0.1)
        o.pop("itype", None)
        if rng.random() < 0.3:
            o["ip"] = [p]            # reaches the parent only, never the bounds
            o["ip_tuple"] = rng.random() < 0.5
        elif "ip" in o and (o["ip"] == "standard_name" or o["ip"] == ["standard_name"]):
            o.pop("ip")
        label = "bounds_inh_" + which
        if rng.random() < 0.4:
            # the same pair of constructs inside two fields
            def wrap(c):
                f = {"isfield": True, "props": [["standard_name", {"s": "air_temperature"}]], "data": None, "daxes": None,
                     "axes": [["domainaxis0", m], ["domainaxis1", 2]],
                     "cons": [[f"{KEYBASE[cls]}0", ["domainaxis0"], c]], "cms": [], "crs": []}
                if rng.random() < 0.7:
                    f["daxes"] = ["domainaxis0", "domainaxis1"]
                    f["data"] = {"arr": {"shape": [m, 2], "dt": "f8", "vals": list(range(2 * m)), "ma": False},
                                 "fill": None, "units": None, "cal": None, "comp": None}
                return f
            st = rng.getstate()
            fx = wrap(x)
            rng.setstate(st)
            fy = wrap(y)
            if rng.random() < 0.3:
                fy = rename_keys(fy, rng)
            o.pop("ip", None)
            out.append(mk_case("bounds-inherit", "field", fx, fy, o, label, "top", exp=exp))
            out.append(mk_case("bounds-inherit", "field", fy, fx, o, label, "top", exp=exp))
        else:
            out.append(mk_case("bounds-inherit", "cons", x, y, o, label, "top", exp=exp, seq=rng.random() < 0.4))
            out.append(mk_case("bounds-inherit", "cons", y, x, o, label, "top", exp=exp))
    return out


# ---- every ordered pair of classes, with and without ignore_type ------------------------------------
NOMODEL = {"py", "iring", "count", "index", "list"}      # kinds outside the Gallina model (oracle only)
PDLIKE = ["dim", "aux", "domanc", "meas", "fanc", "dtop", "cconn", "bounds", "iring", "count", "index", "list"]
XKINDS = PDLIKE + ["axis", "cm", "cr", "data", "field", "domain",
                   "py:str", "py:none", "py:int", "py:list", "py:nparr", "py:dict"]


def cross_class_cases(rng, both_contents):
    """x of every class against y of every class, ignore_type True and False (explicit), equal or
    different content.  pd-like classes share one properties+data description so that the
    converted operand can be equal."""
    out = []

    def build(kind, P):
        if kind in GCLS:
            c = {"cls": kind, "pd": copy.deepcopy(P), "geom": None, "bounds": None, "iring": None, "meas": None}
            if kind == "meas" and rng.random() < 0.5:
                c["meas"] = "area"
            if kind in ("dim", "aux", "domanc") and rng.random() < 0.3:
                b = gen_pd(rng, list(P["data"]["arr"]["shape"]) + [2], None, allow_str=False)
                b["props"] = []
                c["bounds"] = b
            if kind == "aux" and rng.random() < 0.3:
                c["geom"] = "polygon"
            return "cons", c
        if kind in ("bounds", "iring", "count", "index", "list"):
            return kind, copy.deepcopy(P)
        if kind == "axis":
            return "axis", rng.choice([3, None])
        if kind == "cm":
            return "cm", gen_cm(rng, ["domainaxis0"])
        if kind == "cr":
            return "cr", gen_cr(rng, ["dimensioncoordinate0"], [])
        if kind == "data":
            return "data", copy.deepcopy(P["data"])
        if kind in ("field", "domain"):
            return "field", gen_field(rng, kind == "field")
        return "py", kind.split(":")[1]

    for a in XKINDS:
        if a.startswith("py:"):
            continue
        for b in XKINDS:
            for itype in (True, False):
                for same in ((True, False) if both_contents else (rng.random() < 0.5,)):
                    shape = [3] if (rng.random() < 0.8 or "dim" in (a, b)) and rng.random() < 0.9 else [3, 2]
                    if a == "dim":
                        shape = [3] if rng.random() < 0.9 else shape
                    P = gen_pd(rng, shape, rng.choice(NAMES), allow_str=False)
                    if a == "dim" and len(P["data"]["arr"]["shape"]) != 1:
                        P = gen_pd(rng, [3], rng.choice(NAMES), allow_str=False)
                    Q = copy.deepcopy(P)
                    if b == "dim" or rng.random() < 0.05:
                        pass
                    if not same:
                        if p_data(rng, Q["data"], "datum_far", props=Q["props"]) is None:
                            p_props(rng, Q["props"], "prop_add")
                    if a != "dim" and b in PDLIKE and b != "dim" and rng.random() < 0.15:
                        pass
                    kx, vx = build(a, P)
                    ky, vy = build(b, Q if b != "dim" or len(Q["data"]["arr"]["shape"]) == 1 else gen_pd(rng, [3], "latitude", allow_str=False))
                    if a == b and same:
                        ky, vy = kx, copy.deepcopy(vx)      # build() draws optional components at random
                    o = {"itype": itype}
                    if rng.random() < 0.3:
                        o["rtol"], o["atol"] = [0, 1], [0, 1]
                    if rng.random() < 0.2:
                        o["ifv"] = True
                    if rng.random() < 0.2:
                        o["verbose"] = rng.choice([0, 1, -1])
                    c = {"fam": "cross-class", "x": sync_top({"k": kx, "v": vx}), "y": sync_top({"k": ky, "v": vy}),
                         "opts": effective_opts(kx, o), "pclass": "crossclass", "level": "top", "extra": False, "exp": None,
                         "seq": rng.random() < 0.3, "fine": False, "conv": itype and ky != "py" or (itype and rng.random() < 0.5),
                         "kinds": [a, b], "same": same}
                    out.append(c)
    return out


# ---- string data held wider than its longest element ----------------------------------------------
def strwidth_cases(rng, n):
    out = []
    for _ in range(n):
        if rng.random() < 0.5:
            kind = "data"
            x = gen_data(rng, rng.choice([[3], [2, 2]]), allow_str=False)
            arr = x["arr"]
        else:
            kind = "cons"
            x = gen_cons(rng, rng.choice(["aux", "domanc", "fanc"]), [3], rng.choice(NAMES), simple=True)
            x["bounds"] = None
            arr = x["pd"]["data"]["arr"]
        arr["dt"] = "U"
        arr["vals"] = [None if v is None else abs(v) + rng.choice([0, 0, 20, 60]) for v in arr["vals"]]
        y = copy.deepcopy(x)
        yarr = y["arr"] if kind == "data" else y["pd"]["data"]["arr"]
        yarr["w"] = tag(arr) - 100 + rng.choice([1, 2, 5])
        o = gen_opts(rng)
        out.append(mk_case("string-width", kind, x, y, o, "strwidth", "top", exp=True, seq=True))
        out.append(mk_case("string-width", kind, y, x, o, "strwidth", "top", exp=True))
    return out


# ---- the field's data moved to another axis of the same size ---------------------------------------
def moved_axis_cases(rng, n):
    """Two axes of one size: A carries no construct, B a dimension coordinate (and perhaps more).
    x's data span A, y's data span B: different fields, whichever is asked."""
    out = []
    for _ in range(n):
        m = rng.choice([1, 2, 3, 3])
        x = {"isfield": True, "props": gen_props(rng, "air_temperature"), "data": None, "daxes": None,
             "axes": [["domainaxis0", m], ["domainaxis1", m]], "cons": [], "cms": [], "crs": []}
        x["cons"].append(["dimensioncoordinate0", ["domainaxis1"], gen_cons(rng, "dim", [m], "latitude", simple=True)])
        if rng.random() < 0.4:
            x["cons"].append(["auxiliarycoordinate0", ["domainaxis1"], gen_cons(rng, "aux", [m], "aux_p", simple=True)])
        extra = []
        if rng.random() < 0.5:
            k = rng.choice([1, 2])
            x["axes"].append(["domainaxis2", k])
            if rng.random() < 0.6:
                x["cons"].append(["dimensioncoordinate1", ["domainaxis2"], gen_cons(rng, "dim", [k], "time", simple=True)])
            extra = ["domainaxis2"] if rng.random() < 0.7 else []
        for t in x["cons"]:
            if t[2]["pd"]["data"]["arr"]["dt"] == "U":
                t[2]["pd"]["data"]["arr"]["dt"] = "f8"
        pos = rng.randrange(len(extra) + 1)
        dax = extra[:pos] + ["domainaxis0"] + extra[pos:]
        x["daxes"] = dax
        size = dict(x["axes"])
        x["data"] = gen_data(rng, [size[a] for a in dax], allow_str=False)
        if rng.random() < 0.4:
            x["cms"].append(["cellmethod0", gen_cm(rng, ["domainaxis0", "domainaxis1"])])
        rng.shuffle(x["axes"])
        y = copy.deepcopy(x)
        y["daxes"] = ["domainaxis1" if a == "domainaxis0" else a for a in dax]
        if rng.random() < 0.4:
            y = rename_keys(y, rng) if rng.random() < 0.5 else reorder(y, rng)
        o = gen_opts(rng, loose_p=0.15)
        out.append(mk_case("field-data-axis-moved", "field", x, y, o, "data_axis_moved", "top"))
        out.append(mk_case("field-data-axis-moved", "field", y, x, o, "data_axis_moved", "top"))
    return out



CORPUS = [
    # F05a: different numbers of cell methods
    ("F05a", lambda: _corpus_field(cms_y_extra=True), {}),
    # F05b: ignore_fill_value with the default ignore_properties
    ("F05b", lambda: _corpus_field(), {"ifv": True}),
    # F05c: data axes swapped between two size-3 axes
    ("F05c", lambda: _corpus_field(swap_daxes=True), {}),
    # F05d: ambiguous axis mapping (2-d construct transposed, symmetric values)
    ("F05d", lambda: _corpus_field(aux2d=True, swap_aux=True), {}),
    # F05e: domain axis without a size
    ("F05e", lambda: _corpus_field(sizeless=True), {}),
    # F05g: cell method with a standard-name axis followed by two domain axes
    ("F05g", lambda: _corpus_field(cm_axes=["area", "domainaxis0", "domainaxis1"]), {}),
    # F05h: the other field lacks the only cell measure
    ("F05h", lambda: _corpus_field(extra_meas_x=True), {}),
]


def _num(v, dt="f8"):
    return {"shape": [len(v)], "dt": dt, "vals": list(v), "ma": False}


def _dim(name, vals):
    return {"cls": "dim", "pd": {"props": [["standard_name", {"s": name}]],
                                 "data": {"arr": _num(vals), "fill": None, "units": "m", "cal": None, "comp": None},
                                 "ext": False, "ncvar": None},
            "geom": None, "bounds": None, "iring": None, "meas": None}


def _corpus_field(cms_y_extra=False, swap_daxes=False, aux2d=False, swap_aux=False, sizeless=False,
                  cm_axes=None, extra_meas_x=False):
    x = {"isfield": True, "props": [["standard_name", {"s": "air_temperature"}]],
         "data": {"arr": {"shape": [3, 3], "dt": "f8", "vals": list(range(9)), "ma": False}, "fill": None,
                  "units": "K", "cal": None, "comp": None},
         "daxes": ["domainaxis0", "domainaxis1"], "axes": [["domainaxis0", 3], ["domainaxis1", 3]],
         "cons": [["dimensioncoordinate0", ["domainaxis0"], _dim("latitude", [1, 2, 3])],
                  ["dimensioncoordinate1", ["domainaxis1"], _dim("longitude", [4, 5, 6])]],
         "cms": [], "crs": []}
    if aux2d:
        a = _dim("aux_sym", [1, 2, 3, 2, 4, 5, 3, 5, 6])
        a["cls"] = "aux"
        a["pd"]["data"]["arr"]["shape"] = [3, 3]
        x["cons"].append(["auxiliarycoordinate0", ["domainaxis0", "domainaxis1"], a])
    if cm_axes:
        x["cms"].append(["cellmethod0", {"axes": cm_axes, "method": "mean", "quals": [], "intervals": []}])
    y = copy.deepcopy(x)
    if cms_y_extra:
        y["cms"].append(["cellmethod0", {"axes": ["domainaxis0"], "method": "mean", "quals": [], "intervals": []}])
    if swap_daxes:
        y["daxes"] = ["domainaxis1", "domainaxis0"]
    if swap_aux:
        y["cons"][-1][1] = ["domainaxis1", "domainaxis0"]
    if sizeless:
        x["axes"].append(["domainaxis2", None])
        y["axes"].append(["domainaxis2", None])
    if extra_meas_x:
        m = _dim("cell_area", [7, 8, 9])
        m["cls"] = "meas"
        m["meas"] = "area"
        x["cons"].append(["cellmeasure0", ["domainaxis0"], m])
    return x, y


CORPUS_EXPECT = {"F05a": False, "F05b": True, "F05c": False, "F05d": False, "F05e": True, "F05g": True, "F05h": False}


def generate(chk):
    rng = chk.rng
    thorough = chk.tier == "thorough"
    scale = 4 if thorough else 1
    cases = []
    for name, mk, o in CORPUS:
        x, y = mk()
        cases.append(mk_case("corpus-" + name, "field", x, y, o, "corpus", "top", exp=CORPUS_EXPECT[name]))
        cases.append(mk_case("corpus-" + name + "-rev", "field", y, x, o, "corpus", "top", exp=CORPUS_EXPECT[name]))

    # (a) single constructs: identical, every single perturbation, full option grid
    for _ in range(900 * scale):
        cls = rng.choice(["dim", "aux", "aux", "domanc", "meas", "fanc", "dtop", "cconn"])
        shape = rng.choice([[3], [2], [2, 3], [1], [3, 3], []]) if cls != "dim" else rng.choice([[3], [2], [1]])
        x = gen_cons(rng, cls, shape, rng.choice(NAMES), allow_comp=(rng.random() < 0.25))
        if cls == "meas" and rng.random() < 0.15:
            x["pd"]["ext"] = True
            x["pd"]["data"] = None
            x["pd"]["ncvar"] = rng.choice(["areacella", None])
            x["bounds"] = None
        o = gen_opts(rng)
        r = rng.random()
        if r < 0.12 or x["pd"]["data"] is None:
            cases.append(mk_case("cons-identical", "cons", x, copy.deepcopy(x), o, "identical", "top", extra=True, exp=True))
            continue
        y = copy.deepcopy(x)
        pc = p_cons(rng, y)
        if pc is None:
            continue
        lvl = "bounds" if pc in ("bounds_prop",) else "top"
        if pc == "bounds_prop" and rng.random() < 0.6:
            o["ip"] = ["bprop"]            # ... nor the bounds of a construct
        cases.append(mk_case("cons-perturbed", "cons", x, y, o, pc, lvl, extra=(rng.random() < 0.3)))
        if rng.random() < 0.5:
            cases.append(mk_case("cons-perturbed", "cons", y, x, o, pc, lvl))

    # (b) components: data, bounds, domain axes, cell methods, coordinate references
    for _ in range(350 * scale):
        shape = rng.choice([[3], [2, 2], [], [2, 3]])
        x = gen_data(rng, shape, allow_comp=(rng.random() < 0.3))
        y = copy.deepcopy(x)
        o = gen_opts(rng)
        which = rng.choice(DATA_P + ["shape", "uncompress", "identical"])
        pc = "identical" if which == "identical" else p_data(rng, y, which)
        if pc is None:
            continue
        cases.append(mk_case("data", "data", x, y, o, pc, "top", extra=(pc == "identical"),
                             exp=True if pc == "identical" else None))
    for _ in range(120 * scale):
        x = gen_pd(rng, rng.choice([[3, 2], [2, 2]]), None, allow_str=False)
        y = copy.deepcopy(x)
        o = gen_opts(rng)
        which = rng.choice(["prop_value", "prop_add", "prop_fill", "identical"] + DATA_P)
        if which == "identical":
            pc = "identical"
        elif which.startswith("prop_"):
            pc = p_props(rng, y["props"], which)
        else:
            pc = p_data(rng, y["data"], which, props=y["props"])
        if pc is None:
            continue
        cases.append(mk_case("bounds", "bounds", x, y, o, pc, "top", exp=True if pc == "identical" else None))
    for _ in range(40):
        a, b = rng.choice([1, 3, None, 3]), rng.choice([1, 3, None, 3])
        cases.append(mk_case("axis", "axis", a, b, gen_opts(rng), "identical" if a == b else "size", "top"))
    for _ in range(250 * scale):
        x = gen_cm(rng, ["domainaxis0", "domainaxis1", "domainaxis2"])
        o = gen_opts(rng)
        f = {"isfield": True, "props": [], "data": None, "daxes": None, "axes": [], "cons": [],
             "cms": [["cellmethod0", x]], "crs": []}
        r = p_field(rng, f, rng.choice(["cm_method", "cm_qual", "cm_interval"])) if rng.random() < 0.8 else (f, "identical")
        if r is None:
            continue
        y = r[0]["cms"][0][1]
        cases.append(mk_case("cm", "cm", x, y, o, r[1], "cm", extra=(r[1] == "identical"), exp=True if r[1] == "identical" else None))
        cases.append(mk_case("cm", "cm", y, x, o, r[1], "cm"))
    for _ in range(250 * scale):
        x = gen_cr(rng, ["dimensioncoordinate0", "auxiliarycoordinate0", "dimensioncoordinate1"], ["domainancillary0", "domainancillary1"])
        o = gen_opts(rng)
        f = {"isfield": True, "props": [], "data": None, "daxes": None, "axes": [], "cons": [],
             "cms": [], "crs": [["coordinatereference0", x]]}
        r = p_field(rng, f, rng.choice(["cr_param", "cr_datum", "cr_term"])) if rng.random() < 0.8 else (f, "identical")
        if r is None:
            continue
        y = r[0]["crs"][0][1]
        pc = r[1]
        if pc == "cr_term" and [[t, k is None] for t, k in x["cdas"]] == [[t, k is None] for t, k in y["cdas"]]:
            pc = "cr_term_key_only"     # a standalone comparison cannot see which key is named
        cases.append(mk_case("cr", "cr", x, y, o, pc, "cm", extra=(pc == "identical"), exp=True if pc == "identical" else None))
        cases.append(mk_case("cr", "cr", y, x, o, pc, "cm"))

    # (c) fields and domains
    for _ in range(1100 * scale):
        isfield = rng.random() < 0.8
        x = gen_field(rng, isfield, twin=(rng.random() < 0.06))
        o = gen_opts(rng, loose_p=0.2)
        r = rng.random()
        if r < 0.10:
            cases.append(mk_case("field-identical", "field", x, copy.deepcopy(x), o, "identical", "top", extra=True, exp=True))
        elif r < 0.22:
            cases.append(mk_case("field-renamed", "field", x, rename_keys(x, rng), o, "renamed", "top"))
        elif r < 0.36:
            y = reorder(x, rng)
            cases.append(mk_case("field-reordered", "field", x, y, o, "reordered", "top"))
            cases.append(mk_case("field-reordered", "field", y, x, o, "reordered", "top"))
        elif r < 0.42:
            y = rename_keys(reorder(x, rng), rng)
            cases.append(mk_case("field-renamed-reordered", "field", x, y, o, "reordered", "top"))
        elif r < 0.47:
            y = gen_field(rng, rng.random() < 0.8)
            cases.append(mk_case("field-unrelated", "field", x, y, o, "unrelated", "top"))
        else:
            pr = p_field(rng, x)
            if pr is None:
                continue
            y, pc = pr
            lvl = "fieldprop" if pc.startswith("fprop") else ("nested" if pc.startswith("cons:") else "top")
            if pc.startswith("cons:prop_") and rng.random() < 0.6:
                # ignore_properties of the field does not reach its metadata constructs
                o["ip"] = [pc.split(":")[2]] + (["long_name"] if rng.random() < 0.3 else [])
            if rng.random() < 0.4:
                y = rename_keys(y, rng) if rng.random() < 0.5 else reorder(y, rng)
            cases.append(mk_case("field-perturbed", "field", x, y, o, pc, lvl))
            if rng.random() < 0.5:
                cases.append(mk_case("field-perturbed", "field", y, x, o, pc, lvl))

    # (c2) directed: coordinate references whose coordinate / domain ancillary keys are exchanged
    #      for those of other constructs (same counts, same term names)
    for _ in range(80 * scale):
        for _try in range(30):
            x = gen_field(rng, rng.random() < 0.8)
            ck = [t[0] for t in x["cons"] if t[2]["cls"] in ("dim", "aux")]
            dk = [t[0] for t in x["cons"] if t[2]["cls"] == "domanc"]
            if len(ck) >= 2 and len(dk) >= 2:
                break
        else:
            continue
        byk = {t[0]: lib.canon([t[1], t[2]]) for t in x["cons"]}
        rng.shuffle(ck)
        rng.shuffle(dk)
        if byk[ck[0]] == byk[ck[1]] or byk[dk[0]] == byk[dk[1]]:
            continue
        cr = gen_cr(rng, ck, dk)
        cr["coords"] = [ck[0]] + [k for k in cr["coords"] if k not in (ck[0], ck[1])][:1]
        cr["cdas"] = [["a", dk[0]]] + [t for t in cr["cdas"] if t[0] != "a" and t[1] != dk[1]][:1]
        x["crs"] = [["coordinatereference5", cr]] + x["crs"][:1]
        y = copy.deepcopy(x)
        o = gen_opts(rng, loose_p=0.2)
        if rng.random() < 0.5:
            y["crs"][0][1]["coords"][0] = ck[1]
            pc = "cr_coords"
        else:
            y["crs"][0][1]["cdas"][0][1] = dk[1]
            pc = "cr_term"
        if rng.random() < 0.4:
            y = rename_keys(y, rng) if rng.random() < 0.5 else reorder(y, rng)
        cases.append(mk_case("field-cref-directed", "field", x, y, o, pc, "top"))
        if rng.random() < 0.5:
            cases.append(mk_case("field-cref-directed", "field", y, x, o, pc, "top"))

    # (c3) directed: two axes of equal size, told apart by their dimension coordinates; the axes
    #      spanned by a 2-d construct or by the field's data are exchanged (data unchanged)
    for _ in range(60 * scale):
        n = rng.choice([2, 3])
        x = {"isfield": True, "props": gen_props(rng, "air_temperature"), "data": None, "daxes": None,
             "axes": [["domainaxis0", n], ["domainaxis1", n]], "cons": [], "cms": [], "crs": []}
        x["cons"].append(["dimensioncoordinate0", ["domainaxis0"], gen_cons(rng, "dim", [n], "latitude", simple=True)])
        x["cons"].append(["dimensioncoordinate1", ["domainaxis1"], gen_cons(rng, "dim", [n], "longitude", simple=True)])
        for t in x["cons"]:
            if t[2]["pd"]["data"]["arr"]["dt"] == "U":
                t[2]["pd"]["data"]["arr"]["dt"] = "f8"
        if rng.random() < 0.7:
            x["cons"].append(["auxiliarycoordinate0", ["domainaxis0", "domainaxis1"],
                              gen_cons(rng, "aux", [n, n], "aux_2d", simple=True)])
        if rng.random() < 0.3:
            x["axes"].append(["domainaxis2", rng.choice([1, 2])])
        rng.shuffle(x["cons"])
        x["daxes"] = ["domainaxis0", "domainaxis1"] + (["domainaxis2"] if len(x["axes"]) == 3 else [])
        x["data"] = gen_data(rng, [dict(x["axes"])[a] for a in x["daxes"]], allow_str=False)
        if rng.random() < 0.4:
            x["cms"].append(["cellmethod0", gen_cm(rng, ["domainaxis0", "domainaxis1"])])
        pr = p_field(rng, x, rng.choice(["data_axes_swap", "span_swap"]))
        if pr is None:
            continue
        y, pc = pr
        o = gen_opts(rng, loose_p=0.15)
        if rng.random() < 0.4:
            y = rename_keys(y, rng) if rng.random() < 0.5 else reorder(y, rng)
        cases.append(mk_case("field-axes-directed", "field", x, y, o, pc, "top"))
        cases.append(mk_case("field-axes-directed", "field", y, x, o, pc, "top"))

    # (d) malformed / unusual stream: axes without size, cell methods on axes nothing spans,
    #     too few intervals, other types, non-constructs
    for _ in range(120 * scale):
        x = gen_field(rng, True)
        y = copy.deepcopy(x)
        o = gen_opts(rng)
        r = rng.random()
        if r < 0.3:
            x["axes"].append(["domainaxis70", None])
            if rng.random() < 0.6:
                y["axes"].append(["domainaxis70", rng.choice([None, 2])])
            cases.append(mk_case("malformed-sizeless-axis", "field", x, y, o, "sizeless", "top"))
        elif r < 0.6:
            x["axes"].append(["domainaxis71", 1])
            x["cms"].append(["cellmethod50", {"axes": ["domainaxis71"], "method": "point", "quals": [], "intervals": []}])
            if rng.random() < 0.4:
                # a second axis that nothing spans, of the same or another size, with its own cell method
                x["axes"].append(["domainaxis72", rng.choice([1, 2])])
                x["cms"].append(["cellmethod52", {"axes": rng.choice([["domainaxis72"], ["domainaxis72", "domainaxis71"]]),
                                                  "method": "maximum", "quals": [], "intervals": []}])
            y = rename_keys(x, rng) if rng.random() < 0.7 else copy.deepcopy(x)
            if rng.random() < 0.3:
                y = reorder(y, rng)
            cases.append(mk_case("cm-unspanned-axis", "field", x, y, o, "renamed", "top"))
            cases.append(mk_case("cm-unspanned-axis", "field", y, x, o, "renamed", "top"))
        else:
            ax = [a for a, _ in x["axes"]] + ["area", "foo_axis"]
            if len(ax) < 3:
                continue
            cm = gen_cm(rng, ax)
            nax = rng.choice([2, 3])
            cm["axes"] = ax[:nax]
            ivs = []
            for j in range(rng.choice([n for n in (2, 3, 4) if n != nax])):
                d = gen_data(rng, [], allow_str=False)
                d["arr"]["vals"] = [2 + j]
                d["arr"]["ma"] = False
                ivs.append(d)
            cm["intervals"] = ivs
            x["cms"].append(["cellmethod51", cm])
            y = copy.deepcopy(x)
            which = "identical"
            if rng.random() < 0.4:
                y = rename_keys(y, rng)
                which = "renamed"
            elif rng.random() < 0.3:
                y["cms"][-1][1]["intervals"][-1]["arr"]["vals"][0] += 1000
                which = "cm_interval"
            cases.append(mk_case("malformed-interval-count", "field", x, y, o, which, "top", extra=True))
            cases.append(mk_case("malformed-interval-count", "field", y, x, o, which, "top"))
    # (e) differences below the default tolerances, with zero and default tolerances
    cases += fine_cases(rng, 170 * scale)
    # (e2) ignore_properties in each form naming the property that differs, x ignore_fill_value
    cases += ip_directed_cases(rng, 170 * scale)
    # (e3) bounds that set a property they inherit from their parent (redundant-property rule)
    cases += bounds_inherit_cases(rng, 170 * scale)
    # (f) string data held wider than its longest element (equal: commit 61b774a)
    cases += strwidth_cases(rng, 40 * scale)
    # (g) the field's data moved from a coordinate-less axis to a same-size axis that has a coordinate
    cases += moved_axis_cases(rng, 70 * scale)
    # repeated / reversed sequence on a share of the other kinds too
    for c in cases:
        if not c["seq"] and rng.random() < 0.25:
            c["seq"] = True
    mixed = cross_class_cases(rng, thorough)
    for _ in range(150 * scale):
        kx, ky = rng.sample(["cons", "bounds", "axis", "cm", "cr", "data", "field", "py"], 2)
        if kx == "py":
            kx, ky = ky, kx

        def one(k):
            if k == "cons":
                return gen_cons(rng, rng.choice(list(GCLS)), [3], "latitude")
            if k == "bounds":
                return gen_pd(rng, [3, 2], None)
            if k == "axis":
                return rng.choice([3, None])
            if k == "cm":
                return gen_cm(rng, ["domainaxis0"])
            if k == "cr":
                return gen_cr(rng, ["dimensioncoordinate0"], [])
            if k == "data":
                return gen_data(rng, [3])
            if k == "field":
                return gen_field(rng, rng.random() < 0.7)
            return rng.choice(["str", "none", "int", "list"])
        o = gen_opts(rng)
        o["itype"] = False      # type(self)(source=<non-construct>) is outside the property
        mixed.append({"fam": "other-type", "x": sync_top({"k": kx, "v": one(kx)}), "y": sync_top({"k": ky, "v": one(ky)}),
                      "opts": effective_opts(kx, o), "pclass": "othertype", "level": "top", "extra": False, "exp": None,
                      "seq": rng.random() < 0.5, "fine": False})
    for _ in range(60 * scale):
        # two different construct classes (incl. ignore_type between unrelated classes: totality only)
        a, b = rng.sample(list(GCLS), 2)
        x = gen_cons(rng, a, [3], "latitude")
        y = gen_cons(rng, b, [3], "latitude")
        o = gen_opts(rng)
        mixed.append(mk_case("other-class", "cons", x, y, o, "othertype", "top"))
    return cases, mixed


def dedup_key(c):
    return lib.canon([c["x"], c["y"], c["opts"]])


def code_of(row):
    if row["exc"] is None:
        return 1 if row["r"] else 0
    return EXC_CODE.get(row["exc"], -9)


def near_ok(c):
    return True


def run_impl(cases, nw=12):
    shards = [cases[i::nw] for i in range(nw)]
    res = lib.run_workers_parallel("drive/c05.py", [{"cases": sh} for sh in shards])
    rows = [None] * len(cases)
    crashed = []
    for w, (rc, out, err) in enumerate(res):
        for j, row in enumerate(out):
            if w + j * nw < len(cases):
                rows[w + j * nw] = row
        if rc != 0 or len(out) != len(shards[w]):
            crashed.append((w, rc, err[-600:], len(out)))
    return rows, crashed


def classify(c, row, what):
    """Stable signature of a property failure."""
    v = c["x"]["v"]
    if what == "raises":
        return f"raises:{row['exc']}:{c['fam'].split('-')[0]}"
    if c["x"]["k"] == "field" and (c["pclass"] in ("renamed", "reordered", "identical") or what == "key-order"):
        if has_twin_groups(v):
            return "twin-axes-order"
    return f"{what}:{c['pclass'].split(':')[0] if not c['pclass'].startswith('cons:') else c['pclass']}"


def oracle(chk, c, row):
    """The property itself, judged on the implementation's answer."""
    bad = False
    # totality
    rows = [("", row)] + [(k, row[k]) for k in ("self", "copy", "rev") if k in row]
    seq = row.get("seq")
    if seq:
        rows += [("seq-" + k, seq[k]) for k in ("first", "rev", "again", "xcopy", "ycopy", "rev2") if k in seq]
    for label, r in rows:
        if r["exc"] is not None:
            chk.fail("property", classify(c, r, "raises"),
                     f"equals raised {r['exc']}: {r.get('msg', '')} [{c['fam']}{' ' + label if label else ''}] options {c['opts']}",
                     {"input": c, "observed": r})
            bad = True
    if row.get("loglevel"):
        chk.fail("property", "log-level-leak", f"equals left the log level at {row['loglevel']}", {"input": c, "observed": row})
        bad = True
    if bad:
        return True
    # purity: the same question on the same objects has the same answer, and neither operand changes
    o = c["opts"]
    if seq:
        if seq.get("fperr"):
            chk.fail("correspondence", "fingerprint-error", f"the driver could not fingerprint an operand: {seq['fperr']}",
                     {"correspondence": "drive/c05.py", "input": c})
        if seq["changed"]:
            chk.fail("property", classify(c, row, "impure"),
                     f"equals modified an operand ({', '.join(seq['changed'])}) [{c['fam']} / {c['pclass']}] options {o}",
                     {"input": c, "observed": seq})
            bad = True
        for k in ("first", "again"):
            if seq[k]["r"] != row["r"]:
                chk.fail("property", classify(c, row, "impure"),
                         f"x.equals(y) gave {row['r']}, then {seq[k]['r']} on the same objects ({k}) [{c['fam']} / {c['pclass']}] options {o}",
                         {"input": c, "observed": seq})
                bad = True
        if "rev" in seq and "rev2" in seq and seq["rev"]["r"] != seq["rev2"]["r"]:
            chk.fail("property", classify(c, row, "impure"),
                     f"y.equals(x) gave {seq['rev']['r']}, then {seq['rev2']['r']} on the same objects [{c['fam']} / {c['pclass']}] options {o}",
                     {"input": c, "observed": seq})
            bad = True
        for k in ("xcopy", "ycopy"):
            if k in seq and seq[k]["r"] is not True:
                chk.fail("property", classify(c, row, "copy"),
                         f"after x.equals(y) and y.equals(x), {k[0]}.equals(copy taken beforehand) is {seq[k]['r']} [{c['fam']} / {c['pclass']}] options {o}",
                         {"input": c, "observed": seq})
                bad = True
        if "rev" in seq and "rev" not in row:
            row["rev"] = seq["rev"]
    # reflexivity: itself and its copy
    if "self" in row and row["self"]["r"] is not True:
        chk.fail("property", "not-equal-to-itself", f"x.equals(x) is {row['self']['r']} [{c['fam']}]", {"input": c, "observed": row})
        bad = True
    if "copy" in row and row["copy"]["r"] is not True:
        chk.fail("property", classify(c, row, "copy"), f"x.equals(x.copy()) is {row['copy']['r']} [{c['fam']}] options {c['opts']}",
                 {"input": c, "observed": row})
        bad = True
    # symmetry when no tolerance is in play
    exact = o.get("rtol") == [0, 1] and o.get("atol") == [0, 1]
    crossed = bool(o.get("itype")) and (c["x"]["k"] != c["y"]["k"] or (
        c["x"]["k"] == "cons" and c["x"]["v"]["cls"] != c["y"]["v"]["cls"]
        and not (c["x"]["v"]["cls"] in ("dim", "aux", "domanc") and c["y"]["v"]["cls"] in ("dim", "aux", "domanc")))
        or (c["x"]["k"] == "field" and c["x"]["v"]["isfield"] != c["y"]["v"]["isfield"]))
    if "rev" in row and exact and row["rev"]["r"] != row["r"] and c["x"]["k"] == c["y"]["k"] and crossed:
        chk.fail("property", "asymmetric:ignore_type-across-classes",
                 f"x.equals(y, ignore_type=True)={row['r']} but y.equals(x, ignore_type=True)={row['rev']['r']} "
                 f"with rtol=atol=0 [{c['fam']}]", {"input": c, "observed": row})
        bad = True
    if "rev" in row and exact and row["rev"]["r"] != row["r"] and c["x"]["k"] == c["y"]["k"] and not crossed:
        chk.fail("property", classify(c, row, "asymmetric"), f"x.equals(y)={row['r']} but y.equals(x)={row['rev']['r']} with rtol=atol=0",
                 {"input": c, "observed": row})
        bad = True
    # a demanded answer (perturbation class alone) is demanded in both directions
    if "rev" in row and c["x"]["k"] == c["y"]["k"] and not c["pclass"].startswith("datum_near"):
        c["_rev_r"] = row["rev"]["r"]
    # the answer the perturbation class demands
    pc, lvl = c["pclass"], c["level"]
    if pc.startswith("cons:"):
        pc, lvl = pc[5:], ("bounds" if pc[5:] == "bounds_prop" else "nested")
    elif pc.startswith("fprop_"):
        pc, lvl = pc[1:], "fieldprop"
    elif pc.startswith("fdata:"):
        pc = pc[6:]
    if c.get("exp") is not None:
        exp = c["exp"]
    elif pc in ("unrelated", "othertype", "sizeless", "short-intervals", "corpus", "size", "cr_term_key_only") \
            or pc.startswith("datum_fine"):
        exp = None
    else:
        exp = expected_for(pc, o, lvl)
    if c["pclass"] == "othertype" and not o.get("itype") and c["x"]["k"] != "py":
        exp = False
    if c["pclass"] == "crossclass":
        a, b = c["kinds"]
        exp = None
        if not o.get("itype"):
            if a != b:
                exp = False          # different classes, no conversion asked for
        elif "conv" in row:
            cv = row["conv"]
            if cv["exc"] is None:
                exp = cv["r"]        # the answer of x.equals(type(x)(source=y))
            elif str(cv["exc"]).startswith("CONV:"):
                exp = False          # y can not be converted to the class of x
        if a == b and c.get("same") and c["x"]["k"] not in ("field", "cm", "cr", "axis") and exp is None:
            exp = True
    if c["pclass"] == "size":
        exp = False
    if exp is not None and row["r"] != exp:
        what = "key-order" if c["pclass"] in ("renamed", "reordered") else ("not-discriminated" if exp is False else "ignore-option-not-honoured")
        chk.fail("property", classify(c, row, what),
                 f"{c['fam']} / {c['pclass']}: equals returned {row['r']}, the property demands {exp}; options {o}",
                 {"input": c, "expected": exp, "observed": row["r"]})
        bad = True
    rev_r = c.pop("_rev_r", None)
    if exp is not None and rev_r is not None and rev_r != exp and row["r"] == exp:
        what = "key-order" if c["pclass"] in ("renamed", "reordered") else ("not-discriminated" if exp is False else "ignore-option-not-honoured")
        chk.fail("property", classify(c, row, what),
                 f"{c['fam']} / {c['pclass']}: x.equals(y) is {row['r']} but y.equals(x), on the same objects, returned {rev_r}; "
                 f"the property demands {exp}; options {o}",
                 {"input": c, "expected": exp, "observed": rev_r})
        bad = True
    return bad


def nontrivial(c):
    return c["pclass"] != "identical" or bool(c["opts"])


def run(chk, model_ok):
    cases, mixed = generate(chk)
    seen, uniq = set(), []
    for c in cases:
        k = dedup_key(c)
        if k not in seen:
            seen.add(k)
            uniq.append(c)
    cases = uniq
    allc = cases + mixed
    rows, crashed = run_impl(allc)
    for w, rc, err, n in crashed:
        chk.fail("correspondence", "worker-crash", f"C05 worker {w} ended rc={rc} after {n} cases: {err}",
                 {"correspondence": "drive/c05.py"})
    done = [(c, r) for c, r in zip(allc, rows) if r is not None]
    build_errors = [(c, r) for c, r in done if r["exc"] and str(r["exc"]).startswith("BUILD:")]
    done = [(c, r) for c, r in done if not (r["exc"] and str(r["exc"]).startswith("BUILD:"))]
    if len(build_errors) > max(20, len(allc) // 25):
        c, r = build_errors[0]
        chk.fail("correspondence", "build-errors", f"{len(build_errors)} descriptions were refused by the public API, e.g. {r}",
                 {"correspondence": "drive/c05.py", "input": c})

    explained = set()
    for i, (c, r) in enumerate(done):
        if oracle(chk, c, r):
            explained.add(i)

    ncorr = 0
    if model_ok:
        idx = [i for i, (c, r) in enumerate(done) if c["x"]["k"] not in NOMODEL and c["y"]["k"] not in NOMODEL]
        lits = []
        for i in idx:
            c, r = done[i]
            _S[0] = FINE if c.get("fine") else 1
            lits.append(f"({g_opts(c['opts'])}, {g_top(c['x'])}, {g_top(c['y'])}, {gz(code_of(r))})")
            _S[0] = 1
        bad = lib.coq_bad_indices("C05", REQ, "check_case", lits, chunk=250)
        ncorr = len(lits)
        shown = 0
        for b in bad:
            i = idx[b]
            if i in explained:
                continue
            c, r = done[i]
            shown += 1
            if shown > 40:
                break
            chk.fail("correspondence", "model-vs-impl",
                     f"model and implementation disagree: {c['fam']} / {c['pclass']} options {c['opts']}: implementation {r['r'] if r['exc'] is None else r['exc']}",
                     {"correspondence": "C05.Run.check_case", "input": c, "observed": r})

    fam, pcl, outcomes, kinds = {}, {}, {}, {}
    optuse = {}
    for c, r in done:
        fam[c["fam"]] = fam.get(c["fam"], 0) + 1
        p = c["pclass"].split(":")[0] if not c["pclass"].startswith("cons:") else "cons:" + c["pclass"].split(":")[1]
        pcl[p] = pcl.get(p, 0) + 1
        k = "True" if r["r"] is True else "False" if r["r"] is False else str(r["exc"])
        outcomes[k] = outcomes.get(k, 0) + 1
        kinds[c["x"]["k"]] = kinds.get(c["x"]["k"], 0) + 1
        for kk in c["opts"]:
            optuse[kk] = optuse.get(kk, 0) + 1
    nextra = sum(1 for c, r in done if "copy" in r)
    nseq = sum(1 for c, r in done if r.get("seq"))
    distinct = {dedup_key(c) for c, r in done if nontrivial(c)}
    chk.coverage.update({
        "evaluations": len(done) + 3 * nextra + 6 * nseq,
        "distinct_nontrivial": len(distinct),
        "rule": "a case is a pair of abstract construct descriptions plus an option set; non-trivial = the two "
                "descriptions differ (a perturbation, renaming, reordering, other construct) or at least one option "
                "is not the default; distinct = distinct canonical JSON of (x, y, options)",
        "samples": [{"fam": c["fam"], "pclass": c["pclass"], "opts": c["opts"], "kind": c["x"]["k"]}
                    for c, r in (done[20], done[len(done) // 2], done[-1])],
        "traces_validated_against_impl": ncorr,
        "disagreements_checked": ncorr,
        "families": fam,
        "perturbation_classes": pcl,
        "outcomes": outcomes,
        "operand_kinds": kinds,
        "option_use": optuse,
        "descriptions_refused_by_api": len(build_errors),
        "self_copy_reverse_calls": nextra,
        "purity_sequences": nseq,
        "exhaustive": False,
        "historical_refutations": "C05/Refuted.v: witnesses against equals as it was before C05-fix-1..5 (F05a, F05b, F05c, F05d, F05e, F05g, F05h)",
    })
    chk.assumptions += [
        "numbers are integers (exactly representable in every dtype used); NaN and infinities are outside the model",
        "tolerances are non-negative; verbose is one of None, -1, 0, 1, 2, 3 (an invalid verbose raises ValueError by design)",
        "operands are built through the public API; `other` is a cfdm construct or component unless ignore_type is False",
        "ignore_type=True between classes outside {DimensionCoordinate, AuxiliaryCoordinate, DomainAncillary} is checked for totality only (the conversion type(self)(source=other) is not modelled)",
        "fingerprints of both operands (all properties, data, masks, axes, keys, cell methods, coordinate references) are "
        "taken before and after every call of a purity sequence; equals is demanded to change nothing",
        "sub-epsilon cases: the model sees every number and atol multiplied by 2**60 (exact integers)",
        "the set iteration orders of Constructs._array_constructs / _non_array_constructs do not influence the repaired code",
    ]


def replay(chk, path):
    d = json.load(open(path))
    cases = [x["input"] for x in d.get("cases", []) if isinstance(x.get("input"), dict) and "x" in x["input"]]
    rc, out, err = lib.run_worker("drive/c05.py", {"cases": cases})
    bad = 0
    for c, r in zip(cases, out):
        before = len(chk.failures)
        oracle(chk, c, r)
        failed = len(chk.failures) > before
        print(("FAIL " if failed else "ok   ") + f"{c['fam']} / {c['pclass']} options {c['opts']} -> "
              f"{r['r'] if r['exc'] is None else r['exc']}")
        bad += failed
    return 1 if bad else 0
