"""Dev tool: regenerate known_findings.d/FIXED.json - one 'fixed' entry per `fix:` commit in /repo
(fixed entries suppress nothing; they are the record the brief asks for:
 "fixed: property=<id> <commit> <what failed>").  The property of each commit is given by PROPS below
(ranges over the chronological list of fix: commits) and by explicit overrides for later commits."""
import json
import subprocess

RANGES = [(75, 76, "C04"), (1, 1, "C20"), (2, 2, "C01"), (3, 8, "C03"), (9, 15, "C18"), (16, 16, "C03"), (17, 19, "C06"),
          (20, 25, "C08"), (26, 26, "C16"), (27, 29, "C01"), (30, 35, "C19"), (36, 37, "C09"), (38, 39, "C02"),
          (40, 44, "C05"), (45, 48, "C17"), (49, 51, "C15"), (52, 58, "C13"), (59, 61, "C14"), (62, 67, "C07"),
          (68, 68, "C10"), (69, 70, "C12"), (71, 74, "C11")]
LATER = {"bc0e6b4": "C13", "778c0ec": "C13", "2fc18bc": "C13", "d39c4f5": "C13", "64a734b": "C05", "6d5ca68": "C05", "c06ea91": "C06", "41907f0": "C06", "4a960b2": "C06", "f4d01d1": "C06", "7e73fbc": "C19", "94ef16e": "C19", "b532a8a": "C19", "88b3625": "C19", "e9084df": "C19", "e3b8834": "C19", "2126606": "C01", "06ba064": "C01", "0f14d67": "C01", "fa10a61": "C01", "a00dfdc": "C01", "de4431b": "C01", "0a2c931": "C01", "32b7c9f": "C01", "c07ad3c": "C01", "7f76515": "C01", "5dc6758": "C01", "578b64c": "C01", "38d4507": "C01", "7dfe561": "C01", "5e8d24a": "C01", "9dc2c96": "C07", "1ab1793": "C07", "7ddab60": "C07", "0752c41": "C07", "1c79b1c": "C17", "b49d869": "C10", "8206bdf": "C10", "be6478f": "C10", "5ca920f": "C15", "67eca47": "C15", "b240915": "C01", "a6b4a67": "C01", "c147c03": "C01", "e59b7d3": "C01", "c9385af": "C13", "79798c2": "C12", "08ad906": "C12", "3e446d7": "C11", "cbe0f54": "C11", "6f57f69": "C09", "2744242": "C09", "c3f0f59": "C09", "0dbcc6d": "C18", "5352bc9": "C18", "5f54e15": "C17", "f80b6ae": "C17", "b974fb5": "C17", "9981e47": "C17", "422d0d6": "C16", "91e9747": "C13", "1e59207": "C13", "9c55a1a": "C13", "27c43f0": "C13", "1f1d6c7": "C13", "9da85e9": "C13", "783a4d7": "C13", "69172d6": "C13", "f06acf1": "C13", "cd41eee": "C13", "5665a8b": "C13", "9b4cf66": "C13", "8d03027": "C01", "6a7688f": "C02", "0554e88": "C07", "89f698d": "C07", "e7327dc": "C14", "e199403": "C14", "6f6e1b5": "C14", "ab1d7cd": "C11", "1d2c42f": "C11", "729b5c6": "C11", "2e7160d": "C11", "bf35377": "C13", "48e1fc0": "C06", "646889f": "C15", "eeb32a8": "C13", "f336e6e": "C13", "f168d39": "C08", "915554d": "C08", "73a96ee": "C08", "4176857": "C01", "c807209": "C01", "5c1e0bb": "C05", "53a105a": "C04", "951f0bd": "C05", "f6be160": "C05", "eecd7d3": "C05"}  # commit-hash-prefix -> property, for fix: commits after the 74th


def prop_of(i, h):
    for a, b, p in RANGES:
        if a <= i <= b:
            return p
    for k, p in LATER.items():
        if h.startswith(k):
            return p
    return "C??"


def main():
    out = subprocess.run(["git", "-C", "/repo", "log", "--reverse", "--format=%h\t%s", "86e77c1..HEAD"],
                         capture_output=True, text=True).stdout.strip().splitlines()
    findings = []
    for i, line in enumerate(out, 1):
        h, s = line.split("\t", 1)
        if not s.startswith("fix:"):
            continue
        p = prop_of(i, h)
        what = s[len("fix:"):].strip()
        findings.append({"property": p, "signature": f"fixed:{h}", "status": "fixed", "commit": h,
                         "what_fails": what,
                         "record": f"fixed: property={p} {h} {what}"})
    json.dump({"format": "one entry per fix: commit in /repo; fixed entries suppress nothing",
               "findings": findings}, open("/verif/known_findings.d/FIXED.json", "w"), indent=1)
    print(len(findings), "fixed entries;", sum(1 for f in findings if f["property"] == "C??"), "unassigned")


main()
