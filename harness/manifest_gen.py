"""Regenerate /verif/MANIFEST.json from the table below (run by hand after a
property's check is built; never at check time)."""
import json

CLAIMED = {
    "C20": {
        "text": "Coq theorems (C20/Props.v) prove, for every nesting of decorated calls, context managers and raises and "
                "every verbose value, that the model of the settings code restores the observable state; the model is tied "
                "to /repo on every run by replaying ~8000 generated call trees/blocks on the real decorator, setters and "
                "context managers and comparing final state and outcome inside Coq (vm_compute), the level table being "
                "regenerated from cfdm.constants; every really decorated cfdm function is found by reflection and called.",
        "note": "Guard of C20_verbose_scoped: not (LOG_LEVEL=DISABLE and outermost verbose=0) - open known finding F20c, refuted "
                "without the guard. Trusted: Coq kernel+VM, harness/drive/c20.py, harness/props/c20.py, harness/tables.py. "
                "Thread interleavings of the counter are not modelled.",
        "technique": "Coq proof (induction over call trees / blocks) + vm_compute correspondence with the implementation",
        "design": "DESIGN.md section 4, C20",
    },
}

CLAIMED["C03"] = {
    "text": "Coq theorems (C03/Props.v): Python/dask slice semantics select only valid positions and agree with the slice "
            "written by the user (exact guard for the open dask defect), a parsed index expression has one index per axis, "
            "orthogonal selection is independent of the order in which axes are applied (all ranks, shapes, selections), the "
            "pairwise strided-slice decomposition used by assignment stores exactly the sequential last-wins program for every "
            "in-range list, and field subspacing dices exactly the constructs that span a data axis with that axis's index. "
            "Tied to /repo on every run: ~8000 generated get/set/bounds/field cases (memory, netCDF4, h5netcdf, ragged sources) "
            "run on the real code, compared inside Coq with the model (vm_compute) and against numpy as the independent oracle.",
    "note": "n-d assignment: the model's decomposition is compared with the reference semantics case by case inside Coq "
            "(check_set), the unbounded theorem is per list axis (C03_pair_chunks). Open findings: negative-step slice starting "
            "below -n (dask normalize_slice), zero-size shapes from netCDF4-python with empty sequence indices. Values are int64 "
            "and the masked constant; numpy basic slicing, netCDF4/h5py hyperslab reads and dask's normalize_index are trusted.",
    "technique": "Coq proof (induction over lists / permutations / array depth) + vm_compute correspondence + numpy oracle",
    "design": "DESIGN.md section 4, C03",
}

REASON_PENDING = "check not built yet (work in progress; DESIGN.md section 8 staging)"


def main():
    props = [json.loads(l) for l in open("/verif/properties.jsonl")]
    checks = []
    na = []
    for p in props:
        pid = p["id"]
        if pid in CLAIMED:
            c = CLAIMED[pid]
            checks.append({
                "property_id": pid,
                "quick_cmd": f"bin/check {pid} --tier quick",
                "thorough_cmd": f"bin/check {pid} --tier thorough",
                "evidence_file": f"/verif/evidence/{pid}.json",
                "replay_cmd_template": f"bin/check {pid} --replay {{path}}",
                "engine": "coq-proof+correspondence",
                "level_claimed": {"category": "proof", "text": c["text"], "design_ref": c["design"]},
                "level_note": c["note"],
                "technique": c["technique"],
            })
        else:
            na.append({"property_id": pid, "reason": REASON_PENDING})
    m = {
        "version": 1,
        "setup_cmd": "bin/setup",
        "hooks": {
            "guard": "NCAS_CMS_CFDM_VERIF",
            "enable": "no hooks in /repo are needed: checks import cfdm from /repo (PYTHONPATH=/repo) and instrument it from the harness side",
            "baseline_off_cmd": "cd /repo && /venv/bin/python -m pytest -ra -q -p no:cacheprovider --timeout=900 --continue-on-collection-errors",
            "source_commits": [],
            "add_only": True,
        },
        "engines": [{
            "name": "coq-proof+correspondence", "path": "bin/check",
            "serves_properties": sorted(CLAIMED),
            "kind_free_text": "Coq 8.16.1 theorems about hand-written Gallina models (coq/theories/Cnn); per-run correspondence of each "
                              "model with /repo through generated cases evaluated by vm_compute; tables regenerated from /repo",
        }],
        "checks": checks,
        "notes": "See DESIGN.md. known_findings.json lists open findings (KNOWN-FINDING lines) and fixed ones (fix: commits in /repo).",
        "not_applicable": na,
    }
    json.dump(m, open("/verif/MANIFEST.json", "w"), indent=1)
    print(len(checks), "checks,", len(na), "not_applicable")


main()
