"""Regenerate /verif/MANIFEST.json from harness/claimed.json (run by hand after a
property's check is integrated; never at check time)."""
import json
import os

HERE = os.path.dirname(os.path.abspath(__file__))
CLAIMED = json.load(open(os.path.join(HERE, "claimed.json")))

REASON_PENDING = "check not built yet (work in progress; DESIGN.md section 8 staging)"


def main():
    props = [json.loads(l) for l in open("/verif/properties.jsonl")]
    checks = []
    na = []
    for p in props:
        pid = p["id"]
        if pid in CLAIMED:
            c = CLAIMED[pid]
            checks.append({
                "property_id": pid,
                "quick_cmd": f"bin/check {pid} --tier quick",
                "thorough_cmd": f"bin/check {pid} --tier thorough",
                "evidence_file": f"/verif/evidence/{pid}.json",
                "replay_cmd_template": f"bin/check {pid} --replay {{path}}",
                "engine": "coq-proof+correspondence",
                "level_claimed": {"category": "proof", "text": c["text"], "design_ref": c["design"]},
                "level_note": c["note"],
                "technique": c["technique"],
            })
        else:
            na.append({"property_id": pid, "reason": REASON_PENDING})
    m = {
        "version": 1,
        "setup_cmd": "bin/setup",
        "hooks": {
            "guard": "NCAS_CMS_CFDM_VERIF",
            "enable": "no hooks in /repo are needed: checks import cfdm from /repo (PYTHONPATH=/repo) and instrument it from the harness side",
            "baseline_off_cmd": "cd /repo && /venv/bin/python -m pytest -ra -q -p no:cacheprovider --timeout=900 --continue-on-collection-errors",
            "source_commits": [],
            "add_only": True,
        },
        "engines": [{
            "name": "coq-proof+correspondence", "path": "bin/check",
            "serves_properties": sorted(CLAIMED),
            "kind_free_text": "Coq 8.16.1 theorems about hand-written Gallina models (coq/theories/Cnn); per-run correspondence of each "
                              "model with /repo through generated cases evaluated by vm_compute; tables regenerated from /repo",
        }],
        "checks": checks,
        "notes": "See DESIGN.md. known_findings.json lists open findings (KNOWN-FINDING lines) and fixed ones (fix: commits in /repo).",
        "not_applicable": na,
    }
    json.dump(m, open("/verif/MANIFEST.json", "w"), indent=1)
    print(len(checks), "checks,", len(na), "not_applicable")


main()
