"""C07 tables: the default netCDF fill value netcdf_indexer assumes for each
numeric data type, and the integer ranges of those types (DESIGN.md 2.3)."""


def gz(i):
    i = int(i)
    return f"({i})" if i < 0 else f"{i}"


def gstr(s):
    return '"' + s + '"%string'


def tables():
    import numpy as np

    import cfdm

    ind = cfdm.netcdf_indexer(np.zeros(1))
    tags = ["i1", "i2", "i4", "i8", "u1", "u2", "u4", "u8", "f4", "f8"]
    fills = []
    ranges = []
    for t in tags:
        dtype = np.dtype(t)
        v = ind._default_FillValue(dtype)
        if dtype.kind == "f":
            v = float(np.array(v, dtype))
            assert v.is_integer()
        fills.append(f"({gstr(t)}, {gz(int(v))})")
        if dtype.kind in "iu":
            ii = np.iinfo(dtype)
            ranges.append(f"({gstr(t)}, ({gz(ii.min)}, {gz(ii.max)}))")
    body = (
        "Definition nc_default_fillvals : list (string * Z) :=\n  [" + ";\n   ".join(fills) + "].\n"
        "Definition np_int_ranges : list (string * (Z * Z)) :=\n  [" + ";\n   ".join(ranges) + "].\n"
    )
    return {"NcFill.v": body}
