"""C18 tables: which construct types can hold data / properties / netCDF names,
re-extracted from the cfdm classes on every run (DESIGN.md 2.3)."""


def gstr(s):
    return '"' + s.replace('"', '""') + '"%string'


def glist(xs):
    return "[" + "; ".join(gstr(x) for x in xs) + "]"


def tables():
    import cfdm

    classes = {
        "auxiliary_coordinate": cfdm.AuxiliaryCoordinate,
        "cell_connectivity": cfdm.CellConnectivity,
        "cell_measure": cfdm.CellMeasure,
        "cell_method": cfdm.CellMethod,
        "coordinate_reference": cfdm.CoordinateReference,
        "dimension_coordinate": cfdm.DimensionCoordinate,
        "domain_ancillary": cfdm.DomainAncillary,
        "domain_axis": cfdm.DomainAxis,
        "domain_topology": cfdm.DomainTopology,
        "field_ancillary": cfdm.FieldAncillary,
    }
    c = cfdm.Field().constructs
    arr = sorted(c._array_constructs)
    nonarr = sorted(c._non_array_constructs)
    assert sorted(arr + nonarr) == sorted(classes), (arr, nonarr)

    def having(attr):
        return sorted(t for t, k in classes.items() if hasattr(k, attr))

    body = (
        f"Definition array_construct_types : list string :=\n  {glist(arr)}.\n"
        f"Definition non_array_construct_types : list string :=\n  {glist(nonarr)}.\n"
        f"Definition types_with_properties : list string :=\n  {glist(having('get_property'))}.\n"
        f"Definition types_with_ncvar : list string :=\n  {glist(having('nc_get_variable'))}.\n"
        f"Definition types_with_ncdim : list string :=\n  {glist(having('nc_get_dimension'))}.\n"
        f"Definition types_with_bounds : list string :=\n  {glist(having('get_bounds'))}.\n"
    )
    return {"ConstructKinds.v": body}
