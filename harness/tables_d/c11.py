"""C11 tables: the flattener's rules table, separators and name-length limit,
re-extracted from cfdm/read_write/netcdf/flatten/config.py on every run
(DESIGN.md 2.3)."""


def gstr(s):
    assert all(32 <= ord(c) < 127 for c in s), s
    return '"' + s.replace('"', '""') + '"%string'


def gb(b):
    return "true" if b else "false"


def tables():
    from cfdm.read_write.netcdf.flatten import config as c

    rows = []
    for name, r in c.flattening_rules.items():
        assert name == r.name
        for v in (r.ref_to_dim, r.ref_to_var):
            assert isinstance(v, int) and 0 <= v < 1000
        rows.append(
            f"  ({gstr(name)}, ({r.ref_to_dim}%nat, {r.ref_to_var}%nat, {gb(r.resolve_key)}, "
            f"{gb(r.resolve_value)}, {gb(r.stop_at_local_apex)}, {gb(r.accept_standard_names)}, "
            f"{gb(r.limit_to_scalar_coordinates)}))"
        )
    body = (
        "(* name, (ref_to_dim, ref_to_var, resolve_key, resolve_value, stop_at_local_apex,\n"
        "   accept_standard_names, limit_to_scalar_coordinates) *)\n"
        "Definition flattening_rules_table : list (string * (nat * nat * bool * bool * bool * bool * bool)) :=\n [\n"
        + ";\n".join(rows)
        + "\n ].\n"
        f"Definition cfg_max_name_len : nat := {int(c.max_name_len)}%nat.\n"
        f"Definition cfg_group_separator : string := {gstr(c.group_separator)}.\n"
        f"Definition cfg_flattener_separator : string := {gstr(c.flattener_separator)}.\n"
        f"Definition cfg_ref_not_found_error : string := {gstr(c.ref_not_found_error)}.\n"
    )
    return {"FlattenRules.v": body}
