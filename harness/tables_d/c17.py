"""C17 tables, re-extracted from the tree under test on every run: the
description-of-file-contents attributes (global by default) and the properties
a bounds variable leaves to its parent coordinate."""
import ast
import inspect


def gstr(s):
    return '"' + s.replace('"', '""') + '"%string'


def glist(xs):
    return "[" + "; ".join(gstr(x) for x in xs) + "]"


def tables():
    import cfdm
    from cfdm.read_write.netcdf import NetCDFWrite

    w = NetCDFWrite(cfdm.implementation())
    dofc = sorted(w.cf_description_of_file_contents_attributes())
    omit = None
    tree = ast.parse(inspect.getsource(inspect.getmodule(NetCDFWrite)))
    for node in ast.walk(tree):
        if isinstance(node, ast.Dict):
            for k, v in zip(node.keys, node.values):
                if isinstance(k, ast.Constant) and k.value == "omit_bounds_properties":
                    omit = [e.value for e in v.elts]
    if omit is None:
        raise RuntimeError("omit_bounds_properties not found in netcdfwrite.py")
    body = (
        f"Definition c17_description_attrs : list string :=\n  {glist(dofc)}.\n"
        f"Definition c17_omit_bounds_props : list string :=\n  {glist(omit)}.\n"
        f"Definition c17_cf_version : string := {gstr(str(cfdm.CF()))}.\n"
    )
    return {"AppendConstants.v": body}
