"""C08 tables: constants of the netCDF writer, re-extracted from /repo on every
run (DESIGN.md 2.3): the description-of-file-contents attributes that are
global by default, the CF version that heads the Conventions attribute, and the
properties that bounds variables inherit from their parent."""


def gstr(s):
    return '"' + s.replace('"', '""') + '"%string'


def glist(xs):
    return "[" + "; ".join(gstr(x) for x in xs) + "]"


def tables():
    import cfdm
    from cfdm.read_write.netcdf import NetCDFWrite

    w = NetCDFWrite(cfdm.implementation())
    dofc = list(w.cf_description_of_file_contents_attributes())
    version = str(w.implementation.get_cf_version())
    body = (
        f"Definition c08_dofc : list string :=\n  {glist(dofc)}.\n"
        f"Definition c08_cf_version : string := {gstr(version)}.\n"
    )
    return {"WriterConstants.v": body}
