"""C12 tables, regenerated from the tree under test on every build:

* numpy.promote_types on the ten numeric netCDF types;
* what cfdm's netcdf_indexer does to an array of every one of these types under every
  combination of _Unsigned, scale_factor (any type; one / not one) and add_offset (any
  type; zero / not zero): the data type of the array it returns (for an EMPTY array - which
  is how NetCDFRead._create_netcdfarray finds the type it declares - and for an array with
  elements, which must agree) and the unpacked values of two sample elements.

C12/Lemmas.v sweeps both tables against the Gallina definitions `promote`, `realised_dt`
and `unpack_z` (vm_compute + forallb_forall)."""

TAGS = ["i1", "i2", "i4", "i8", "u1", "u2", "u4", "u8", "f4", "f8"]


def gz(i):
    i = int(i)
    return f"({i})" if i < 0 else f"{i}"


def gb(b):
    return "true" if b else "false"


def gattr(a):
    return "None" if a is None else f"(Some ({a[0]}, {gz(a[1])}))"


def tables():
    import numpy as np

    import cfdm

    code = {t: k for k, t in enumerate(TAGS)}
    prom = []
    for a in TAGS:
        for b in TAGS:
            prom.append(f"({code[a]}, {code[b]}, {code[np.promote_types(a, b).str[1:]]})")
    rows = []
    scales = [None] + [(t, s) for t in TAGS for s in (1, 3)]
    offsets = [None] + [(t, a) for t in TAGS for a in (0, 7)]
    for v in TAGS:
        # values are tabulated where every intermediate result is exact
        for uns in (False, True):
            raw = []
            if int(v[1]) <= 4:
                # (2**32 - 3 is not a float32: no negative sample for a 32-bit unsigned view)
                raw = [3, 2] if v[0] == "u" or (uns and v == "i4") else [-3, 2]
            for sf in scales:
                for ao in offsets:
                    attrs = {}
                    if uns:
                        attrs["_Unsigned"] = "true"
                    if sf:
                        attrs["scale_factor"] = np.array(sf[1], dtype=sf[0])[()]
                    if ao:
                        attrs["add_offset"] = np.array(ao[1], dtype=ao[0])[()]
                    e = cfdm.netcdf_indexer(np.empty((0,), dtype=v), mask=False, unpack=True,
                                            attributes=attrs)[...]
                    got = e.dtype.str[1:]
                    vals = []
                    if raw:
                        with np.errstate(all="ignore"):
                            r = cfdm.netcdf_indexer(np.array(raw, dtype=v), mask=True, unpack=True,
                                                    attributes=attrs)[...]
                        if r.dtype.str[1:] != got or np.ma.is_masked(r):
                            got = "f8" if got != "f8" else "i1"    # makes the sweep fail: types must agree
                        for x in np.asarray(r).tolist():
                            if not isinstance(x, int) and not float(x).is_integer():
                                raise ValueError(f"non-integral unpacked value {v} {attrs} {r!r}")
                            vals.append(int(x))
                    rows.append(
                        f"({code[v]}, {gb(uns)}, {gattr(sf and (code[sf[0]], sf[1]))}, "
                        f"{gattr(ao and (code[ao[0]], ao[1]))}, {code[got]}, "
                        f"[{'; '.join(gz(x) for x in raw)}], [{'; '.join(gz(x) for x in vals)}])")
    body = (
        "(* type codes: " + ", ".join(f"{k}={t}" for t, k in code.items()) + " *)\n"
        "Definition numpy_promote_table : list (Z * Z * Z) :=\n  [" + ";\n   ".join(prom) + "].\n"
        "(* variable type, _Unsigned, scale_factor (type, value), add_offset (type, value),\n"
        "   type of the array netcdf_indexer returns, sample stored values, their unpacked values *)\n"
        "Definition indexer_unpack_table : list (Z * bool * option (Z * Z) * option (Z * Z) * Z * list Z * list Z) :=\n  ["
        + ";\n   ".join(rows) + "].\n"
    )
    return {"C12Unpack.v": body}
