(* C12 - proofs. *)
From CfdmV Require Import Common.Base Common.PySlice C03.Model C03.Lemmas C12.Model C12.Spec Tables.C12Unpack.
Open Scope Z_scope.

Ltac splits := repeat match goal with |- _ /\ _ => split end.

(* ------------------------------------------------------------------------- *)
(* traces                                                                      *)
(* ------------------------------------------------------------------------- *)
Lemma scan_app t1 t2 o :
  scan o (t1 ++ t2) = match scan o t1 with Some o' => scan o' t2 | None => None end.
Proof.
  revert o; induction t1 as [|e r IH]; intros o; simpl; [reflexivity|].
  destruct e as [f|f v p|f]; simpl.
  - apply IH.
  - destruct (existsb (Z.eqb f) o); [apply IH|reflexivity].
  - destruct (remove_one f o); [apply IH|reflexivity].
Qed.

Lemma fetches_app t1 t2 : fetches (t1 ++ t2) = fetches t1 ++ fetches t2.
Proof.
  induction t1 as [|e r IH]; simpl; [reflexivity|].
  destruct e; simpl; rewrite ?IH; reflexivity.
Qed.

Lemma scan_open_close f o : scan o [EOpen f; EClose f] = Some o.
Proof. simpl. rewrite Z.eqb_refl. reflexivity. Qed.

Lemma scan_open_fetch_close f v p o : scan o [EOpen f; EFetch f v p; EClose f] = Some o.
Proof. simpl. rewrite Z.eqb_refl. simpl. reflexivity. Qed.

Lemma fa_get_scan C dk f v sh fl ps o :
  c_close_on_error C = true -> scan o (snd (fa_get C dk f v sh fl ps)) = Some o.
Proof.
  intros Hc. unfold fa_get. destruct (dk f v) as [a|]; [|reflexivity].
  destruct (positions_all sh ps) as [poss|e]; cbn [snd].
  - apply scan_open_fetch_close.
  - rewrite Hc. apply scan_open_close.
Qed.

Lemma sub_scan C dk c idx o :
  c_close_on_error C = true -> scan o (snd (sub C dk c idx)) = Some o.
Proof.
  intros Hc. destruct c as [f v sh d fl|sh d a]; simpl; [|reflexivity].
  destruct (parse_indices sh idx) as [ps|e]; [|reflexivity].
  pose proof (fa_get_scan C dk f v sh fl ps o Hc) as H.
  destruct (fa_get C dk f v sh fl ps) as [r t]. exact H.
Qed.

Lemma realise_scan C dk c o :
  c_close_on_error C = true -> scan o (snd (realise C dk c)) = Some o.
Proof.
  intros Hc. destruct c as [f v sh d fl|sh d a]; simpl; [|reflexivity].
  pose proof (fa_get_scan C dk f v sh fl (full_ps sh) o Hc) as H.
  destruct (fa_get C dk f v sh fl (full_ps sh)) as [r t]. exact H.
Qed.

Definition step_trace (C : cfg) (dk : disk) (h : list cell) (o : op) : trace :=
  snd (step C dk h o).

Lemma step_scan C dk h op o :
  c_close_on_error C = true -> scan o (snd (step C dk h op)) = Some o.
Proof.
  intros Hc. destruct op as [i|i idx|i|i|i idx v|i|i j]; simpl.
  - destruct (nth_error h i); reflexivity.
  - destruct (nth_error h i) as [c|]; [|reflexivity].
    pose proof (sub_scan C dk c idx o Hc) as H.
    destruct (sub C dk c idx) as [[c'|e] t]; exact H.
  - destruct (nth_error h i) as [c|]; [|reflexivity].
    pose proof (realise_scan C dk c o Hc) as H.
    destruct (realise C dk c) as [[[d a]|e] t]; exact H.
  - destruct (nth_error h i) as [c|]; [|reflexivity].
    pose proof (realise_scan C dk c o Hc) as H.
    destruct (realise C dk c) as [[[d a]|e] t]; exact H.
  - destruct (nth_error h i) as [c|]; [|reflexivity].
    destruct (parse_indices (cshape c) idx) as [ps0|e0]; [|reflexivity].
    pose proof (realise_scan C dk c o Hc) as H.
    destruct (realise C dk c) as [[[d a]|e] t]; [|exact H].
    destruct (setitem _ _ _ _ _); exact H.
  - destruct (nth_error h i) as [c|]; [|reflexivity].
    pose proof (sub_scan C dk c (map (fun _ => ISlice (Some 0) (Some 1) (Some 1)) (cshape c)) o Hc) as H.
    destruct (sub C dk c _) as [[c'|e] t]; [|exact H].
    destruct c' as [? ? ? ? ?|? ? a]; [exact H|]. destruct (flatten a) as [|x [|y r]]; exact H.
  - destruct (nth_error h i) as [c1|]; [|reflexivity].
    destruct (nth_error h j) as [c2|]; [|reflexivity].
    destruct (Nat.eqb i j); [reflexivity|].
    destruct (negb _); [reflexivity|].
    destruct (negb _); [reflexivity|].
    pose proof (realise_scan C dk c1 o Hc) as H1.
    destruct (realise C dk c1) as [[[d1 a1]|e1] t1]; [|exact H1].
    pose proof (realise_scan C dk c2 o Hc) as H2.
    destruct (realise C dk c2) as [[[d2 a2]|e2] t2]; cbn [snd] in *;
      rewrite scan_app, H1; exact H2.
Qed.

(* every operation of every history leaves no file open *)
Lemma run_balanced C dk h ops :
  c_close_on_error C = true ->
  Forall (fun ot => balanced (snd ot)) (run C dk h ops) /\
  balanced (concat (map snd (run C dk h ops))).
Proof.
  intros Hc. revert h. induction ops as [|o r IH]; intros h; simpl.
  - split; [constructor|reflexivity].
  - pose proof (step_scan C dk h o [] Hc) as Hs.
    destruct (step C dk h o) as [[h' ob] t]. cbn [snd] in Hs.
    destruct (IH h') as [IH1 IH2]. split.
    + constructor; [exact Hs|exact IH1].
    + simpl. unfold balanced. rewrite scan_app, Hs. exact IH2.
Qed.

(* ------------------------------------------------------------------------- *)
(* selecting everything is the identity                                        *)
(* ------------------------------------------------------------------------- *)
Lemma map_nth_seq {A} (l : list A) d : map (fun i => nth i l d) (seq 0 (length l)) = l.
Proof.
  induction l as [|x r IH]; simpl; [reflexivity|].
  f_equal. rewrite <- seq_shift, map_map. exact IH.
Qed.

Lemma take_full sh a d :
  shaped sh a -> (d < length sh)%nat -> take d (seq 0 (nth d sh 0%nat)) a = a.
Proof.
  revert a d. induction sh as [|n sh IH]; intros a d Hs Hd; [simpl in Hd; lia|].
  destruct a as [v|l]; [simpl in Hs; contradiction|]. simpl in Hs. destruct Hs as [Hl Hf].
  destruct d as [|d]; simpl.
  - subst n. rewrite map_nth_seq. reflexivity.
  - f_equal. rewrite <- (map_id l) at 2. apply map_ext_in. intros x Hx.
    rewrite Forall_forall in Hf. apply IH; [apply Hf; exact Hx|simpl in Hd; lia].
Qed.

Lemma take_all_id ops a :
  (forall op, In op ops -> take (fst op) (snd op) a = a) -> take_all ops a = a.
Proof.
  unfold take_all. induction ops as [|op r IH]; intros H; simpl; [reflexivity|].
  rewrite (H op (or_introl eq_refl)). apply IH. intros op' Hin. apply H. right. exact Hin.
Qed.

Lemma in_combine_seq {A} (l : list A) k d p :
  In (d, p) (combine (seq k (length l)) l) -> (k <= d)%nat /\ nth_error l (d - k) = Some p.
Proof.
  revert k. induction l as [|x r IH]; intros k H; simpl in H; [contradiction|].
  destruct H as [H|H].
  - inversion H; subst. split; [lia|]. replace (d - d)%nat with 0%nat by lia. reflexivity.
  - apply IH in H. destruct H as [H1 H2]. split; [lia|].
    replace (d - k)%nat with (S (d - S k)) by lia. exact H2.
Qed.

Lemma orth_take_full sh a :
  shaped sh a -> orth_take (map (fun n => seq 0 n) sh) a = a.
Proof.
  intros Hs. unfold orth_take. apply take_all_id. intros [d p] Hin. cbn [fst snd].
  rewrite map_length in Hin.
  replace (length sh) with (length (map (fun n => seq 0 n) sh)) in Hin by apply map_length.
  apply in_combine_seq in Hin. destruct Hin as [_ Hn]. rewrite Nat.sub_0_r in Hn.
  rewrite nth_error_map in Hn. destruct (nth_error sh d) as [n|] eqn:E; [|discriminate].
  inversion Hn; subst p.
  assert (Hd : (d < length sh)%nat) by (apply nth_error_Some; congruence).
  rewrite <- (nth_error_nth sh d 0%nat E). apply take_full; assumption.
Qed.

Lemma range_list_0_n n : 0 <= n -> map Z.to_nat (range_list 0 n 1) = seq 0 (Z.to_nat n).
Proof.
  intros Hn. unfold range_list.
  assert (E : range_len 0 n 1 = n).
  { unfold range_len. simpl. destruct (0 <? n) eqn:E0; [|lia].
    rewrite Z.div_1_r. lia. }
  rewrite E, map_map. rewrite <- (map_id (seq 0 (Z.to_nat n))) at 2.
  apply map_ext. intros k. lia.
Qed.

Lemma positions_pall n : 0 <= n -> positions n pall = Ok (seq 0 (Z.to_nat n)).
Proof.
  intros Hn. unfold positions, pall, slice_positions_impl, dask_normalize_slice. simpl.
  replace (n >=? n) with true by lia. simpl.
  unfold slice_positions. simpl. rewrite range_list_0_n by exact Hn. reflexivity.
Qed.

Lemma positions_all_full sh :
  Forall (fun n => 0 <= n) sh ->
  positions_all sh (full_ps sh) = Ok (map (fun n => seq 0 (Z.to_nat n)) sh).
Proof.
  induction sh as [|n r IH]; intros H; [reflexivity|].
  inversion H; subst. unfold full_ps in *. cbn [map positions_all].
  rewrite positions_pall by assumption. cbn [rbind]. rewrite IH by assumption. reflexivity.
Qed.

(* ------------------------------------------------------------------------- *)
(* the Gallina data types and unpacking are numpy's and netcdf_indexer's       *)
(* ------------------------------------------------------------------------- *)
Definition promote_row_ok (r : Z * Z * Z) : bool :=
  let '(a, b, c) := r in dt_code (promote (dt_of_code a) (dt_of_code b)) =? c.

Definition attr_of_row (x : option (Z * Z)) : option (dt * Z) :=
  match x with Some (c, z) => Some (dt_of_code c, z) | None => None end.

Definition pack_of_row (uns : bool) (sf ao : option (Z * Z)) : pack :=
  {| p_unsigned := uns; p_scale := attr_of_row sf; p_offset := attr_of_row ao |}.

Definition unpack_row_ok (r : Z * bool * option (Z * Z) * option (Z * Z) * Z * list Z * list Z) : bool :=
  let '(v, uns, sf, ao, got, raw, vals) := r in
  let p := pack_of_row uns sf ao in
  (dt_code (realised_dt (dt_of_code v) p) =? got) &&
  list_eqb Z.eqb (map (unpack_z (dt_of_code v) p) raw) vals.

Lemma promote_table_sweep : forallb promote_row_ok numpy_promote_table = true.
Proof. vm_compute. reflexivity. Qed.

Lemma unpack_table_sweep : forallb unpack_row_ok indexer_unpack_table = true.
Proof. vm_compute. reflexivity. Qed.

Lemma list_eqb_Z_eq l1 l2 : list_eqb Z.eqb l1 l2 = true -> l1 = l2.
Proof.
  revert l2; induction l1 as [|x r IH]; intros [|y s]; simpl; intros H; try discriminate; [reflexivity|].
  apply andb_true_iff in H. destruct H as [H1 H2]. apply Z.eqb_eq in H1. subst. f_equal. apply IH. exact H2.
Qed.

(* numpy.promote_types, on every pair of the ten types *)
Theorem promote_is_numpy a b c :
  In (a, b, c) numpy_promote_table -> dt_code (promote (dt_of_code a) (dt_of_code b)) = c.
Proof.
  intros H. pose proof promote_table_sweep as S. rewrite forallb_forall in S.
  specialize (S _ H). simpl in S. apply Z.eqb_eq. exact S.
Qed.

(* netcdf_indexer, on every variable type x _Unsigned x scale_factor x add_offset:
   the type of the array it returns (also for an empty array), and the values *)
Theorem unpack_is_indexer v uns sf ao got raw vals :
  In (v, uns, sf, ao, got, raw, vals) indexer_unpack_table ->
  dt_code (realised_dt (dt_of_code v) (pack_of_row uns sf ao)) = got /\
  map (unpack_z (dt_of_code v) (pack_of_row uns sf ao)) raw = vals.
Proof.
  intros H. pose proof unpack_table_sweep as S. rewrite forallb_forall in S.
  specialize (S _ H). cbn beta iota in S. apply andb_true_iff in S. destruct S as [S1 S2].
  split; [apply Z.eqb_eq; exact S1|apply list_eqb_Z_eq; exact S2].
Qed.

Lemma unpack_table_nonempty :
  8000 < Z.of_nat (length indexer_unpack_table) /\ length numpy_promote_table = 100%nat.
Proof. vm_compute. split; reflexivity. Qed.

Local Opaque numpy_promote_table indexer_unpack_table.

(* ------------------------------------------------------------------------- *)
(* unpacking is elementwise: a part of the unpacked array is the unpacked part *)
(* ------------------------------------------------------------------------- *)
Lemma nd_ind' (P : nd -> Prop) :
  (forall v, P (Leaf v)) -> (forall l, Forall P l -> P (Node l)) -> forall a, P a.
Proof.
  intros HL HN. fix IH 1. intros [v|l]; [apply HL|]. apply HN.
  induction l as [|x r IHl]; constructor; [apply IH|exact IHl].
Qed.

Lemma take_nd_map g d pos a : take d pos (nd_map g a) = nd_map g (take d pos a).
Proof.
  revert d. induction a as [v|l IHl] using nd_ind'; intros d; [destruct d; reflexivity|].
  destruct d as [|d]; simpl; f_equal; rewrite !map_map.
  - apply map_ext. intros i. change dummy with (nd_map g dummy) at 1. apply map_nth.
  - apply map_ext_in. intros x Hx. rewrite Forall_forall in IHl. apply IHl. exact Hx.
Qed.

Lemma take_all_nd_map g ops a : take_all ops (nd_map g a) = nd_map g (take_all ops a).
Proof.
  unfold take_all. revert a. induction ops as [|op r IH]; intros a; simpl; [reflexivity|].
  rewrite take_nd_map. apply IH.
Qed.

Theorem orth_take_nd_map g poss a : orth_take poss (nd_map g a) = nd_map g (orth_take poss a).
Proof. apply take_all_nd_map. Qed.

Lemma flatten_nd_map g a : flatten (nd_map g a) = map g (flatten a).
Proof.
  induction a as [v|l IHl] using nd_ind'; [reflexivity|]. simpl.
  induction l as [|x r IHr]; [reflexivity|]. simpl. inversion IHl; subst.
  rewrite map_app. f_equal; auto.
Qed.

(* ------------------------------------------------------------------------- *)
(* the machine computes the eager specification                                *)
(* ------------------------------------------------------------------------- *)
(* an object on disk refers to a well-shaped stored variable of its own shape,
   and the data type it declares is the type the data will have in memory *)
Definition cell_ok (dk : disk) (c : cell) : Prop :=
  match c with
  | OnDisk f v sh d fl => Forall (fun n => 0 <= n) sh /\
                          forall st, dk f v = Some st ->
                            shaped (map Z.to_nat sh) (s_raw st) /\ d = s_realised fl st
  | InMem _ _ _ => True
  end.

(* a copy of a file array carries the (mask, unpack) components of its source *)
Definition copy_keeps (C : cfg) : Prop := forall fl, c_copy_flags C fl = fl.

Lemma copy_cell_id C c : copy_keeps C -> copy_cell C c = c.
Proof. intros H. destruct c as [f v sh d fl|sh d a]; simpl; [rewrite H|]; reflexivity. Qed.

(* the backend returns what orthogonal selection returns, on the stored arrays *)
Definition fetch_ok (C : cfg) (dk : disk) : Prop :=
  forall f v st poss, dk f v = Some st -> c_fetch C (s_raw st) poss = orth_take poss (s_raw st).

Lemma vshape_val dk c : vshape (val dk c) = cshape c.
Proof. destruct c as [f v sh d fl|sh d a]; simpl; [destruct (dk f v)|]; reflexivity. Qed.

Lemma vdtype_val dk c : cell_ok dk c -> vdtype (val dk c) = cdtype c.
Proof.
  destruct c as [f v sh d fl|sh d a]; simpl; [|reflexivity]. intros [_ H].
  destruct (dk f v) as [st|]; [|reflexivity]. destruct (H st eq_refl) as [_ E]. subst d. reflexivity.
Qed.

Lemma realise_spec C dk c :
  cell_ok dk c -> fetch_ok C dk ->
  fst (realise C dk c) =
  match vreal (val dk c) with Ok a => Ok (vdtype (val dk c), a) | Err e => Err e end.
Proof.
  intros Hok Hf. destruct c as [f v sh d fl|sh d a]; [|reflexivity].
  unfold realise, vreal, val, fa_get.
  destruct Hok as [Hnn Hsh].
  destruct (dk f v) as [st|] eqn:E; [|reflexivity].
  rewrite positions_all_full by exact Hnn. cbn [fst snd rbind vdtype].
  rewrite (Hf f v st _ E).
  rewrite <- (map_map Z.to_nat (fun n => seq 0 n)).
  rewrite orth_take_full by (apply (Hsh st eq_refl)). reflexivity.
Qed.

Lemma sub_spec C dk c idx :
  fetch_ok C dk ->
  fst (sub C dk c idx) =
  match vget (val dk c) idx with
  | Ok (sh, d, Some a) => Ok (InMem sh d a)
  | Ok (_, _, None) => Err OtherErr
  | Err e => Err e
  end.
Proof.
  intros Hf. destruct c as [f v sh d fl|sh d a]; unfold sub, vget, val.
  - unfold fa_get. destruct (dk f v) as [st|] eqn:E; cbn [vshape vdtype fst snd].
    + destruct (parse_indices sh idx) as [ps|e]; [|reflexivity].
      destruct (positions_all sh ps) as [poss|e]; [|reflexivity].
      cbn [fst snd rbind to_cell]. rewrite (Hf f v st poss E).
      unfold s_unpacked. rewrite orth_take_nd_map. reflexivity.
    + destruct (parse_indices sh idx) as [ps|e]; reflexivity.
  - cbn [vshape vdtype fst snd]. unfold getitem. destruct (parse_indices sh idx) as [ps|e]; [|reflexivity].
    cbn [rbind]. destruct (positions_all sh ps) as [poss|e]; reflexivity.
Qed.

Lemma vget_some vc idx sh d o : vget vc idx = Ok (sh, d, o) -> exists a, o = Some a.
Proof.
  unfold vget. destruct (parse_indices (vshape vc) idx); [|discriminate].
  destruct (snd vc); [|discriminate]. destruct (positions_all _ _); [|discriminate].
  intros H; inversion H; eauto.
Qed.

Lemma nth_error_set_at {A} i (x : A) l : (i < length l)%nat -> nth_error (set_at i x l) i = Some x.
Proof.
  revert i; induction l as [|y r IH]; intros [|i] H; simpl in *; try lia; [reflexivity|].
  apply IH. lia.
Qed.

Lemma map_set_at {A B} (f : A -> B) i x l : map f (set_at i x l) = set_at i (f x) (map f l).
Proof.
  revert i; induction l as [|y r IH]; intros [|i]; simpl; try reflexivity. f_equal. apply IH.
Qed.

Lemma Forall_set_at {A} (P : A -> Prop) i x l : P x -> Forall P l -> Forall P (set_at i x l).
Proof.
  intros Hx. revert i; induction l as [|y r IH]; intros [|i] H; simpl; try constructor;
    inversion H; subst; auto.
Qed.

Lemma Forall_nth_error {A} (P : A -> Prop) l i x : Forall P l -> nth_error l i = Some x -> P x.
Proof. intros H E. rewrite Forall_forall in H. apply H. eapply nth_error_In; eauto. Qed.

(* what realise gives, in terms of the eager value of the object *)
Lemma realise_cases C dk c :
  cell_ok dk c -> fetch_ok C dk ->
  (exists a t, realise C dk c = (Ok (cdtype c, a), t) /\ val dk c = (cshape c, cdtype c, Some a)) \/
  (exists e t, realise C dk c = (Err e, t) /\ vreal (val dk c) = Err e).
Proof.
  intros Hok Hf. pose proof (realise_spec C dk c Hok Hf) as Hr.
  pose proof (vdtype_val dk c Hok) as Hd. pose proof (vshape_val dk c) as Hs.
  destruct (realise C dk c) as [r t]. cbn [fst] in Hr. subst r.
  destruct (val dk c) as [[sh d] o]. unfold vreal, vdtype, vshape in *. cbn [fst snd] in *. subst.
  destruct o as [a|]; [left|right]; eauto.
Qed.

(* one operation: same observation as the specification, and the values of the
   new heap are the specification's new heap *)
Lemma step_denote C dk h op :
  copy_keeps C -> Forall (cell_ok dk) h -> fetch_ok C dk ->
  let '(h', ob, _) := step C dk h op in
  vstep (map (val dk) h) op = (map (val dk) h', ob) /\ Forall (cell_ok dk) h'.
Proof.
  intros Hk Hok Hf. destruct op as [i|i idx|i|i|i idx v|i|i j]; simpl; rewrite ?nth_error_map.
  - destruct (nth_error h i) as [c|] eqn:E; simpl; [|auto]. rewrite (copy_cell_id C c Hk).
    split; [rewrite map_app; reflexivity|].
    apply Forall_app; split; [exact Hok|constructor; [|constructor]].
    eapply Forall_nth_error; eauto.
  - destruct (nth_error h i) as [c|] eqn:E; simpl; [|auto].
    pose proof (sub_spec C dk c idx Hf) as Hs.
    destruct (sub C dk c idx) as [[c'|e] t]; cbn [fst] in Hs.
    + destruct (vget (val dk c) idx) as [[[sh d] [a|]]|e']; try discriminate.
      inversion Hs; subst c'. split; [rewrite map_app; reflexivity|].
      apply Forall_app; split; [exact Hok|constructor; [exact I|constructor]].
    + destruct (vget (val dk c) idx) as [[[sh d] [a|]]|e'] eqn:Ev; try discriminate.
      * apply vget_some in Ev. destruct Ev; discriminate.
      * inversion Hs; subst. auto.
  - destruct (nth_error h i) as [c|] eqn:E; simpl; [|auto].
    assert (Hc : cell_ok dk c) by (eapply Forall_nth_error; eauto).
    destruct (realise_cases C dk c Hc Hf) as [[a [t [Hr Hv]]]|[e [t [Hr Hv]]]]; rewrite Hr, ?Hv.
    + unfold vreal. cbn [fst snd]. split; [rewrite map_set_at; reflexivity|].
      apply Forall_set_at; [exact I|exact Hok].
    + auto.
  - destruct (nth_error h i) as [c|] eqn:E; simpl; [|auto].
    assert (Hc : cell_ok dk c) by (eapply Forall_nth_error; eauto).
    destruct (realise_cases C dk c Hc Hf) as [[a [t [Hr Hv]]]|[e [t [Hr Hv]]]]; rewrite Hr, ?Hv; auto.
  - destruct (nth_error h i) as [c|] eqn:E; simpl; [|auto].
    assert (Hc : cell_ok dk c) by (eapply Forall_nth_error; eauto).
    rewrite vshape_val.
    destruct (parse_indices (cshape c) idx) as [ps|e]; [|auto].
    destruct (realise_cases C dk c Hc Hf) as [[a [t [Hr Hv]]]|[e [t [Hr Hv]]]]; rewrite Hr, ?Hv; [|auto].
    unfold vreal, vdtype. cbn [fst snd].
    destruct (setitem _ _ _ _ _) as [a'|e]; [|auto].
    split; [rewrite map_set_at; reflexivity|]. apply Forall_set_at; [exact I|exact Hok].
  - destruct (nth_error h i) as [c|] eqn:E; simpl; [|auto].
    rewrite vshape_val.
    pose proof (sub_spec C dk c (map (fun _ => ISlice (Some 0) (Some 1) (Some 1)) (cshape c)) Hf) as Hs.
    destruct (sub C dk c _) as [[c'|e] t]; cbn [fst] in Hs.
    + destruct (vget (val dk c) _) as [[[sh d] [a|]]|e']; try discriminate.
      inversion Hs; subst c'. destruct (flatten a) as [|x [|y r]]; auto.
    + destruct (vget (val dk c) _) as [[[sh d] [a|]]|e'] eqn:Ev; try discriminate.
      * apply vget_some in Ev. destruct Ev; discriminate.
      * inversion Hs; subst. auto.
  - destruct (nth_error h i) as [c1|] eqn:E1; simpl; [|auto].
    destruct (nth_error h j) as [c2|] eqn:E2; simpl; [|auto].
    destruct (Nat.eqb i j); [auto|].
    assert (Hc1 : cell_ok dk c1) by (eapply Forall_nth_error; eauto).
    assert (Hc2 : cell_ok dk c2) by (eapply Forall_nth_error; eauto).
    rewrite !vshape_val, !vdtype_val by assumption.
    destruct (negb (list_eqb _ _ _)); [auto|].
    destruct (negb (dt_eqb _ _)); [auto|].
    destruct (realise_cases C dk c1 Hc1 Hf) as [[a1 [t1 [Hr1 Hv1]]]|[e [t1 [Hr1 Hv1]]]]; rewrite Hr1, ?Hv1; [|auto].
    destruct (realise_cases C dk c2 Hc2 Hf) as [[a2 [t2 [Hr2 Hv2]]]|[e [t2 [Hr2 Hv2]]]]; rewrite Hr2, ?Hv2; auto.
Qed.

(* every history: lazy access through either backend shows exactly what eager
   access to the arrays shows - values, shapes and data types *)
Theorem run_denote C dk h ops :
  copy_keeps C -> Forall (cell_ok dk) h -> fetch_ok C dk ->
  map fst (run C dk h ops) = vrun (map (val dk) h) ops.
Proof.
  intros Hk Hok Hf. revert h Hok. induction ops as [|o r IH]; intros h Hok; simpl; [reflexivity|].
  pose proof (step_denote C dk h o Hk Hok Hf) as Hs.
  destruct (step C dk h o) as [[h' ob] t]. destruct Hs as [Hv Hok'].
  rewrite Hv. simpl. f_equal. apply IH. exact Hok'.
Qed.

Lemma step_keeps_ok C dk h o :
  copy_keeps C -> Forall (cell_ok dk) h -> fetch_ok C dk -> Forall (cell_ok dk) (fst (fst (step C dk h o))).
Proof.
  intros Hk Hok Hf. pose proof (step_denote C dk h o Hk Hok Hf) as Hs.
  destruct (step C dk h o) as [[h' ob] t]. destruct Hs; assumption.
Qed.

(* eager heap *)
Lemma val_eager dk c : cell_ok dk c -> val dk (eager_cell dk c) = val dk c.
Proof.
  destruct c as [f v sh d fl|sh d a]; [|reflexivity]. unfold eager_cell, val. intros _.
  destruct (dk f v) eqn:E; simpl; rewrite ?E; reflexivity.
Qed.

Lemma cell_ok_eager dk c : cell_ok dk c -> cell_ok dk (eager_cell dk c).
Proof.
  destruct c as [f v sh d fl|sh d a]; [|auto]. unfold eager_cell.
  destruct (dk f v); [intros _; exact I|auto].
Qed.

Theorem lazy_eq_eager C dk h ops :
  copy_keeps C -> Forall (cell_ok dk) h -> fetch_ok C dk ->
  map fst (run C dk h ops) = map fst (run C dk (map (eager_cell dk) h) ops).
Proof.
  intros Hk Hok Hf. rewrite !run_denote; auto.
  - rewrite map_map. f_equal. apply map_ext_in. intros c Hc. symmetry. apply val_eager.
    rewrite Forall_forall in Hok. auto.
  - apply Forall_forall. intros c Hc. apply in_map_iff in Hc as [c0 [E Hin]]. subst c.
    apply cell_ok_eager. rewrite Forall_forall in Hok. auto.
Qed.

(* bringing any object into memory at any point changes no later result *)
Theorem to_memory_transparent C dk h i ops :
  copy_keeps C -> Forall (cell_ok dk) h -> fetch_ok C dk ->
  (forall c, nth_error h i = Some c -> content dk c <> None) ->
  map fst (run C dk h ops) = map fst (run C dk (run_heap C dk h [OToMem i]) ops).
Proof.
  intros Hk Hok Hf Hc. rewrite !run_denote; auto.
  - f_equal. simpl. destruct (nth_error h i) as [c|] eqn:E; [|reflexivity].
    assert (Hck : cell_ok dk c) by (eapply Forall_nth_error; eauto).
    destruct (realise_cases C dk c Hck Hf) as [[a [t [Hr Hv]]]|[e [t [Hr Hv]]]]; rewrite Hr; [|reflexivity].
    rewrite map_set_at. cbn [val]. rewrite <- Hv.
    clear -E. revert i E. induction h as [|x r IH]; intros [|i] E; simpl in *; try discriminate.
    + inversion E; subst. reflexivity.
    + f_equal. apply IH. exact E.
  - pose proof (step_keeps_ok C dk h (OToMem i) Hk Hok Hf) as H. cbn [run_heap].
    destruct (step C dk h (OToMem i)) as [[h' ob] t]. exact H.
Qed.

(* subspace-then-realise = realise-then-subspace *)
Theorem subspace_commutes C dk c idx d a :
  cell_ok dk c -> fetch_ok C dk -> fst (realise C dk c) = Ok (d, a) ->
  fst (sub C dk c idx) = fst (sub C dk (InMem (cshape c) d a) idx).
Proof.
  intros Hok Hf Hr. rewrite !sub_spec by exact Hf.
  destruct (realise_cases C dk c Hok Hf) as [[a' [t [Hr' Hv]]]|[e [t [Hr' Hv]]]];
    rewrite Hr' in Hr; cbn [fst] in Hr; [|discriminate].
  inversion Hr; subst. rewrite Hv. reflexivity.
Qed.


(* ------------------------------------------------------------------------- *)
(* fetch only what is asked                                                    *)
(* ------------------------------------------------------------------------- *)
Lemma posify_in_range size l ps :
  posify size l = Ok ps -> Forall (fun i => Z.of_nat i < size) ps.
Proof.
  revert ps. induction l as [|i r IH]; intros ps H; simpl in H.
  - inversion H. constructor.
  - destruct ((i <? - size) || (i >=? size)) eqn:E; [discriminate|].
    destruct (posify size r) as [ps'|e]; [|discriminate]. simpl in H. inversion H; subst.
    constructor; [|apply IH; reflexivity].
    apply orb_false_iff in E. destruct E as [E1 E2].
    destruct (i <? 0) eqn:E3; lia.
Qed.

Lemma positions_in_range size p ps :
  0 <= size -> positions size p = Ok ps -> Forall (fun i => Z.of_nat i < size) ps.
Proof.
  intros Hs. destruct p as [a b c|l]; simpl.
  - destruct (slice_positions_impl size a b c) as [l|] eqn:E; [|discriminate].
    intros H; inversion H; subst. apply Forall_forall. intros x Hx.
    apply in_map_iff in Hx as [z [Hz Hin]]. subst x.
    pose proof (slice_impl_in_range size a b c l z Hs E Hin). lia.
  - apply posify_in_range.
Qed.

Lemma positions_all_in_range sh ps poss :
  Forall (fun n => 0 <= n) sh -> length ps = length sh -> positions_all sh ps = Ok poss ->
  Forall2 (fun n p => Forall (fun i => Z.of_nat i < n) p) sh poss.
Proof.
  revert ps poss. induction sh as [|n r IH]; intros ps poss Hnn Hl H.
  - destruct ps; simpl in *; inversion H; constructor.
  - destruct ps as [|p rp]; [simpl in Hl; discriminate|]. simpl in H.
    inversion Hnn; subst.
    destruct (positions n p) as [x|e] eqn:E; [|discriminate]. simpl in H.
    destruct (positions_all r rp) as [xs|e] eqn:E2; [|discriminate]. simpl in H.
    inversion H; subst. constructor.
    + eapply positions_in_range; eauto.
    + eapply IH; eauto.
Qed.

Theorem sub_fetch_only C dk f v sh d fl idx r t :
  Forall (fun n => 0 <= n) sh -> sub C dk (OnDisk f v sh d fl) idx = (r, t) ->
  match r with
  | Ok c' => exists ps poss st,
      parse_indices sh idx = Ok ps /\ positions_all sh ps = Ok poss /\ dk f v = Some st /\
      t = [EOpen f; EFetch f v poss; EClose f] /\
      c' = InMem (zshape (map (@length nat) poss)) (s_realised fl st)
                 (nd_map (present fl st) (c_fetch C (s_raw st) poss)) /\
      Forall2 (fun n p => Forall (fun i => Z.of_nat i < n) p) sh poss
  | Err _ => fetches t = []
  end.
Proof.
  intros Hnn. unfold sub. destruct (parse_indices sh idx) as [ps|e] eqn:Ep.
  - unfold fa_get. destruct (dk f v) as [st|] eqn:Ed.
    + destruct (positions_all sh ps) as [poss|e] eqn:Epos; intros H; inversion H; subst; clear H.
      * simpl. exists ps, poss, st. splits; auto.
        eapply positions_all_in_range; eauto. eapply parse_indices_length; eauto.
      * simpl. destruct (c_close_on_error C); reflexivity.
    + intros H; inversion H; subst. reflexivity.
  - intros H; inversion H; subst. reflexivity.
Qed.

Lemma sub_in_memory C dk sh d a idx : snd (sub C dk (InMem sh d a) idx) = [].
Proof. reflexivity. Qed.

(* ------------------------------------------------------------------------- *)
(* the backend is only its fetch function                                      *)
(* ------------------------------------------------------------------------- *)
Definition same_backend (C1 C2 : cfg) (dk : disk) : Prop :=
  c_close_on_error C1 = c_close_on_error C2 /\
  (forall fl, c_copy_flags C1 fl = c_copy_flags C2 fl) /\
  forall f v st poss, dk f v = Some st -> c_fetch C1 (s_raw st) poss = c_fetch C2 (s_raw st) poss.

Lemma fa_get_blind C1 C2 dk f v sh fl ps :
  same_backend C1 C2 dk -> fa_get C1 dk f v sh fl ps = fa_get C2 dk f v sh fl ps.
Proof.
  intros [Hc [_ Hf]]. unfold fa_get. destruct (dk f v) as [a|] eqn:E; [|reflexivity].
  destruct (positions_all sh ps) as [poss|e]; [rewrite (Hf f v a poss E)|rewrite Hc]; reflexivity.
Qed.

Lemma sub_blind C1 C2 dk c idx : same_backend C1 C2 dk -> sub C1 dk c idx = sub C2 dk c idx.
Proof.
  intros H. destruct c as [f v sh d fl|sh d a]; [|reflexivity]. unfold sub.
  destruct (parse_indices sh idx) as [ps|e]; [|reflexivity].
  rewrite (fa_get_blind C1 C2 dk f v sh fl ps H). reflexivity.
Qed.

Lemma realise_blind C1 C2 dk c : same_backend C1 C2 dk -> realise C1 dk c = realise C2 dk c.
Proof.
  intros H. destruct c as [f v sh d fl|sh d a]; [|reflexivity]. unfold realise.
  rewrite (fa_get_blind C1 C2 dk f v sh fl _ H). reflexivity.
Qed.

Lemma step_blind C1 C2 dk h op : same_backend C1 C2 dk -> step C1 dk h op = step C2 dk h op.
Proof.
  intros H. destruct op as [i|i idx|i|i|i idx v|i|i j]; simpl;
    try (destruct (nth_error h i) as [c|]; [|reflexivity]);
    rewrite ?(sub_blind C1 C2 dk _ _ H), ?(realise_blind C1 C2 dk _ H); try reflexivity.
  - destruct H as [_ [Hk _]]. destruct c as [f v sh d fl|sh d a]; simpl; [rewrite Hk|]; reflexivity.
  - destruct (nth_error h j) as [c2|]; [|reflexivity].
    rewrite ?(realise_blind C1 C2 dk _ H). reflexivity.
Qed.

(* results, traces and final objects of every history are the same *)
Theorem run_blind C1 C2 dk h ops :
  same_backend C1 C2 dk ->
  run C1 dk h ops = run C2 dk h ops /\ run_heap C1 dk h ops = run_heap C2 dk h ops.
Proof.
  intros H. revert h. induction ops as [|o r IH]; intros h; simpl; [auto|].
  rewrite (step_blind C1 C2 dk h o H). destruct (step C2 dk h o) as [[h' ob] t].
  destruct (IH h') as [E1 E2]. rewrite E1, E2. auto.
Qed.

(* --- the h5netcdf path of netcdf_indexer._index returns what was asked for --- *)
Lemma insert_u_in x y l : In y (insert_u x l) <-> y = x \/ In y l.
Proof.
  induction l as [|z r IH]; simpl; [intuition|].
  destruct (x <? z)%nat eqn:E1; [simpl; intuition|].
  destruct (x =? z)%nat eqn:E2.
  - apply Nat.eqb_eq in E2. subst. simpl. intuition.
  - simpl. rewrite IH. intuition.
Qed.

Lemma uniq_sorted_in x l : In x l -> In x (uniq_sorted l).
Proof.
  induction l as [|y r IH]; simpl; [tauto|]. intros [H|H]; apply insert_u_in; auto.
Qed.

Lemma index_in_spec x u : In x u -> (index_in x u < length u)%nat /\ nth (index_in x u) u 0%nat = x.
Proof.
  induction u as [|y r IH]; simpl; [tauto|]. intros H.
  destruct (x =? y)%nat eqn:E.
  - apply Nat.eqb_eq in E. subst. split; [lia|reflexivity].
  - destruct H as [H|H]; [subst; rewrite Nat.eqb_refl in E; discriminate|].
    destruct (IH H) as [H1 H2]. split; [lia|exact H2].
Qed.

Lemma take_take d q u a :
  Forall (fun j => (j < length u)%nat) q ->
  take d q (take d u a) = take d (map (fun j => nth j u 0%nat) q) a.
Proof.
  revert a. induction d as [|d IH]; intros a Hq; destruct a as [v|l]; simpl; try reflexivity.
  - f_equal. rewrite map_map. apply map_ext_in. intros j Hj.
    rewrite Forall_forall in Hq. specialize (Hq j Hj).
    rewrite nth_indep with (d' := (fun i => nth i l dummy) 0%nat) by (rewrite map_length; exact Hq).
    rewrite (map_nth (fun i => nth i l dummy)). reflexivity.
  - f_equal. rewrite map_map. apply map_ext. intros x. apply IH. exact Hq.
Qed.

Lemma h5_axis_take d p a : h5_axis d p a = take d p a.
Proof.
  unfold h5_axis. destruct (increasing p); [reflexivity|].
  rewrite take_take.
  - f_equal. rewrite map_map. rewrite <- (map_id p) at 2. apply map_ext_in. intros x Hx.
    apply index_in_spec. apply uniq_sorted_in. exact Hx.
  - apply Forall_forall. intros j Hj. apply in_map_iff in Hj as [x [E Hx]]. subst j.
    apply index_in_spec. apply uniq_sorted_in. exact Hx.
Qed.

Theorem h5_is_nc4 a poss : h5_fetch a poss = nc4_fetch a poss.
Proof.
  unfold h5_fetch, nc4_fetch, orth_take, take_all.
  generalize (combine (seq 0 (length poss)) poss). intros ops. revert a.
  induction ops as [|op r IH]; intros a; simpl; [reflexivity|].
  rewrite h5_axis_take. apply IH.
Qed.

(* what is handed to h5py is strictly increasing *)
Lemma increasing_insert x l : increasing l = true -> increasing (insert_u x l) = true.
Proof.
  induction l as [|y r IH]; intros H; [reflexivity|].
  cbn [insert_u]. destruct (x <? y)%nat eqn:E1.
  - cbn [increasing]. rewrite E1. exact H.
  - destruct (x =? y)%nat eqn:E2; [exact H|].
    assert (Hyx : (y <? x)%nat = true).
    { apply Nat.ltb_ge in E1. apply Nat.eqb_neq in E2. apply Nat.ltb_lt. lia. }
    destruct r as [|z r'].
    + simpl. rewrite Hyx. reflexivity.
    + assert (Hr : increasing (z :: r') = true).
      { cbn [increasing] in H. apply andb_true_iff in H. tauto. }
      assert (Hyz : (y <? z)%nat = true).
      { cbn [increasing] in H. apply andb_true_iff in H. tauto. }
      specialize (IH Hr). cbn [insert_u] in *.
      destruct (x <? z)%nat eqn:E3.
      * cbn [increasing]. rewrite Hyx, E3. exact Hr.
      * destruct (x =? z)%nat eqn:E4.
        -- cbn [increasing]. rewrite Hyz. exact Hr.
        -- cbn [increasing] in *. rewrite Hyz. exact IH.
Qed.

Lemma uniq_sorted_increasing l : increasing (uniq_sorted l) = true.
Proof. induction l as [|x r IH]; [reflexivity|]. simpl. apply increasing_insert. exact IH. Qed.

Lemma fetch_ok_nc4 dk : fetch_ok cfg_nc4 dk.
Proof. intros f v a poss _. reflexivity. Qed.

Lemma fetch_ok_h5 dk : fetch_ok cfg_h5 dk.
Proof. intros f v a poss _. apply h5_is_nc4. Qed.

Lemma same_backend_nc4_h5 dk : same_backend cfg_nc4 cfg_h5 dk.
Proof. split; [reflexivity|]. split; [reflexivity|]. intros f v a poss _. symmetry. apply h5_is_nc4. Qed.

(* ------------------------------------------------------------------------- *)
(* read                                                                        *)
(* ------------------------------------------------------------------------- *)
Lemma realise_fetches C dk f v sh d fl fv vv p :
  In (fv, vv, p) (fetches (snd (realise C dk (OnDisk f v sh d fl)))) -> fv = f /\ vv = v.
Proof.
  unfold realise, fa_get. destruct (dk f v) as [a|]; [|simpl; tauto].
  destruct (positions_all sh (full_ps sh)) as [poss|e]; simpl.
  - intros [H|[]]. inversion H; auto.
  - destruct (c_close_on_error C); simpl; tauto.
Qed.

Lemma read_var_fetches C dk f fl d fv vv p :
  In (fv, vv, p) (fetches (snd (read_var C dk f fl d))) ->
  fv = f /\ vv = vd_var d /\ read_fetches d = true.
Proof.
  unfold read_var. destruct (read_fetches d) eqn:E; [|simpl; tauto].
  pose proof (realise_fetches C dk f (vd_var d) (vd_shape d) (declared_of C dk f fl d) fl fv vv p) as H.
  destruct (realise C dk (OnDisk f (vd_var d) (vd_shape d) (declared_of C dk f fl d) fl)) as [[[ty a]|e] t]; cbn [snd] in *.
  - destruct (vd_role d); cbn [snd]; intros Hin; destruct (H Hin); auto.
  - intros Hin; destruct (H Hin); auto.
Qed.

Lemma read_vars_fetches C dk f fl ds fv vv p :
  In (fv, vv, p) (fetches (snd (read_vars C dk f fl ds))) ->
  fv = f /\ exists d, In d ds /\ vd_var d = vv /\ read_fetches d = true.
Proof.
  induction ds as [|d r IH]; simpl; [tauto|].
  pose proof (read_var_fetches C dk f fl d fv vv p) as Hv.
  destruct (read_var C dk f fl d) as [c t]. destruct (read_vars C dk f fl r) as [cs ts].
  cbn [snd] in *. rewrite fetches_app. intros Hin. apply in_app_or in Hin as [Hin|Hin].
  - destruct (Hv Hin) as [H1 [H2 H3]]. split; [exact H1|]. exists d. auto.
  - destruct (IH Hin) as [H1 [d' [H2 [H3 H4]]]]. split; [exact H1|]. exists d'. auto.
Qed.

Lemma read_fetches_cases d :
  read_fetches d = true ->
  (vd_role d = RScalarCoord /\ vd_shape d = []) \/ count_like (vd_role d) = true \/ vd_role d = RNodeCoord.
Proof.
  unfold read_fetches. destruct (vd_role d) eqn:E; simpl; try discriminate; auto.
  intros H. left. split; [reflexivity|]. destruct (vd_shape d); [reflexivity|discriminate].
Qed.

(* the only variables whose values read looks at *)
Theorem read_lazy C dk f fl ds fv vv p :
  In (fv, vv, p) (fetches (snd (read C dk f fl ds))) ->
  fv = f /\ exists d, In d ds /\ vd_var d = vv /\
    ((vd_role d = RScalarCoord /\ vd_shape d = []) \/ count_like (vd_role d) = true \/
     vd_role d = RNodeCoord).
Proof.
  unfold read. pose proof (read_vars_fetches C dk f fl ds fv vv p) as H.
  destruct (read_vars C dk f fl ds) as [cs t]. cbn [snd] in *.
  intros Hin. simpl in Hin. rewrite fetches_app in Hin. simpl in Hin. rewrite app_nil_r in Hin.
  destruct (H Hin) as [H1 [d [H2 [H3 H4]]]]. split; [exact H1|]. exists d. splits; auto.
  apply read_fetches_cases. exact H4.
Qed.

Lemma read_var_cells C dk f fl d :
  vd_role d <> RScalarCoord -> vd_role d <> RNodeCoord ->
  fst (read_var C dk f fl d) = [OnDisk f (vd_var d) (vd_shape d) (declared_of C dk f fl d) fl].
Proof.
  intros H1 H2. unfold read_var. destruct (read_fetches d); [|reflexivity].
  destruct (realise C dk _) as [[[ty a]|e] t]; [|reflexivity].
  destruct (vd_role d); try reflexivity; congruence.
Qed.

(* after read, every other variable is still on disk *)
Theorem read_on_disk C dk f fl ds d :
  In d ds -> vd_role d <> RScalarCoord -> vd_role d <> RNodeCoord ->
  In (OnDisk f (vd_var d) (vd_shape d) (declared_of C dk f fl d) fl) (fst (read C dk f fl ds)).
Proof.
  intros Hin H1 H2. unfold read.
  assert (H : In (OnDisk f (vd_var d) (vd_shape d) (declared_of C dk f fl d) fl) (fst (read_vars C dk f fl ds))).
  { induction ds as [|d0 r IH]; [contradiction|]. simpl.
    pose proof (read_var_cells C dk f fl d0) as Hc.
    destruct (read_var C dk f fl d0) as [c t]. destruct (read_vars C dk f fl r) as [cs ts].
    cbn [fst] in *. apply in_or_app. destruct Hin as [E|Hin].
    - subst d0. left. rewrite (Hc H1 H2). left. reflexivity.
    - right. apply IH. exact Hin. }
  destruct (read_vars C dk f fl ds) as [cs t]. exact H.
Qed.

Lemma read_var_scan C dk f fl d o :
  c_close_on_error C = true -> scan o (snd (read_var C dk f fl d)) = Some o.
Proof.
  intros Hc. unfold read_var. destruct (read_fetches d); [|reflexivity].
  pose proof (realise_scan C dk (OnDisk f (vd_var d) (vd_shape d) (declared_of C dk f fl d) fl) o Hc) as H.
  destruct (realise C dk _) as [[[ty a]|e] t]; cbn [snd] in *; [|exact H].
  destruct (vd_role d); exact H.
Qed.

Lemma read_vars_scan C dk f fl ds o :
  c_close_on_error C = true -> scan o (snd (read_vars C dk f fl ds)) = Some o.
Proof.
  intros Hc. induction ds as [|d r IH]; simpl; [reflexivity|].
  pose proof (read_var_scan C dk f fl d o Hc) as H.
  destruct (read_var C dk f fl d) as [c t]. destruct (read_vars C dk f fl r) as [cs ts].
  cbn [snd] in *. rewrite scan_app, H. exact IH.
Qed.

Theorem read_balanced C dk f fl ds :
  c_close_on_error C = true -> balanced (snd (read C dk f fl ds)).
Proof.
  intros Hc. unfold read, balanced.
  pose proof (read_vars_scan C dk f fl ds [f] Hc) as H.
  destruct (read_vars C dk f fl ds) as [cs t]. cbn [snd] in *.
  simpl. rewrite scan_app, H. simpl. rewrite Z.eqb_refl. reflexivity.
Qed.

(* a read followed by any history: nothing is left open *)
Theorem read_then_run_balanced C dk f fl ds ops :
  c_close_on_error C = true ->
  balanced (snd (read C dk f fl ds) ++ concat (map snd (run C dk (fst (read C dk f fl ds)) ops))).
Proof.
  intros Hc. unfold balanced. rewrite scan_app.
  rewrite (read_balanced C dk f fl ds Hc). apply run_balanced. exact Hc.
Qed.

(* ------------------------------------------------------------------------- *)
(* witnesses                                                                   *)
(* ------------------------------------------------------------------------- *)
Definition mk_stored (d : dt) (p : pack) (sh : list nat) (fl : list Z) : stored :=
  {| s_dt := d; s_pack := p; s_raw := reshape sh (map Some fl); s_fill := -99 |}.

Definition pack_ex : pack := {| p_unsigned := false; p_scale := Some (F4, 2); p_offset := Some (F8, 0) |}.
Definition pack_sf : pack := {| p_unsigned := false; p_scale := Some (F4, 2); p_offset := None |}.

(* variable 0: a short data variable packed with a float32 scale_factor 2 and a
   float64 add_offset 0; 1-3: plain integers; 4: a packed coordinate variable;
   5: signed bytes to be taken as unsigned *)
Definition dk_ex : disk :=
  lookup2 [(0, 0, mk_stored I2 pack_ex [3%nat; 4%nat] [0;1;2;3;4;5;6;7;8;9;10;11]);
           (0, 1, mk_stored I4 no_pack [] [5]);
           (0, 2, mk_stored I4 no_pack [2%nat] [3; 4]);
           (0, 3, mk_stored I4 no_pack [2%nat] [2; 2]);
           (0, 4, mk_stored I2 pack_sf [3%nat] [1; 2; 3]);
           (0, 5, mk_stored I1 {| p_unsigned := true; p_scale := None; p_offset := None |} [2%nat] [-1; 3])].

Definition heap_ex : list cell := [OnDisk 0 0 [3; 4] F8 flags_default].

Lemma heap_ex_ok : Forall (cell_ok dk_ex) heap_ex.
Proof.
  constructor; [|constructor]. split; [repeat constructor; lia|].
  intros a H. vm_compute in H. inversion H; subst. vm_compute.
  repeat split; repeat constructor.
Qed.

(* a 3 x 4 variable indexed with an out-of-range list: with the code as it was,
   the file is still open after the failed access and after the next access *)
Lemma balanced_old_refuted :
  exists dk h ops, Forall (cell_ok dk) h /\
    scan [] (concat (map snd (run cfg_nc4_old dk h ops))) <> Some [].
Proof.
  exists dk_ex, heap_ex, [OSub 0 [IList [0; 9]]; OArr 0]. split; [exact heap_ex_ok|].
  vm_compute. discriminate.
Qed.

(* the same history with the repaired code, non-vacuity of run_balanced *)
Lemma balanced_example :
  map snd (run cfg_nc4 dk_ex heap_ex [OSub 0 [IList [0; 9]]; OSub 0 [IList [2; 0]; ISlice None None (Some (-2))]; OArr 1]) =
  [[EOpen 0; EClose 0]; [EOpen 0; EFetch 0 0 [[2%nat; 0%nat]; [3%nat; 1%nat]]; EClose 0]; []].
Proof. vm_compute. reflexivity. Qed.

(* reading a geometry dataset fetches rank-1 variables *)
Definition ds_geometry : list vdesc :=
  [{| vd_var := 0; vd_shape := [3; 4]; vd_role := RData |};
   {| vd_var := 1; vd_shape := []; vd_role := RScalarCoord |};
   {| vd_var := 2; vd_shape := [2]; vd_role := RNodeCount |};
   {| vd_var := 3; vd_shape := [2]; vd_role := RPartNodeCount |}].

Lemma read_unrestricted_refuted :
  exists dk f ds d, In d ds /\ (1 <= length (vd_shape d))%nat /\
    In (vd_var d) (fetched_vars (snd (read cfg_nc4 dk f flags_default ds))).
Proof.
  exists dk_ex, 0, ds_geometry, {| vd_var := 2; vd_shape := [2]; vd_role := RNodeCount |}.
  split; [simpl; tauto|]. split; [simpl; lia|]. vm_compute. tauto.
Qed.

Lemma read_example :
  fetched_vars (snd (read cfg_nc4 dk_ex 0 flags_default ds_geometry)) = [1; 2; 3] /\
  fst (read cfg_nc4 dk_ex 0 flags_default ds_geometry) =
    [OnDisk 0 0 [3; 4] F8 flags_default; InMem [1] I4 (Node [Leaf (Some 5)]); OnDisk 0 2 [2] I4 flags_default; OnDisk 0 3 [2] I4 flags_default].
Proof. vm_compute. split; reflexivity. Qed.

(* non-vacuity of run_denote / sub_fetch_only: a history with real work on packed
   data (values 2 x + 0, float64), ending with "equal to its own copy in memory" *)
Lemma denote_example :
  Forall (cell_ok dk_ex) heap_ex /\
  map fst (run cfg_h5 dk_ex heap_ex
             [OSub 0 [IList [2; 0; 2]; ISlice None None (Some (-3))]; OArr 1; OSet 1 [IInt 0] None; OFirst 1; OEq 0 1;
              OCopy 0; OToMem 2; OEq 0 2]) =
  [ONone; OArray [3; 2] F8 [Some 22; Some 16; Some 6; Some 0; Some 22; Some 16]; ONone; OArray [] F8 [None]; OBool false;
   ONone; ONone; OBool true].
Proof. split; [exact heap_ex_ok|]. vm_compute. reflexivity. Qed.

Lemma in_memory_no_file_access C dk sh d a idx :
  snd (sub C dk (InMem sh d a) idx) = [] /\ snd (realise C dk (InMem sh d a)) = [].
Proof. split; reflexivity. Qed.

Lemma h5_reads_increasing l :
  increasing (uniq_sorted l) = true /\ forall x, In x l -> In x (uniq_sorted l).
Proof. split; [apply uniq_sorted_increasing|intros x; apply uniq_sorted_in]. Qed.

Lemma backends_agree dk h ops : run cfg_nc4 dk h ops = run cfg_h5 dk h ops.
Proof. apply run_blind. apply same_backend_nc4_h5. Qed.

(* ------------------------------------------------------------------------- *)
(* read declares the data type the data will have in memory                    *)
(* ------------------------------------------------------------------------- *)
(* the description of a dataset matches what is on disk *)
Definition vdesc_ok (dk : disk) (f : Z) (d : vdesc) : Prop :=
  Forall (fun n => 0 <= n) (vd_shape d) /\
  exists st, dk f (vd_var d) = Some st /\ shaped (map Z.to_nat (vd_shape d)) (s_raw st).

Definition declares_realised (C : cfg) : Prop :=
  forall b fl v p, c_declare C b (fl_unpack fl) v p = realised_fl fl v p.

Lemma declares_realised_nc4 : declares_realised cfg_nc4.
Proof. intros b fl v p. reflexivity. Qed.

Lemma declares_realised_h5 : declares_realised cfg_h5.
Proof. intros b fl v p. reflexivity. Qed.

Lemma declared_cell_ok C dk f fl d :
  declares_realised C -> vdesc_ok dk f d ->
  cell_ok dk (OnDisk f (vd_var d) (vd_shape d) (declared_of C dk f fl d) fl).
Proof.
  intros HC [Hnn [st [E Hsh]]]. split; [exact Hnn|].
  intros st' E'. rewrite E in E'. inversion E'; subst st'. split; [exact Hsh|].
  unfold declared_of. rewrite E. apply HC.
Qed.

Lemma read_var_cells_ok C dk f fl d :
  declares_realised C -> vdesc_ok dk f d -> Forall (cell_ok dk) (fst (read_var C dk f fl d)).
Proof.
  intros HC Hd. pose proof (declared_cell_ok C dk f fl d HC Hd) as Hc. unfold read_var.
  destruct (read_fetches d); [|constructor; [exact Hc|constructor]].
  destruct (realise C dk _) as [[[ty a]|e] t]; [|constructor; [exact Hc|constructor]].
  destruct (vd_role d); (constructor; [first [exact Hc|exact I]|constructor]).
Qed.

(* every object read returns declares the data type its data will have in memory *)
Theorem read_cells_ok C dk f fl ds :
  declares_realised C -> Forall (vdesc_ok dk f) ds -> Forall (cell_ok dk) (fst (read C dk f fl ds)).
Proof.
  intros HC Hds. unfold read.
  assert (H : Forall (cell_ok dk) (fst (read_vars C dk f fl ds))).
  { induction Hds as [|d r Hd Hr IH]; simpl; [constructor|].
    pose proof (read_var_cells_ok C dk f fl d HC Hd) as Hv.
    destruct (read_var C dk f fl d) as [c t]. destruct (read_vars C dk f fl r) as [cs ts].
    cbn [fst] in *. apply Forall_app. split; assumption. }
  destruct (read_vars C dk f fl ds) as [cs t]. exact H.
Qed.

(* ... so every history on what read returned shows what eager access shows,
   data types included: bringing data into memory changes no result *)
Theorem read_then_lazy_is_eager C dk f fl ds ops :
  copy_keeps C -> declares_realised C -> fetch_ok C dk -> Forall (vdesc_ok dk f) ds ->
  map fst (run C dk (fst (read C dk f fl ds)) ops) = vrun (map (val dk) (fst (read C dk f fl ds))) ops.
Proof. intros Hk HC Hf Hds. apply run_denote; [exact Hk|apply read_cells_ok; assumption|exact Hf]. Qed.

(* and x.equals(copy of x brought into memory) is True, for every object whose
   declared data type is right - in particular for everything read returns *)
Lemma vrun_copy_eq (H : list vcell) i sh d a :
  nth_error H i = Some (sh, d, Some a) ->
  vrun H [OCopy i; OToMem (length H); OEq i (length H)] = [ONone; ONone; OBool true].
Proof.
  intros E.
  assert (Hi : (i < length H)%nat) by (apply nth_error_Some; congruence).
  assert (E1 : nth_error (H ++ (@cons vcell (sh, d, Some a) (@nil vcell))) (length H) = Some (sh, d, Some a)).
  { rewrite nth_error_app2 by lia. rewrite Nat.sub_diag. reflexivity. }
  assert (E2 : nth_error (H ++ (@cons vcell (sh, d, Some a) (@nil vcell))) i = Some (sh, d, Some a)).
  { rewrite nth_error_app1 by exact Hi. exact E. }
  assert (E3 : set_at (length H) (sh, d, Some a) (H ++ (@cons vcell (sh, d, Some a) (@nil vcell))) = H ++ (@cons vcell (sh, d, Some a) (@nil vcell))).
  { clear. induction H as [|z r IH]; simpl; [reflexivity|]. f_equal. exact IH. }
  assert (E4 : Nat.eqb i (length H) = false) by (apply Nat.eqb_neq; lia).
  assert (R1 : list_eqb Z.eqb sh sh = true).
  { clear. induction sh as [|x r IH]; simpl; [reflexivity|]. rewrite Z.eqb_refl. exact IH. }
  assert (R2 : dt_eqb d d = true) by (unfold dt_eqb; apply Z.eqb_refl).
  assert (R3 : forall l, list_eqb oz_eqb l l = true).
  { induction l as [|x r IH]; simpl; [reflexivity|]. rewrite IH.
    destruct x as [z|]; simpl; [rewrite Z.eqb_refl|]; reflexivity. }
  cbn [vrun vstep]. rewrite E. cbn [vrun vstep]. rewrite E1. cbn [vrun vstep vreal snd fst].
  rewrite E3. cbn [vrun vstep]. rewrite E2, E1, E4. unfold vshape, vdtype. cbn [fst snd vreal].
  rewrite R1, R2, R3. reflexivity.
Qed.

Theorem equals_own_memory_copy C dk h i c :
  copy_keeps C -> Forall (cell_ok dk) h -> fetch_ok C dk ->
  nth_error h i = Some c -> content dk c <> None ->
  map fst (run C dk h [OCopy i; OToMem (length h); OEq i (length h)]) = [ONone; ONone; OBool true].
Proof.
  intros Hk Hok Hf E Hc. rewrite run_denote by assumption.
  assert (Hv : exists sh d a, val dk c = (sh, d, Some a)).
  { destruct c as [f0 v0 sh0 d0 fl0|sh0 d0 a0]; simpl in *; [|eauto].
    destruct (dk f0 v0); [eauto|congruence]. }
  destruct Hv as [sh [d [a Hv]]].
  rewrite <- (map_length (val dk) h). apply (vrun_copy_eq _ i sh d a).
  rewrite nth_error_map, E. simpl. rewrite Hv. reflexivity.
Qed.

Theorem read_equals_own_memory_copy C dk f fl ds i c :
  copy_keeps C -> declares_realised C -> fetch_ok C dk -> Forall (vdesc_ok dk f) ds ->
  nth_error (fst (read C dk f fl ds)) i = Some c -> content dk c <> None ->
  map fst (run C dk (fst (read C dk f fl ds))
             [OCopy i; OToMem (length (fst (read C dk f fl ds))); OEq i (length (fst (read C dk f fl ds)))]) =
  [ONone; ONone; OBool true].
Proof.
  intros Hk HC Hf Hds E Hc. eapply equals_own_memory_copy; eauto. apply read_cells_ok; assumption.
Qed.

(* the code as it was: a packed coordinate variable (short, float32 scale_factor)
   declares int16 and becomes float32 in memory; a data variable whose
   scale_factor is 1 (float32) and add_offset 0 (float64) declares float64 and
   becomes float32; signed bytes marked _Unsigned declare int8 and become uint8.
   Each object then differs from its own copy in memory. *)
Definition ds_packed : list vdesc :=
  [{| vd_var := 0; vd_shape := [3; 4]; vd_role := RData |};
   {| vd_var := 4; vd_shape := [3]; vd_role := RCoord |};
   {| vd_var := 5; vd_shape := [2]; vd_role := RCoord |}].

Definition dk_trivial : disk :=
  lookup2 [(0, 0, mk_stored I2 {| p_unsigned := false; p_scale := Some (F4, 1); p_offset := Some (F8, 0) |}
                            [2%nat] [7; 8])].

Lemma ds_packed_ok : Forall (vdesc_ok dk_ex 0) ds_packed.
Proof.
  repeat constructor; try lia; eexists; (split; [vm_compute; reflexivity|]); vm_compute;
    repeat split; repeat constructor.
Qed.

Lemma declared_old_refuted :
  Forall (vdesc_ok dk_ex 0) ds_packed /\ fetch_ok cfg_nc4_old2 dk_ex /\
  map cdtype (fst (read cfg_nc4_old2 dk_ex 0 flags_default ds_packed)) = [F8; I2; I1] /\
  map (fun c => vdtype (val dk_ex c)) (fst (read cfg_nc4_old2 dk_ex 0 flags_default ds_packed)) = [F8; F4; U1] /\
  map fst (run cfg_nc4_old2 dk_ex (fst (read cfg_nc4_old2 dk_ex 0 flags_default ds_packed))
             [OCopy 1; OToMem 3; OEq 1 3; OCopy 2; OToMem 4; OEq 2 4]) =
    [ONone; ONone; OBool false; ONone; ONone; OBool false] /\
  vrun (map (val dk_ex) (fst (read cfg_nc4_old2 dk_ex 0 flags_default ds_packed)))
             [OCopy 1; OToMem 3; OEq 1 3; OCopy 2; OToMem 4; OEq 2 4] =
    [ONone; ONone; OBool true; ONone; ONone; OBool true] /\
  (let ds := [{| vd_var := 0; vd_shape := [2]; vd_role := RData |}] in
   Forall (vdesc_ok dk_trivial 0) ds /\
   map fst (run cfg_nc4_old2 dk_trivial (fst (read cfg_nc4_old2 dk_trivial 0 flags_default ds)) [OCopy 0; OToMem 1; OEq 0 1; OArr 0]) =
     [ONone; ONone; OBool false; OArray [2] F4 [Some 7; Some 8]] /\
   map cdtype (fst (read cfg_nc4_old2 dk_trivial 0 flags_default ds)) = [F8]).
Proof.
  split; [exact ds_packed_ok|]. split; [intros f v a poss _; reflexivity|].
  split; [vm_compute; reflexivity|]. split; [vm_compute; reflexivity|].
  split; [vm_compute; reflexivity|]. split; [vm_compute; reflexivity|].
  cbn zeta. split; [|split; vm_compute; reflexivity].
  repeat constructor; try lia. eexists; (split; [vm_compute; reflexivity|]); vm_compute;
    repeat split; repeat constructor.
Qed.

(* the same three objects with the repaired code *)
Lemma declared_example :
  map cdtype (fst (read cfg_nc4 dk_ex 0 flags_default ds_packed)) = [F8; F4; U1] /\
  map fst (run cfg_h5 dk_ex (fst (read cfg_h5 dk_ex 0 flags_default ds_packed))
             [OCopy 1; OToMem 3; OEq 1 3; OCopy 2; OToMem 4; OEq 2 4; OArr 1; OArr 2]) =
    [ONone; ONone; OBool true; ONone; ONone; OBool true;
     OArray [3] F4 [Some 2; Some 4; Some 6]; OArray [2] U1 [Some 255; Some 3]].
Proof. split; vm_compute; reflexivity. Qed.

(* ------------------------------------------------------------------------- *)
(* the identity values of a single packing attribute (repository 0554e88)      *)
(* ------------------------------------------------------------------------- *)
(* With only one packing attribute the data type presented does not depend on
   the attribute's VALUE (a scale of exactly 1 / an offset of exactly 0 gives
   the type the arithmetic would have given) ... *)
Lemma single_attribute_type u v t z z' :
  realised_dt v {| p_unsigned := u; p_scale := Some (t, z); p_offset := None |} =
  realised_dt v {| p_unsigned := u; p_scale := Some (t, z'); p_offset := None |} /\
  realised_dt v {| p_unsigned := u; p_scale := None; p_offset := Some (t, z) |} =
  realised_dt v {| p_unsigned := u; p_scale := None; p_offset := Some (t, z') |}.
Proof.
  unfold realised_dt; cbn [p_scale p_offset]. split.
  - destruct (negb (z =? 1)), (negb (z' =? 1)); reflexivity.
  - destruct (negb (z =? 0)), (negb (z' =? 0)); reflexivity.
Qed.

(* ... and the identity value leaves every element that the presented type can
   hold as it is stored (as viewed under _Unsigned). *)
Lemma wrap_id d x :
  match dkind_of d with
  | KF => True
  | KU => 0 <= x < 2 ^ (8 * dsize d)
  | KI => - 2 ^ (8 * dsize d) / 2 <= x < 2 ^ (8 * dsize d) / 2
  end -> wrap d x = x.
Proof.
  unfold wrap. assert (Hm : 2 ^ (8 * dsize d) = 2 * (2 ^ (8 * dsize d) / 2)).
  { destruct d; reflexivity. }
  assert (Hp : 0 < 2 ^ (8 * dsize d) / 2) by (destruct d; reflexivity).
  destruct (dkind_of d); intros H.
  - replace (- 2 ^ (8 * dsize d) / 2) with (- (2 ^ (8 * dsize d) / 2)) in H.
    + rewrite Z.mod_small by lia. lia.
    + destruct d; reflexivity.
  - apply Z.mod_small. exact H.
  - reflexivity.
Qed.

Lemma single_identity_keeps_values u v t x :
  let x' := if is_unsigned_view v {| p_unsigned := u; p_scale := Some (t, 1); p_offset := None |}
            then x mod 2 ^ (8 * dsize v) else x in
  let d := promote (view_dt v {| p_unsigned := u; p_scale := Some (t, 1); p_offset := None |}) t in
  wrap d x' = x' ->
  unpack_z v {| p_unsigned := u; p_scale := Some (t, 1); p_offset := None |} x = x' /\
  unpack_z v {| p_unsigned := u; p_scale := None; p_offset := Some (t, 0) |} x = x'.
Proof.
  intros x' d H. unfold unpack_z. cbn [p_scale p_offset]. simpl (negb (1 =? 1)). simpl (negb (0 =? 0)).
  cbn iota. split; exact H.
Qed.

(* With BOTH attributes present the presented type still depends on their values
   (int16 data, float32 scale_factor, float64 add_offset: float32 at the identity
   values, float64 otherwise) - which is why read must look at the values. *)
Lemma both_attributes_type_depends_on_values :
  realised_dt I2 {| p_unsigned := false; p_scale := Some (F4, 1); p_offset := Some (F8, 0) |} = F4 /\
  realised_dt I2 {| p_unsigned := false; p_scale := Some (F4, 2); p_offset := Some (F8, 0) |} = F8 /\
  realised_dt I4 {| p_unsigned := false; p_scale := Some (F4, 1); p_offset := None |} = F8 /\
  realised_dt I4 {| p_unsigned := false; p_scale := Some (F4, 3); p_offset := None |} = F8 /\
  unpack_z I4 {| p_unsigned := false; p_scale := Some (I2, 1); p_offset := None |} 70000 = 70000 /\
  unpack_z I2 {| p_unsigned := true; p_scale := Some (I2, 1); p_offset := None |} (-5) = 65531.
Proof. vm_compute. repeat split; reflexivity. Qed.

(* ------------------------------------------------------------------------- *)
(* the read options (mask, unpack) travel with every derived array             *)
(* ------------------------------------------------------------------------- *)
Definition has_flags (fl0 : flags) (c : cell) : Prop :=
  match c with OnDisk _ _ _ _ fl => fl = fl0 | InMem _ _ _ => True end.

Lemma sub_in_mem C dk c idx c' t : sub C dk c idx = (Ok c', t) -> exists sh d a, c' = InMem sh d a.
Proof.
  destruct c as [f v sh d fl|sh d a]; unfold sub.
  - destruct (parse_indices sh idx) as [ps|e]; [|discriminate].
    destruct (fa_get C dk f v sh fl ps) as [[r|e] t0]; simpl; intros H; inversion H. unfold to_cell. eauto.
  - destruct (getitem sh a idx) as [r|e]; simpl; intros H; inversion H. eauto.
Qed.

Lemma step_keeps_flags C dk fl0 h o :
  copy_keeps C -> Forall (has_flags fl0) h -> Forall (has_flags fl0) (fst (fst (step C dk h o))).
Proof.
  intros Hk Hh. destruct o as [i|i idx|i|i|i idx v|i|i j]; simpl.
  - destruct (nth_error h i) as [c|] eqn:E; [|exact Hh]. cbn [fst]. rewrite (copy_cell_id C c Hk).
    apply Forall_app. split; [exact Hh|]. constructor; [|constructor]. eapply Forall_nth_error; eauto.
  - destruct (nth_error h i) as [c|] eqn:E; [|exact Hh].
    destruct (sub C dk c idx) as [[c'|e] t] eqn:Es; [|exact Hh]. cbn [fst].
    apply sub_in_mem in Es. destruct Es as [sh [d [a Ec]]]. subst c'.
    apply Forall_app. split; [exact Hh|]. constructor; [exact I|constructor].
  - destruct (nth_error h i) as [c|]; [|exact Hh].
    destruct (realise C dk c) as [[[d a]|e] t]; [|exact Hh]. cbn [fst]. apply Forall_set_at; [exact I|exact Hh].
  - destruct (nth_error h i) as [c|]; [|exact Hh].
    destruct (realise C dk c) as [[[d a]|e] t]; exact Hh.
  - destruct (nth_error h i) as [c|]; [|exact Hh].
    destruct (parse_indices (cshape c) idx) as [ps0|e0]; [|exact Hh].
    destruct (realise C dk c) as [[[d0 a0]|e] t]; [|exact Hh].
    destruct (setitem _ _ _ _ _) as [a1|e1]; [|exact Hh]. cbn [fst]. apply Forall_set_at; [exact I|exact Hh].
  - destruct (nth_error h i) as [c|]; [|exact Hh].
    destruct (sub C dk c _) as [[c'|e] t]; [|exact Hh].
    destruct c' as [? ? ? ? ?|? ? a]; [exact Hh|]. destruct (flatten a) as [|x [|y r]]; exact Hh.
  - destruct (nth_error h i) as [c1|]; [|exact Hh]. destruct (nth_error h j) as [c2|]; [|exact Hh].
    destruct (Nat.eqb i j); [exact Hh|]. destruct (negb _); [exact Hh|]. destruct (negb _); [exact Hh|].
    destruct (realise C dk c1) as [[[d1 a1]|e] t1]; [|exact Hh].
    destruct (realise C dk c2) as [[[d2 a2]|e] t2]; exact Hh.
Qed.

(* every array reachable by a history carries the flags of the arrays it started from *)
Theorem run_keeps_flags C dk fl0 h ops :
  copy_keeps C -> Forall (has_flags fl0) h -> Forall (has_flags fl0) (run_heap C dk h ops).
Proof.
  intros Hk. revert h. induction ops as [|o r IH]; intros h Hh; simpl; [exact Hh|].
  pose proof (step_keeps_flags C dk fl0 h o Hk Hh) as Hs.
  destruct (step C dk h o) as [[h' ob] t]. apply IH. exact Hs.
Qed.

Lemma val_val0 fl0 dk c : has_flags fl0 c -> val dk c = val0 fl0 dk c.
Proof. destruct c as [f v sh d fl|sh d a]; simpl; [intros E; subst|]; reflexivity. Qed.

(* ... hence lazy = eager under every combination of the read options: the
   results are those of eager access with the options of the READ *)
Theorem lazy_is_eager_under_options C dk fl0 h ops :
  copy_keeps C -> Forall (cell_ok dk) h -> fetch_ok C dk -> Forall (has_flags fl0) h ->
  map fst (run C dk h ops) = vrun (map (val0 fl0 dk) h) ops.
Proof.
  intros Hk Hok Hf Hfl. rewrite run_denote by assumption. f_equal.
  apply map_ext_in. intros c Hc. apply val_val0. rewrite Forall_forall in Hfl. auto.
Qed.

Lemma read_var_has_flags C dk f fl d : Forall (has_flags fl) (fst (read_var C dk f fl d)).
Proof.
  unfold read_var. destruct (read_fetches d); [|constructor; [reflexivity|constructor]].
  destruct (realise C dk _) as [[[ty a]|e] t]; [|constructor; [reflexivity|constructor]].
  destruct (vd_role d); (constructor; [first [reflexivity|exact I]|constructor]).
Qed.

Lemma read_has_flags C dk f fl ds : Forall (has_flags fl) (fst (read C dk f fl ds)).
Proof.
  unfold read.
  assert (H : Forall (has_flags fl) (fst (read_vars C dk f fl ds))).
  { induction ds as [|d r IH]; simpl; [constructor|].
    pose proof (read_var_has_flags C dk f fl d) as Hv.
    destruct (read_var C dk f fl d) as [c t]. destruct (read_vars C dk f fl r) as [cs ts].
    cbn [fst] in *. apply Forall_app. split; assumption. }
  destruct (read_vars C dk f fl ds) as [cs t]. exact H.
Qed.

(* read with any options, then any history: the flags never change and the
   results are those of eager access under the options of the read *)
Theorem read_options_lazy_is_eager C dk f fl ds ops :
  copy_keeps C -> declares_realised C -> fetch_ok C dk -> Forall (vdesc_ok dk f) ds ->
  Forall (has_flags fl) (run_heap C dk (fst (read C dk f fl ds)) ops) /\
  map fst (run C dk (fst (read C dk f fl ds)) ops) = vrun (map (val0 fl dk) (fst (read C dk f fl ds))) ops.
Proof.
  intros Hk HC Hf Hds. split.
  - apply run_keeps_flags; [exact Hk|apply read_has_flags].
  - apply lazy_is_eager_under_options; auto; [apply read_cells_ok; assumption|apply read_has_flags].
Qed.

Lemma copy_keeps_nc4 : copy_keeps cfg_nc4. Proof. intros fl. reflexivity. Qed.
Lemma copy_keeps_h5 : copy_keeps cfg_h5. Proof. intros fl. reflexivity. Qed.

(* the seeded variant (unpack taken from the source's mask) keeps the flags
   exactly when the two options are equal *)
Lemma swapped_keeps_iff fl : copy_flags_swapped fl = fl <-> fl_mask fl = fl_unpack fl.
Proof.
  destruct fl as [m u]. unfold copy_flags_swapped. simpl. split.
  - intros H. inversion H. reflexivity.
  - intros H. subst. reflexivity.
Qed.

Definition fl_nomask : flags := {| fl_mask := false; fl_unpack := true |}.
Definition fl_nounpack : flags := {| fl_mask := true; fl_unpack := false |}.
Definition ds_one : list vdesc := [{| vd_var := 0; vd_shape := [3; 4]; vd_role := RData |}].

(* read with mask=False through h5netcdf, copy, look at the copy: the copy has
   lost "unpack" and shows the packed int16 values, where the array read (and
   eager access under the options of the read) shows the unpacked float64 values *)
Lemma swap_refuted :
  Forall (vdesc_ok dk_ex 0) ds_one /\ fetch_ok cfg_h5_swap dk_ex /\ declares_realised cfg_h5_swap /\
  map fst (run cfg_h5_swap dk_ex (fst (read cfg_h5_swap dk_ex 0 fl_nomask ds_one)) [OCopy 0; OSub 1 [IInt 0]; OArr 2; OEq 0 1]) =
    [ONone; ONone; OArray [1; 4] I2 [Some 0; Some 1; Some 2; Some 3]; OBool false] /\
  vrun (map (val0 fl_nomask dk_ex) (fst (read cfg_h5_swap dk_ex 0 fl_nomask ds_one))) [OCopy 0; OSub 1 [IInt 0]; OArr 2; OEq 0 1] =
    [ONone; ONone; OArray [1; 4] F8 [Some 0; Some 2; Some 4; Some 6]; OBool true] /\
  ~ Forall (has_flags fl_nomask) (run_heap cfg_h5_swap dk_ex (fst (read cfg_h5_swap dk_ex 0 fl_nomask ds_one)) [OCopy 0]).
Proof.
  split. { repeat constructor; try lia. eexists; (split; [vm_compute; reflexivity|]); vm_compute;
           repeat split; repeat constructor. }
  split; [intros f v a poss _; apply h5_is_nc4|]. split; [intros b fl v p; reflexivity|].
  split; [vm_compute; reflexivity|]. split; [vm_compute; reflexivity|].
  vm_compute. intros H. inversion H as [|? ? _ H2]; subst. inversion H2 as [|? ? H3 _]; subst. discriminate H3.
Qed.

(* the same history under the four option combinations with the real copy *)
Lemma options_example :
  map (fun fl => map fst (run cfg_h5 dk_ex (fst (read cfg_h5 dk_ex 0 fl ds_one)) [OCopy 0; OSub 1 [IInt 0]; OArr 2; OEq 0 1]))
      [flags_default; fl_nomask; fl_nounpack; {| fl_mask := false; fl_unpack := false |}] =
  [[ONone; ONone; OArray [1; 4] F8 [Some 0; Some 2; Some 4; Some 6]; OBool true];
   [ONone; ONone; OArray [1; 4] F8 [Some 0; Some 2; Some 4; Some 6]; OBool true];
   [ONone; ONone; OArray [1; 4] I2 [Some 0; Some 1; Some 2; Some 3]; OBool true];
   [ONone; ONone; OArray [1; 4] I2 [Some 0; Some 1; Some 2; Some 3]; OBool true]].
Proof. vm_compute. reflexivity. Qed.
