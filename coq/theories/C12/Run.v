(* C12 - evaluation entry points for the correspondence harness. *)
From CfdmV Require Import Common.Base Common.PySlice C03.Model C12.Model.
Open Scope Z_scope.

Definition lnat_eqb := list_eqb Nat.eqb.

Definition event_eqb (a b : event) : bool :=
  match a, b with
  | EOpen f, EOpen g => f =? g
  | EClose f, EClose g => f =? g
  | EFetch f v p, EFetch g w q => (f =? g) && (v =? w) && list_eqb lnat_eqb p q
  | _, _ => false
  end.

Definition obs_eqb (a b : obs) : bool :=
  match a, b with
  | ONone, ONone => true
  | OArray s x, OArray t y => list_eqb Z.eqb s t && list_eqb oz_eqb x y
  | OBool x, OBool y => Bool.eqb x y
  | OErr e, OErr f => errk_eqb e f
  | _, _ => false
  end.

Definition step_eqb (a b : obs * trace) : bool :=
  obs_eqb (fst a) (fst b) && list_eqb event_eqb (snd a) (snd b).

(* the file system of a case: (file, variable, shape, flat values) *)
Definition mk_disk (vars : list (Z * Z * list nat * list (option Z))) : disk :=
  lookup2 (map (fun x => let '(f, v, sh, fl) := x in (f, v, reshape sh fl)) vars).

Definition pick (h5 old : bool) : cfg :=
  match h5, old with
  | false, false => cfg_nc4
  | true, false => cfg_h5
  | false, true => cfg_nc4_old
  | true, true => cfg_h5_old
  end.

(* a history: the variables on disk, the Data objects the history starts from,
   the backend (true = h5netcdf), the operations, and what the implementation
   showed for each operation (result, open/fetch/close events). *)
Definition check_ops_cfg (old : bool)
  (c : list (Z * Z * list nat * list (option Z)) * list cell * bool * list op * list (obs * trace)) : bool :=
  let '(vars, h, h5, ops, observed) := c in
  list_eqb step_eqb (run (pick h5 old) (mk_disk vars) h ops) observed.

Definition check_ops := check_ops_cfg false.
Definition check_ops_old := check_ops_cfg true.

(* sorted list of distinct variable numbers *)
Fixpoint insert_z (x : Z) (l : list Z) : list Z :=
  match l with
  | [] => [x]
  | y :: r => if x <? y then x :: y :: r else if x =? y then y :: r else y :: insert_z x r
  end.
Definition sort_z (l : list Z) : list Z := fold_right insert_z [] l.

Definition in_memory_vars (ds : list vdesc) (cs : list cell) : list Z :=
  flat_map (fun dc => match snd dc with InMem _ _ => [vd_var (fst dc)] | _ => [] end) (combine ds cs).

(* a read: the variables (number, shape, role), the backend, and what the
   implementation showed: the set of variables whose values were fetched while
   reading, and the set whose Data is in memory afterwards. *)
Definition check_read
  (c : list (Z * list Z * role) * bool * list Z * list Z) : bool :=
  let '(vars, h5, fetched, inmem) := c in
  let ds := map (fun x => let '(v, sh, r) := x in {| vd_var := v; vd_shape := sh; vd_role := r |}) vars in
  let dk : disk := fun _ v =>
     match find (fun d => vd_var d =? v) ds with
     | Some d => Some (reshape (map Z.to_nat (vd_shape d))
                               (repeat (Some 0) (fold_right Nat.mul 1%nat (map Z.to_nat (vd_shape d)))))
     | None => None
     end in
  let (cs, t) := read (pick h5 false) dk 0 ds in
  list_eqb Z.eqb (sort_z (fetched_vars t)) fetched &&
  list_eqb Z.eqb (sort_z (in_memory_vars ds cs)) inmem &&
  match scan [] t with Some [] => true | _ => false end.

(* the types of the literals, so that a shard whose lists all happen to be empty still type-checks *)
Definition ops_case :=
  (list (Z * Z * list nat * list (option Z)) * list cell * bool * list op * list (obs * trace))%type.
Definition read_case := (list (Z * list Z * role) * bool * list Z * list Z)%type.
