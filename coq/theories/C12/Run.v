(* C12 - evaluation entry points for the correspondence harness. *)
From CfdmV Require Import Common.Base Common.PySlice C03.Model C12.Model.
Open Scope Z_scope.

Definition lnat_eqb := list_eqb Nat.eqb.

Definition event_eqb (a b : event) : bool :=
  match a, b with
  | EOpen f, EOpen g => f =? g
  | EClose f, EClose g => f =? g
  | EFetch f v p, EFetch g w q => (f =? g) && (v =? w) && list_eqb lnat_eqb p q
  | _, _ => false
  end.

Definition obs_eqb (a b : obs) : bool :=
  match a, b with
  | ONone, ONone => true
  | OArray s d x, OArray t e y => list_eqb Z.eqb s t && dt_eqb d e && list_eqb oz_eqb x y
  | OBool x, OBool y => Bool.eqb x y
  | OErr e, OErr f => errk_eqb e f
  | _, _ => false
  end.

Definition step_eqb (a b : obs * trace) : bool :=
  obs_eqb (fst a) (fst b) && list_eqb event_eqb (snd a) (snd b).

(* a variable: type code (Model.dt_code), packing attributes, and what is stored *)
Definition mk_pack (p : bool * option (Z * Z) * option (Z * Z)) : pack :=
  let '(u, sf, ao) := p in
  {| p_unsigned := u;
     p_scale := match sf with Some (c, z) => Some (dt_of_code c, z) | None => None end;
     p_offset := match ao with Some (c, z) => Some (dt_of_code c, z) | None => None end |}.

Definition packspec := (bool * option (Z * Z) * option (Z * Z))%type.

(* the file system of a case: (file, variable, shape, type, packing, fill value, flat stored values) *)
Definition mk_disk (vars : list (Z * Z * list nat * Z * packspec * Z * list (option Z))) : disk :=
  lookup2 (map (fun x => let '(f, v, sh, ty, p, fill, fl) := x in
                         (f, v, {| s_dt := dt_of_code ty; s_pack := mk_pack p; s_raw := reshape sh fl;
                                   s_fill := fill |})) vars).

Definition mk_flags (mu : bool * bool) : flags := {| fl_mask := fst mu; fl_unpack := snd mu |}.

(* 0: the current code; 1: before C12-fix-1; 2: before C12-fix2-1;
   3: the seeded H5netcdfArray.__init__ (unpack copied from mask) *)
Definition pick (h5 : bool) (old : Z) : cfg :=
  match h5, old with
  | false, 1 => cfg_nc4_old
  | true, 1 => cfg_h5_old
  | false, 2 => cfg_nc4_old2
  | true, 2 => cfg_h5_old2
  | true, 3 => cfg_h5_swap
  | false, _ => cfg_nc4
  | true, _ => cfg_h5
  end.

(* the data type each file-backed starting object declares (Data.dtype straight
   after read) is the one the model's reader gives a data variable *)
Definition declared_ok (C : cfg) (dk : disk) (h : list cell) : bool :=
  forallb (fun c => match c with
                    | OnDisk f v _ d fl =>
                      match dk f v with
                      | Some st => dt_eqb d (c_declare C true (fl_unpack fl) (s_dt st) (s_pack st))
                      | None => true
                      end
                    | InMem _ _ _ => true
                    end) h.

(* a history: the variables on disk, the Data objects the history starts from
   (with the data types they declare), the backend (true = h5netcdf), the
   operations, and what the implementation showed for each operation (result,
   open/fetch/close events). *)
Definition check_ops_cfg (old : Z)
  (c : list (Z * Z * list nat * Z * packspec * Z * list (option Z)) * list cell * bool * list op * list (obs * trace)) : bool :=
  let '(vars, h, h5, ops, observed) := c in
  declared_ok (pick h5 old) (mk_disk vars) h &&
  list_eqb step_eqb (run (pick h5 old) (mk_disk vars) h ops) observed.

Definition check_ops := check_ops_cfg 0.
Definition check_ops_old := check_ops_cfg 1.
Definition check_ops_old2 := check_ops_cfg 2.
Definition check_ops_swap := check_ops_cfg 3.

(* sorted list of distinct variable numbers *)
Fixpoint insert_z (x : Z) (l : list Z) : list Z :=
  match l with
  | [] => [x]
  | y :: r => if x <? y then x :: y :: r else if x =? y then y :: r else y :: insert_z x r
  end.
Definition sort_z (l : list Z) : list Z := fold_right insert_z [] l.

Definition in_memory_vars (ds : list vdesc) (cs : list cell) : list Z :=
  flat_map (fun dc => match snd dc with InMem _ _ _ => [vd_var (fst dc)] | _ => [] end) (combine ds cs).

(* (variable, code of the data type its Data object has after read) *)
Definition dtypes_after_read (ds : list vdesc) (cs : list cell) : list (Z * Z) :=
  map (fun dc => (vd_var (fst dc), dt_code (cdtype (snd dc)))) (combine ds cs).

(* a read: the variables (number, shape, role, type, packing), the backend, and
   what the implementation showed: the set of variables whose values were
   fetched while reading, the set whose Data is in memory afterwards, and
   Data.dtype straight after read for every variable that has a Data object. *)
Definition check_read_cfg (old : Z)
  (c : list (Z * list Z * role * Z * packspec) * bool * (bool * bool) * list Z * list Z * list (Z * Z)) : bool :=
  let '(vars, h5, mu, fetched, inmem, dtypes) := c in
  let ds := map (fun x => let '(v, sh, r, _, _) := x in {| vd_var := v; vd_shape := sh; vd_role := r |}) vars in
  let dk : disk := fun _ v =>
     match find (fun x => let '(v', _, _, _, _) := x in v' =? v) vars with
     | Some (_, sh, _, ty, p) =>
       Some {| s_dt := dt_of_code ty; s_pack := mk_pack p;
               s_raw := reshape (map Z.to_nat sh)
                                (repeat (Some 0) (fold_right Nat.mul 1%nat (map Z.to_nat sh)));
               s_fill := 0 |}
     | None => None
     end in
  let (cs, t) := read (pick h5 old) dk 0 (mk_flags mu) ds in
  list_eqb Z.eqb (sort_z (fetched_vars t)) fetched &&
  list_eqb Z.eqb (sort_z (in_memory_vars ds cs)) inmem &&
  forallb (fun o => existsb (fun m => (fst o =? fst m) && (snd o =? snd m)) (dtypes_after_read ds cs)) dtypes &&
  match scan [] t with Some [] => true | _ => false end.

(* only the data types declared after a read with the given options *)
Definition check_read_dtypes
  (c : list (Z * list Z * role * Z * packspec) * bool * (bool * bool) * list Z * list Z * list (Z * Z)) : bool :=
  let '(vars, h5, mu, _, _, dtypes) := c in
  let ds := map (fun x => let '(v, sh, r, _, _) := x in {| vd_var := v; vd_shape := sh; vd_role := r |}) vars in
  let dk : disk := fun _ v =>
     match find (fun x => let '(v', _, _, _, _) := x in v' =? v) vars with
     | Some (_, sh, _, ty, p) =>
       Some {| s_dt := dt_of_code ty; s_pack := mk_pack p;
               s_raw := reshape (map Z.to_nat sh)
                                (repeat (Some 0) (fold_right Nat.mul 1%nat (map Z.to_nat sh)));
               s_fill := 0 |}
     | None => None
     end in
  let (cs, t) := read (pick h5 0) dk 0 (mk_flags mu) ds in
  forallb (fun o => existsb (fun m => (fst o =? fst m) && (snd o =? snd m)) (dtypes_after_read ds cs)) dtypes.

Definition check_read := check_read_cfg 0.
Definition check_read_old2 := check_read_cfg 2.

(* the types of the literals, so that a shard whose lists all happen to be empty still type-checks *)
Definition ops_case :=
  (list (Z * Z * list nat * Z * packspec * Z * list (option Z)) * list cell * bool * list op * list (obs * trace))%type.
Definition read_case := (list (Z * list Z * role * Z * packspec) * bool * (bool * bool) * list Z * list Z * list (Z * Z))%type.
