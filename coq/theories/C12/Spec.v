(* C12 - specification: eager access.  The same histories run on the arrays
   themselves (shape, data type and values, or "no such file"), with numpy's orthogonal
   selection and assignment (C03): no files, no backend, no laziness.  Written
   independently of the file-array machine of Model.v; Lemmas.v shows that the
   machine computes exactly this. *)
From CfdmV Require Import Common.Base Common.PySlice C03.Model C12.Model.
Open Scope Z_scope.

(* shape, data type, and the values when they can be had *)
Definition vcell := (list Z * dt * option nd)%type.

Definition vshape (vc : vcell) : list Z := fst (fst vc).
Definition vdtype (vc : vcell) : dt := snd (fst vc).

(* What eager access to an object sees: for an object on disk, the whole
   variable read and unpacked - the shape, the data type of that array (not
   whatever the file array declares), its values. *)
Definition val (dk : disk) (c : cell) : vcell :=
  match c with
  | OnDisk f v sh d fl =>
    match dk f v with
    | Some st => (sh, s_realised fl st, Some (s_unpacked fl st))
    | None => (sh, d, None)
    end
  | InMem sh d a => (sh, d, Some a)
  end.

(* ... and what eager access under the options the dataset was READ with sees
   (cfdm.read(mask=, unpack=): netcdf_indexer(mask=, unpack=) applied to the whole
   variable), whatever flags the object itself happens to carry. *)
Definition val0 (fl0 : flags) (dk : disk) (c : cell) : vcell :=
  match c with
  | OnDisk f v sh d _ =>
    match dk f v with
    | Some st => (sh, s_realised fl0 st, Some (s_unpacked fl0 st))
    | None => (sh, d, None)
    end
  | InMem sh d a => (sh, d, Some a)
  end.

Definition vget (vc : vcell) (idx : list index) : result vcell :=
  match parse_indices (vshape vc) idx with
  | Err e => Err e
  | Ok ps =>
    match snd vc with
    | None => Err OtherErr
    | Some a =>
      match positions_all (vshape vc) ps with
      | Err e => Err e
      | Ok poss => Ok (zshape (map (@length nat) poss), vdtype vc, Some (orth_take poss a))
      end
    end
  end.

Definition vreal (vc : vcell) : result nd :=
  match snd vc with Some a => Ok a | None => Err OtherErr end.

Definition vstep (h : list vcell) (o : op) : list vcell * obs :=
  match o with
  | OCopy i =>
    match nth_error h i with
    | None => (h, OErr OtherErr)
    | Some c => (h ++ [c], ONone)
    end
  | OSub i idx =>
    match nth_error h i with
    | None => (h, OErr OtherErr)
    | Some c => match vget c idx with
                | Ok c' => (h ++ [c'], ONone)
                | Err e => (h, OErr e)
                end
    end
  | OToMem i =>
    match nth_error h i with
    | None => (h, OErr OtherErr)
    | Some c => match vreal c with
                | Ok a => (set_at i (fst c, Some a) h, ONone)
                | Err e => (h, OErr e)
                end
    end
  | OArr i =>
    match nth_error h i with
    | None => (h, OErr OtherErr)
    | Some c => match vreal c with
                | Ok a => (h, OArray (vshape c) (vdtype c) (flatten a))
                | Err e => (h, OErr e)
                end
    end
  | OSet i idx v =>
    match nth_error h i with
    | None => (h, OErr OtherErr)
    | Some c =>
      let sh := vshape c in
      match parse_indices sh idx with
      | Err e => (h, OErr e)
      | Ok _ =>
        match vreal c with
        | Err e => (h, OErr e)
        | Ok a =>
          match setitem sh a idx (ones sh) (reshape (ones sh) [v]) with
          | Err e => (h, OErr e)
          | Ok a' => (set_at i (sh, vdtype c, Some a') h, ONone)
          end
        end
      end
    end
  | OFirst i =>
    match nth_error h i with
    | None => (h, OErr OtherErr)
    | Some c =>
      match vget c (map (fun _ => ISlice (Some 0) (Some 1) (Some 1)) (vshape c)) with
      | Err e => (h, OErr e)
      | Ok (_, d, Some a) => match flatten a with
                             | [x] => (h, item_obs d x)
                             | _ => (h, OErr ValueErr)
                             end
      | Ok (_, _, None) => (h, OErr OtherErr)
      end
    end
  | OEq i j =>
    match nth_error h i, nth_error h j with
    | Some c1, Some c2 =>
      if Nat.eqb i j then (h, OBool true)
      else if negb (list_eqb Z.eqb (vshape c1) (vshape c2)) then (h, OBool false)
      else if negb (dt_eqb (vdtype c1) (vdtype c2)) then (h, OBool false)
      else
        match vreal c1 with
        | Err e => (h, OErr e)
        | Ok a1 =>
          match vreal c2 with
          | Err e => (h, OErr e)
          | Ok a2 => (h, OBool (list_eqb oz_eqb (flatten a1) (flatten a2)))
          end
        end
    | _, _ => (h, OErr OtherErr)
    end
  end.

Fixpoint vrun (h : list vcell) (ops : list op) : list obs :=
  match ops with
  | [] => []
  | o :: r => let (h', ob) := vstep h o in ob :: vrun h' r
  end.
