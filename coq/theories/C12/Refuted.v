(* C12 - the file arrays as they stood before C12-fix-1 do NOT satisfy
   C12_balanced (F12b): NetCDF4Array.__getitem__ / H5netcdfArray.__getitem__
   called close only after a successful indexing, so an access that raised
   inside the indexing (an out-of-range list reaches dask's normalize_index with
   the dataset open) left the file open for as long as the exception lived.
   Replayed on the implementation: /proc/self/fd shows the file inside the
   except clause, and the wrapper log shows open without close. *)
From CfdmV Require Import Common.Base Common.PySlice C03.Model C12.Model C12.Lemmas.
Open Scope Z_scope.

Theorem C12_old_file_left_open_refuted :
  exists dk h ops, Forall (cell_ok dk) h /\
    scan [] (concat (map snd (run cfg_nc4_old dk h ops))) <> Some [].
Proof. exact balanced_old_refuted. Qed.
Print Assumptions C12_old_file_left_open_refuted.

(* the repaired code on the same history *)
Theorem C12_repaired_same_history :
  map snd (run cfg_nc4 dk_ex heap_ex [OSub 0 [IList [0; 9]]; OSub 0 [IList [2; 0]; ISlice None None (Some (-2))]; OArr 1]) =
  [[EOpen 0; EClose 0]; [EOpen 0; EFetch 0 0 [[2%nat; 0%nat]; [3%nat; 1%nat]]; EClose 0]; []].
Proof. exact balanced_example. Qed.
