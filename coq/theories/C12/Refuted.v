(* C12 - the file arrays as they stood before C12-fix-1 do NOT satisfy
   C12_balanced (F12b): NetCDF4Array.__getitem__ / H5netcdfArray.__getitem__
   called close only after a successful indexing, so an access that raised
   inside the indexing (an out-of-range list reaches dask's normalize_index with
   the dataset open) left the file open for as long as the exception lived.
   Replayed on the implementation: /proc/self/fd shows the file inside the
   except clause, and the wrapper log shows open without close. *)
From CfdmV Require Import Common.Base Common.PySlice C03.Model C12.Model C12.Spec C12.Lemmas.
Open Scope Z_scope.

Theorem C12_old_file_left_open_refuted :
  exists dk h ops, Forall (cell_ok dk) h /\
    scan [] (concat (map snd (run cfg_nc4_old dk h ops))) <> Some [].
Proof. exact balanced_old_refuted. Qed.
Print Assumptions C12_old_file_left_open_refuted.

(* the repaired code on the same history *)
Theorem C12_repaired_same_history :
  map snd (run cfg_nc4 dk_ex heap_ex [OSub 0 [IList [0; 9]]; OSub 0 [IList [2; 0]; ISlice None None (Some (-2))]; OArr 1]) =
  [[EOpen 0; EClose 0]; [EOpen 0; EFetch 0 0 [[2%nat; 0%nat]; [3%nat; 1%nat]]; EClose 0]; []].
Proof. exact balanced_example. Qed.
Print Assumptions C12_repaired_same_history.

(* The reader as it stood before C12-fix2-1 does NOT satisfy
   C12_read_declares_realised_dtype / C12_read_then_lazy_is_eager /
   C12_equals_own_memory_copy (F12e): _create_netcdfarray declared
   numpy.result_type(variable type, add_offset, scale_factor) for the data
   variable of a field and the variable's own type for every other construct,
   while netcdf_indexer returns the unsigned type for _Unsigned variables, the
   type of "data * scale_factor + add_offset" for packed variables of any
   construct, and the bare type of the scale_factor (add_offset) when the scale
   is one and the offset zero.  Witness datasets: a packed coordinate variable
   (int16, float32 scale_factor 2: declared int16, float32 in memory), signed
   bytes marked _Unsigned (declared int8, uint8 in memory), a data variable with
   scale_factor 1 (float32) and add_offset 0 (float64) (declared float64,
   float32 in memory).  Each object differs from its own copy in memory
   (OBool false) where eager access says equal (OBool true).  Replayed on the
   implementation: c.equals(c2) is False after c2.data.to_memory(). *)
Theorem C12_old_declared_dtype_refuted :
  Forall (vdesc_ok dk_ex 0) ds_packed /\ fetch_ok cfg_nc4_old2 dk_ex /\
  map cdtype (fst (read cfg_nc4_old2 dk_ex 0 flags_default ds_packed)) = [F8; I2; I1] /\
  map (fun c => vdtype (val dk_ex c)) (fst (read cfg_nc4_old2 dk_ex 0 flags_default ds_packed)) = [F8; F4; U1] /\
  map fst (run cfg_nc4_old2 dk_ex (fst (read cfg_nc4_old2 dk_ex 0 flags_default ds_packed))
             [OCopy 1; OToMem 3; OEq 1 3; OCopy 2; OToMem 4; OEq 2 4]) =
    [ONone; ONone; OBool false; ONone; ONone; OBool false] /\
  vrun (map (val dk_ex) (fst (read cfg_nc4_old2 dk_ex 0 flags_default ds_packed)))
             [OCopy 1; OToMem 3; OEq 1 3; OCopy 2; OToMem 4; OEq 2 4] =
    [ONone; ONone; OBool true; ONone; ONone; OBool true] /\
  (let ds := [{| vd_var := 0; vd_shape := [2]; vd_role := RData |}] in
   Forall (vdesc_ok dk_trivial 0) ds /\
   map fst (run cfg_nc4_old2 dk_trivial (fst (read cfg_nc4_old2 dk_trivial 0 flags_default ds)) [OCopy 0; OToMem 1; OEq 0 1; OArr 0]) =
     [ONone; ONone; OBool false; OArray [2] F4 [Some 7; Some 8]] /\
   map cdtype (fst (read cfg_nc4_old2 dk_trivial 0 flags_default ds)) = [F8]).
Proof. exact declared_old_refuted. Qed.
Print Assumptions C12_old_declared_dtype_refuted.

(* The seeded variant of H5netcdfArray.__init__ (a copy takes "unpack" from the
   source's "mask") does NOT satisfy C12_flags_carried_unchanged /
   C12_read_options_lazy_is_eager: read with mask=False through h5netcdf, copy,
   subspace the copy, look: the packed int16 values, where eager access under
   the options of the read shows the unpacked float64 values; the copy is not
   equal to the original.  The flags survive exactly when mask = unpack. *)
Theorem C12_swapped_copy_refuted :
  Forall (vdesc_ok dk_ex 0) ds_one /\ fetch_ok cfg_h5_swap dk_ex /\ declares_realised cfg_h5_swap /\
  map fst (run cfg_h5_swap dk_ex (fst (read cfg_h5_swap dk_ex 0 fl_nomask ds_one)) [OCopy 0; OSub 1 [IInt 0]; OArr 2; OEq 0 1]) =
    [ONone; ONone; OArray [1; 4] I2 [Some 0; Some 1; Some 2; Some 3]; OBool false] /\
  vrun (map (val0 fl_nomask dk_ex) (fst (read cfg_h5_swap dk_ex 0 fl_nomask ds_one))) [OCopy 0; OSub 1 [IInt 0]; OArr 2; OEq 0 1] =
    [ONone; ONone; OArray [1; 4] F8 [Some 0; Some 2; Some 4; Some 6]; OBool true] /\
  ~ Forall (has_flags fl_nomask) (run_heap cfg_h5_swap dk_ex (fst (read cfg_h5_swap dk_ex 0 fl_nomask ds_one)) [OCopy 0]).
Proof. exact swap_refuted. Qed.
Print Assumptions C12_swapped_copy_refuted.

Theorem C12_swapped_copy_keeps_iff_options_equal :
  forall fl, copy_flags_swapped fl = fl <-> fl_mask fl = fl_unpack fl.
Proof. exact swapped_keeps_iff. Qed.
Print Assumptions C12_swapped_copy_keeps_iff_options_equal.
