(* C12 - the property theorems, nothing else. *)
From CfdmV Require Import Common.Base Common.PySlice C03.Model C03.Lemmas C12.Model C12.Spec C12.Lemmas Tables.C12Unpack.
Open Scope Z_scope.

(* No file is left open once a data access has returned - or raised: for every
   backend, file system, set of Data objects and history of copy / subspace /
   to_memory / array / assignment / first_element / equals, the trace of each
   single operation opens a file only to close it again before the operation
   ends, and reads it only while it is open.  (With __getitem__ closing the file
   in a finally clause: C12-fix-1; see Refuted.v for the code as it was.) *)
Theorem C12_balanced :
  forall C dk h ops, c_close_on_error C = true ->
  Forall (fun ot => balanced (snd ot)) (run C dk h ops) /\
  balanced (concat (map snd (run C dk h ops))).
Proof. exact run_balanced. Qed.
Print Assumptions C12_balanced.

(* The same for a read followed by any history on the objects it returned. *)
Theorem C12_read_then_history_balanced :
  forall C dk f fl ds ops, c_close_on_error C = true ->
  balanced (snd (read C dk f fl ds) ++ concat (map snd (run C dk (fst (read C dk f fl ds)) ops))).
Proof. exact read_then_run_balanced. Qed.
Print Assumptions C12_read_then_history_balanced.

(* Laziness of read, with the exact exceptions: the only variables whose values
   read fetches are zero-dimensional scalar coordinate variables, the count /
   index / node_count / part_node_count variables (F12a, open) and the node
   coordinates of a geometry without part_node_count (F12c, open). *)
Theorem C12_lazy_read :
  forall C dk f fl ds fv vv p, In (fv, vv, p) (fetches (snd (read C dk f fl ds))) ->
  fv = f /\ exists d, In d ds /\ vd_var d = vv /\
    ((vd_role d = RScalarCoord /\ vd_shape d = []) \/ count_like (vd_role d) = true \/
     vd_role d = RNodeCoord).
Proof. exact read_lazy. Qed.
Print Assumptions C12_lazy_read.

(* The unrestricted statement of the property text ("no array other than
   zero-dimensional scalar coordinate variables") is false of the faithful model. *)
Theorem C12_lazy_read_unrestricted_refuted :
  exists dk f ds d, In d ds /\ (1 <= length (vd_shape d))%nat /\
    In (vd_var d) (fetched_vars (snd (read cfg_nc4 dk f flags_default ds))).
Proof. exact read_unrestricted_refuted. Qed.
Print Assumptions C12_lazy_read_unrestricted_refuted.

(* After read every variable that is neither a scalar coordinate nor such a node
   coordinate is held as (file, address, shape, declared data type): nothing of
   it is in memory. *)
Theorem C12_read_on_disk :
  forall C dk f fl ds d, In d ds -> vd_role d <> RScalarCoord -> vd_role d <> RNodeCoord ->
  In (OnDisk f (vd_var d) (vd_shape d) (declared_of C dk f fl d) fl) (fst (read C dk f fl ds)).
Proof. exact read_on_disk. Qed.
Print Assumptions C12_read_on_disk.

(* A subspace of file data fetches only that part: one open, one fetch of exactly
   the positions the index expression selects (all inside the variable), one
   close, and the new object holds just those elements, unpacked, with the data
   type netcdf_indexer gives them; a subspace that raises has fetched nothing;
   data already in memory never touches a file. *)
Theorem C12_fetch_only :
  forall C dk f v sh d fl idx r t,
  Forall (fun n => 0 <= n) sh -> sub C dk (OnDisk f v sh d fl) idx = (r, t) ->
  match r with
  | Ok c' => exists ps poss st,
      parse_indices sh idx = Ok ps /\ positions_all sh ps = Ok poss /\ dk f v = Some st /\
      t = [EOpen f; EFetch f v poss; EClose f] /\
      c' = InMem (zshape (map (@length nat) poss)) (s_realised fl st)
                 (nd_map (present fl st) (c_fetch C (s_raw st) poss)) /\
      Forall2 (fun n p => Forall (fun i => Z.of_nat i < n) p) sh poss
  | Err _ => fetches t = []
  end.
Proof. exact sub_fetch_only. Qed.
Print Assumptions C12_fetch_only.

Theorem C12_in_memory_no_file_access :
  forall C dk sh d a idx, snd (sub C dk (InMem sh d a) idx) = [] /\ snd (realise C dk (InMem sh d a)) = [].
Proof. exact in_memory_no_file_access. Qed.
Print Assumptions C12_in_memory_no_file_access.

(* Lazy access gives the same data as eager access: for every history (any
   length, any interleaving, errors included) the results of the file-array
   machine - values, shapes, DATA TYPES, equality, errors - are the results of
   the same history run on the unpacked arrays themselves (Spec.v: numpy
   selection and assignment, no files, no backend).  The variables may be
   packed (scale_factor / add_offset of any type, _Unsigned); cell_ok asks that
   a file array declares the data type its data will have in memory, which
   C12_read_declares_realised_dtype shows for everything read returns. *)
Theorem C12_lazy_is_eager :
  forall C dk h ops, copy_keeps C -> Forall (cell_ok dk) h -> fetch_ok C dk ->
  map fst (run C dk h ops) = vrun (map (val dk) h) ops.
Proof. exact run_denote. Qed.
Print Assumptions C12_lazy_is_eager.

(* ... in particular the same as bringing every object into memory first *)
Theorem C12_lazy_eq_eager_heap :
  forall C dk h ops, copy_keeps C -> Forall (cell_ok dk) h -> fetch_ok C dk ->
  map fst (run C dk h ops) = map fst (run C dk (map (eager_cell dk) h) ops).
Proof. exact lazy_eq_eager. Qed.
Print Assumptions C12_lazy_eq_eager_heap.

(* Bringing data into memory changes no later result (equality included: OEq). *)
Theorem C12_to_memory_transparent :
  forall C dk h i ops, copy_keeps C -> Forall (cell_ok dk) h -> fetch_ok C dk ->
  (forall c, nth_error h i = Some c -> content dk c <> None) ->
  map fst (run C dk h ops) = map fst (run C dk (run_heap C dk h [OToMem i]) ops).
Proof. exact to_memory_transparent. Qed.
Print Assumptions C12_to_memory_transparent.

(* Subspacing then realising equals realising then subspacing. *)
Theorem C12_subspace_commutes :
  forall C dk c idx d a, cell_ok dk c -> fetch_ok C dk -> fst (realise C dk c) = Ok (d, a) ->
  fst (sub C dk c idx) = fst (sub C dk (InMem (cshape c) d a) idx).
Proof. exact subspace_commutes. Qed.
Print Assumptions C12_subspace_commutes.

(* Backend-blindness: the backend enters only through its fetch function; two
   backends that return the same elements for the stored variables give the same
   results, the same traces and the same final objects for every history. *)
Theorem C12_backend_blind :
  forall C1 C2 dk h ops, same_backend C1 C2 dk ->
  run C1 dk h ops = run C2 dk h ops /\ run_heap C1 dk h ops = run_heap C2 dk h ops.
Proof. exact run_blind. Qed.
Print Assumptions C12_backend_blind.

(* The h5netcdf path of netcdf_indexer._index (read the sorted distinct
   positions, then restore order and repeats with the inverse permutation; a
   negative-step slice likewise) returns exactly what netCDF4's own orthogonal
   indexing returns, for every array and every list of positions; and what it
   hands to h5py is strictly increasing. *)
Theorem C12_h5_equals_nc4 :
  forall a poss, h5_fetch a poss = nc4_fetch a poss.
Proof. exact h5_is_nc4. Qed.
Print Assumptions C12_h5_equals_nc4.

Theorem C12_h5_reads_increasing :
  forall l, increasing (uniq_sorted l) = true /\ forall x, In x l -> In x (uniq_sorted l).
Proof. exact h5_reads_increasing. Qed.
Print Assumptions C12_h5_reads_increasing.

(* hence the two backends are indistinguishable over every history *)
Theorem C12_backends_agree :
  forall dk h ops, run cfg_nc4 dk h ops = run cfg_h5 dk h ops.
Proof. exact backends_agree. Qed.
Print Assumptions C12_backends_agree.

(* Non-vacuity: a concrete history meeting the hypotheses above, with real work,
   on a short variable packed with a float32 scale_factor 2 and a float64 add_offset 0. *)
Theorem C12_example :
  Forall (cell_ok dk_ex) heap_ex /\
  map fst (run cfg_h5 dk_ex heap_ex
             [OSub 0 [IList [2; 0; 2]; ISlice None None (Some (-3))]; OArr 1; OSet 1 [IInt 0] None; OFirst 1; OEq 0 1;
              OCopy 0; OToMem 2; OEq 0 2]) =
  [ONone; OArray [3; 2] F8 [Some 22; Some 16; Some 6; Some 0; Some 22; Some 16]; ONone; OArray [] F8 [None]; OBool false;
   ONone; ONone; OBool true].
Proof. exact denote_example. Qed.
Print Assumptions C12_example.

(* ---- data types: packed and unsigned variables ---------------------------------- *)

(* The Gallina promote / realised_dt / unpack_z ARE numpy.promote_types and
   netcdf_indexer (_Unsigned view, _unpack) on the whole finite domain: every
   variable type x _Unsigned x scale_factor (any type; one or not) x add_offset
   (any type; zero or not) - the type of the array returned for an empty array
   (which is how read finds the type to declare) and for one with elements, and
   the unpacked sample values.  Tables regenerated from the tree under test on
   every build (harness/tables_d/c12.py), swept by vm_compute. *)
Theorem C12_promote_is_numpy :
  forall a b c, In (a, b, c) numpy_promote_table -> dt_code (promote (dt_of_code a) (dt_of_code b)) = c.
Proof. exact promote_is_numpy. Qed.
Print Assumptions C12_promote_is_numpy.

Theorem C12_unpack_is_indexer :
  forall v uns sf ao got raw vals, In (v, uns, sf, ao, got, raw, vals) indexer_unpack_table ->
  dt_code (realised_dt (dt_of_code v) (pack_of_row uns sf ao)) = got /\
  map (unpack_z (dt_of_code v) (pack_of_row uns sf ao)) raw = vals.
Proof. exact unpack_is_indexer. Qed.
Print Assumptions C12_unpack_is_indexer.

(* Unpacking is elementwise: the part of the unpacked array that an index
   selects is the unpacked part (what makes a subspace of packed file data right). *)
Theorem C12_unpack_commutes_with_subspace :
  forall g poss a, orth_take poss (nd_map g a) = nd_map g (orth_take poss a).
Proof. exact orth_take_nd_map. Qed.
Print Assumptions C12_unpack_commutes_with_subspace.

(* Every object read returns declares the data type its data will have in memory
   (cell_ok), whatever the packing attributes and the role of the variable ... *)
Theorem C12_read_declares_realised_dtype :
  forall C dk f fl ds, declares_realised C -> Forall (vdesc_ok dk f) ds ->
  Forall (cell_ok dk) (fst (read C dk f fl ds)).
Proof. exact read_cells_ok. Qed.
Print Assumptions C12_read_declares_realised_dtype.

(* ... hence every history on what read returned shows what eager access shows,
   data types included: bringing data into memory changes no result ... *)
Theorem C12_read_then_lazy_is_eager :
  forall C dk f fl ds ops, copy_keeps C -> declares_realised C -> fetch_ok C dk -> Forall (vdesc_ok dk f) ds ->
  map fst (run C dk (fst (read C dk f fl ds)) ops) = vrun (map (val dk) (fst (read C dk f fl ds))) ops.
Proof. exact read_then_lazy_is_eager. Qed.
Print Assumptions C12_read_then_lazy_is_eager.

(* ... and x.equals(a copy of x brought into memory) is True. *)
Theorem C12_equals_own_memory_copy :
  forall C dk f fl ds i c, copy_keeps C -> declares_realised C -> fetch_ok C dk -> Forall (vdesc_ok dk f) ds ->
  nth_error (fst (read C dk f fl ds)) i = Some c -> content dk c <> None ->
  map fst (run C dk (fst (read C dk f fl ds))
             [OCopy i; OToMem (length (fst (read C dk f fl ds))); OEq i (length (fst (read C dk f fl ds)))]) =
  [ONone; ONone; OBool true].
Proof. exact read_equals_own_memory_copy. Qed.
Print Assumptions C12_equals_own_memory_copy.

(* Non-vacuity: both configurations meet declares_realised; a packed coordinate
   variable and signed bytes marked _Unsigned, read and compared with their own
   copies in memory. *)
Theorem C12_declared_dtype_example :
  declares_realised cfg_nc4 /\ declares_realised cfg_h5 /\ Forall (vdesc_ok dk_ex 0) ds_packed /\
  map cdtype (fst (read cfg_nc4 dk_ex 0 flags_default ds_packed)) = [F8; F4; U1] /\
  map fst (run cfg_h5 dk_ex (fst (read cfg_h5 dk_ex 0 flags_default ds_packed))
             [OCopy 1; OToMem 3; OEq 1 3; OCopy 2; OToMem 4; OEq 2 4; OArr 1; OArr 2]) =
    [ONone; ONone; OBool true; ONone; ONone; OBool true;
     OArray [3] F4 [Some 2; Some 4; Some 6]; OArray [2] U1 [Some 255; Some 3]].
Proof.
  split; [exact declares_realised_nc4|]. split; [exact declares_realised_h5|].
  split; [exact ds_packed_ok|]. exact declared_example.
Qed.
Print Assumptions C12_declared_dtype_example.

(* ---- identity values of the packing attributes (repository commit 0554e88) ------- *)

(* With only a scale_factor, or only an add_offset, the data type presented does
   not depend on the attribute's value: exactly 1 / exactly 0 gives the type the
   arithmetic would have given. *)
Theorem C12_single_attribute_type_value_independent :
  forall u v t z z',
  realised_dt v {| p_unsigned := u; p_scale := Some (t, z); p_offset := None |} =
  realised_dt v {| p_unsigned := u; p_scale := Some (t, z'); p_offset := None |} /\
  realised_dt v {| p_unsigned := u; p_scale := None; p_offset := Some (t, z) |} =
  realised_dt v {| p_unsigned := u; p_scale := None; p_offset := Some (t, z') |}.
Proof. exact single_attribute_type. Qed.
Print Assumptions C12_single_attribute_type_value_independent.

(* ... and the identity value changes no element that the presented type holds
   (x': the stored value as viewed under _Unsigned). *)
Theorem C12_single_identity_keeps_values :
  forall u v t x,
  let x' := if is_unsigned_view v {| p_unsigned := u; p_scale := Some (t, 1); p_offset := None |}
            then x mod 2 ^ (8 * dsize v) else x in
  let d := promote (view_dt v {| p_unsigned := u; p_scale := Some (t, 1); p_offset := None |}) t in
  wrap d x' = x' ->
  unpack_z v {| p_unsigned := u; p_scale := Some (t, 1); p_offset := None |} x = x' /\
  unpack_z v {| p_unsigned := u; p_scale := None; p_offset := Some (t, 0) |} x = x'.
Proof. exact single_identity_keeps_values. Qed.
Print Assumptions C12_single_identity_keeps_values.

(* the hypothesis is met whenever the value lies in the range of the type *)
Theorem C12_wrap_identity_in_range :
  forall d x,
  match dkind_of d with
  | KF => True
  | KU => 0 <= x < 2 ^ (8 * dsize d)
  | KI => - 2 ^ (8 * dsize d) / 2 <= x < 2 ^ (8 * dsize d) / 2
  end -> wrap d x = x.
Proof. exact wrap_id. Qed.
Print Assumptions C12_wrap_identity_in_range.

(* Non-vacuity, and the reason read has to look at the values when BOTH attributes
   are present: the presented type then still depends on them. *)
Theorem C12_identity_packing_example :
  realised_dt I2 {| p_unsigned := false; p_scale := Some (F4, 1); p_offset := Some (F8, 0) |} = F4 /\
  realised_dt I2 {| p_unsigned := false; p_scale := Some (F4, 2); p_offset := Some (F8, 0) |} = F8 /\
  realised_dt I4 {| p_unsigned := false; p_scale := Some (F4, 1); p_offset := None |} = F8 /\
  realised_dt I4 {| p_unsigned := false; p_scale := Some (F4, 3); p_offset := None |} = F8 /\
  unpack_z I4 {| p_unsigned := false; p_scale := Some (I2, 1); p_offset := None |} 70000 = 70000 /\
  unpack_z I2 {| p_unsigned := true; p_scale := Some (I2, 1); p_offset := None |} (-5) = 65531.
Proof. exact both_attributes_type_depends_on_values. Qed.
Print Assumptions C12_identity_packing_example.

(* ---- the read options cfdm.read(mask=, unpack=) ------------------------------------ *)

(* Every array reachable by a history - copies, subspaces, arrays brought into
   memory - carries the (mask, unpack) components of the arrays the history
   started from (for a copy that takes each component from the same component of
   its source: copy_keeps; true of cfg_nc4 and cfg_h5). *)
Theorem C12_flags_carried_unchanged :
  forall C dk fl0 h ops, copy_keeps C -> Forall (has_flags fl0) h ->
  Forall (has_flags fl0) (run_heap C dk h ops).
Proof. exact run_keeps_flags. Qed.
Print Assumptions C12_flags_carried_unchanged.

(* Hence lazy = eager under every combination of the read options: every
   history shows what eager access under the options of the READ shows
   (val0 fl0: netcdf_indexer(mask=, unpack=) on the whole variable). *)
Theorem C12_lazy_is_eager_under_options :
  forall C dk fl0 h ops, copy_keeps C -> Forall (cell_ok dk) h -> fetch_ok C dk -> Forall (has_flags fl0) h ->
  map fst (run C dk h ops) = vrun (map (val0 fl0 dk) h) ops.
Proof. exact lazy_is_eager_under_options. Qed.
Print Assumptions C12_lazy_is_eager_under_options.

(* ... in particular for what read returns, whatever options it was given. *)
Theorem C12_read_options_lazy_is_eager :
  forall C dk f fl ds ops,
  copy_keeps C -> declares_realised C -> fetch_ok C dk -> Forall (vdesc_ok dk f) ds ->
  Forall (has_flags fl) (run_heap C dk (fst (read C dk f fl ds)) ops) /\
  map fst (run C dk (fst (read C dk f fl ds)) ops) = vrun (map (val0 fl dk) (fst (read C dk f fl ds))) ops.
Proof. exact read_options_lazy_is_eager. Qed.
Print Assumptions C12_read_options_lazy_is_eager.

(* Non-vacuity: both backends meet copy_keeps; one history (copy, subspace of the
   copy, its array, equality with the original) under the four combinations. *)
Theorem C12_options_example :
  copy_keeps cfg_nc4 /\ copy_keeps cfg_h5 /\
  map (fun fl => map fst (run cfg_h5 dk_ex (fst (read cfg_h5 dk_ex 0 fl ds_one)) [OCopy 0; OSub 1 [IInt 0]; OArr 2; OEq 0 1]))
      [flags_default; fl_nomask; fl_nounpack; {| fl_mask := false; fl_unpack := false |}] =
  [[ONone; ONone; OArray [1; 4] F8 [Some 0; Some 2; Some 4; Some 6]; OBool true];
   [ONone; ONone; OArray [1; 4] F8 [Some 0; Some 2; Some 4; Some 6]; OBool true];
   [ONone; ONone; OArray [1; 4] I2 [Some 0; Some 1; Some 2; Some 3]; OBool true];
   [ONone; ONone; OArray [1; 4] I2 [Some 0; Some 1; Some 2; Some 3]; OBool true]].
Proof. split; [exact copy_keeps_nc4|]. split; [exact copy_keeps_h5|]. exact options_example. Qed.
Print Assumptions C12_options_example.
