(* C12 - executable model of cfdm's lazy file arrays.
   Anchors: cfdm/data/netcdf4array.py and cfdm/data/h5netcdfarray.py
   (__getitem__: open, index, close), cfdm/data/mixin/netcdffilemixin.py
   (array, to_memory), cfdm/data/mixin/filearraymixin.py (open),
   cfdm/data/netcdfindexer.py (_index: the h5netcdf sort/unique/reorder path),
   cfdm/data/data.py (__getitem__, __setitem__, array, to_memory, copy,
   first_element, equals), cfdm/read_write/netcdf/netcdfread.py (read: which
   variables are fetched while reading, _create_netcdfarray).
   Index normalisation and orthogonal selection are those of C03.Model.
   Definitions only. *)
From CfdmV Require Import Common.Base Common.PySlice C03.Model.
Open Scope Z_scope.

(* ---- traces ----------------------------------------------------------------- *)
(* What a file array does to the file system.  Files and variables are numbered. *)
Inductive event :=
| EOpen (f : Z)
| EFetch (f v : Z) (poss : list (list nat))   (* per-axis positions read *)
| EClose (f : Z).

Definition trace := list event.

Fixpoint remove_one (f : Z) (l : list Z) : option (list Z) :=
  match l with
  | [] => None
  | g :: r => if f =? g then Some r
              else match remove_one f r with Some r' => Some (g :: r') | None => None end
  end.

(* Replay a trace against the multiset of open files; None when a file is read
   or closed while it is not open. *)
Fixpoint scan (opened : list Z) (t : trace) : option (list Z) :=
  match t with
  | [] => Some opened
  | EOpen f :: r => scan (f :: opened) r
  | EFetch f _ _ :: r => if existsb (Z.eqb f) opened then scan opened r else None
  | EClose f :: r => match remove_one f opened with Some o => scan o r | None => None end
  end.

(* every file opened by the trace is closed again, and is open while it is read *)
Definition balanced (t : trace) : Prop := scan [] t = Some [].

Fixpoint fetches (t : trace) : list (Z * Z * list (list nat)) :=
  match t with
  | [] => []
  | EFetch f v p :: r => (f, v, p) :: fetches r
  | _ :: r => fetches r
  end.

(* ---- the file system and the two backends ------------------------------------- *)
(* file number -> variable number -> the array stored there (None: no such file) *)
Definition disk := Z -> Z -> option nd.

Fixpoint lookup2 (l : list (Z * Z * nd)) (f v : Z) : option nd :=
  match l with
  | [] => None
  | (f', v', a) :: r => if (f =? f') && (v =? v') then Some a else lookup2 r f v
  end.

(* netCDF4.Variable indexes orthogonally by itself *)
Definition nc4_fetch (a : nd) (poss : list (list nat)) : nd := orth_take poss a.

(* h5netcdf/h5py accept only strictly increasing lists and positive steps:
   netcdf_indexer._index reads the sorted unique positions and restores the
   requested order (np.unique(..., return_inverse=True); np.ma.take(inverse)).
   A negative-step slice is read as the equivalent positive-step slice and the
   axis reversed afterwards, which is the same thing at the level of positions. *)
Fixpoint insert_u (x : nat) (l : list nat) : list nat :=
  match l with
  | [] => [x]
  | y :: r => if (x <? y)%nat then x :: y :: r
              else if (x =? y)%nat then y :: r
              else y :: insert_u x r
  end.

Definition uniq_sorted (l : list nat) : list nat := fold_right insert_u [] l.

Fixpoint index_in (x : nat) (u : list nat) : nat :=
  match u with
  | [] => 0%nat
  | y :: r => if (x =? y)%nat then 0%nat else S (index_in x r)
  end.

Fixpoint increasing (l : list nat) : bool :=
  match l with
  | x :: ((y :: _) as r) => (x <? y)%nat && increasing r
  | _ => true
  end.

Definition h5_axis (d : nat) (p : list nat) (a : nd) : nd :=
  if increasing p then take d p a
  else let u := uniq_sorted p in
       take d (map (fun x => index_in x u) p) (take d u a).

Definition h5_fetch (a : nd) (poss : list (list nat)) : nd :=
  fold_left (fun acc op => h5_axis (fst op) (snd op) acc)
            (combine (seq 0 (length poss)) poss) a.

(* The only places where the backend (and the repair of F12b) enter the model. *)
Record cfg := {
  c_fetch : nd -> list (list nat) -> nd;
  c_close_on_error : bool      (* __getitem__ closes the file in a finally clause *)
}.

Definition cfg_nc4 : cfg := {| c_fetch := nc4_fetch; c_close_on_error := true |}.
Definition cfg_h5 : cfg := {| c_fetch := h5_fetch; c_close_on_error := true |}.
(* the code as it stood before C12-fix-1: no close when the indexing raises *)
Definition cfg_nc4_old : cfg := {| c_fetch := nc4_fetch; c_close_on_error := false |}.
Definition cfg_h5_old : cfg := {| c_fetch := h5_fetch; c_close_on_error := false |}.

(* ---- data objects ------------------------------------------------------------ *)
(* The array held by a Data object: a file array (file, address, shape: all that
   is needed to fetch later) or a numpy array in memory. *)
Inductive cell :=
| OnDisk (f v : Z) (shape : list Z)
| InMem (shape : list Z) (a : nd).

Definition cshape (c : cell) : list Z :=
  match c with OnDisk _ _ sh => sh | InMem sh _ => sh end.

Definition content (dk : disk) (c : cell) : option nd :=
  match c with OnDisk f v _ => dk f v | InMem _ a => Some a end.

Definition full_ps (sh : list Z) : list pindex := map (fun _ => pall) sh.

(* NetCDF4Array.__getitem__ / H5netcdfArray.__getitem__ with the per-axis
   indices [ps] produced by Data._parse_indices (or Ellipsis = full_ps):
   FileArrayMixin.open raises FileNotFoundError before anything is opened;
   dask's normalize_index (inside netcdf_indexer._index) raises IndexError
   after the file has been opened. *)
Definition fa_get (C : cfg) (dk : disk) (f v : Z) (sh : list Z) (ps : list pindex)
  : result (list nat * nd) * trace :=
  match dk f v with
  | None => (Err OtherErr, [])
  | Some a =>
    match positions_all sh ps with
    | Err e => (Err e, EOpen f :: (if c_close_on_error C then [EClose f] else []))
    | Ok poss => (Ok (map (@length nat) poss, c_fetch C a poss),
                  [EOpen f; EFetch f v poss; EClose f])
    end
  end.

Definition zshape (s : list nat) : list Z := map Z.of_nat s.

Definition to_cell (r : list nat * nd) : cell := InMem (zshape (fst r)) (snd r).

(* Data.__getitem__: parse the indices, index the underlying array, wrap the
   numpy result in a new Data. *)
Definition sub (C : cfg) (dk : disk) (c : cell) (idx : list index) : result cell * trace :=
  match c with
  | InMem sh a => (rbind (getitem sh a idx) (fun r => Ok (to_cell r)), [])
  | OnDisk f v sh =>
    match parse_indices sh idx with
    | Err e => (Err e, [])
    | Ok ps => let (r, t) := fa_get C dk f v sh ps in (rbind r (fun r => Ok (to_cell r)), t)
    end
  end.

(* Data.array / source().to_memory(): the whole array *)
Definition realise (C : cfg) (dk : disk) (c : cell) : result nd * trace :=
  match c with
  | InMem _ a => (Ok a, [])
  | OnDisk f v sh =>
    let (r, t) := fa_get C dk f v sh (full_ps sh) in (rbind r (fun r => Ok (snd r)), t)
  end.

(* ---- operations on a heap of Data objects ------------------------------------ *)
Inductive op :=
| OCopy (i : nat)                               (* d.copy()                      *)
| OSub (i : nat) (idx : list index)             (* d[idx]          (new object)  *)
| OToMem (i : nat)                              (* d.to_memory(inplace=True)     *)
| OArr (i : nat)                                (* d.array                       *)
| OSet (i : nat) (idx : list index) (v : option Z) (* d[idx] = v or cfdm.masked  *)
| OFirst (i : nat)                              (* d.first_element()             *)
| OEq (i j : nat).                              (* d_i.equals(d_j)               *)

Inductive obs :=
| ONone
| OArray (sh : list Z) (flat : list (option Z))
| OBool (b : bool)
| OErr (e : errk).

Fixpoint set_at {A} (i : nat) (c : A) (h : list A) : list A :=
  match h, i with
  | [], _ => []
  | _ :: r, O => c :: r
  | x :: r, S i' => x :: set_at i' c r
  end.

Definition ones (sh : list Z) : list nat := map (fun _ => 1%nat) sh.

Definition oz_eqb := option_eqb Z.eqb.

Definition step (C : cfg) (dk : disk) (h : list cell) (o : op) : list cell * obs * trace :=
  match o with
  | OCopy i =>
    match nth_error h i with
    | None => (h, OErr OtherErr, [])
    | Some c => (h ++ [c], ONone, [])
    end
  | OSub i idx =>
    match nth_error h i with
    | None => (h, OErr OtherErr, [])
    | Some c =>
      match sub C dk c idx with
      | (Ok c', t) => (h ++ [c'], ONone, t)
      | (Err e, t) => (h, OErr e, t)
      end
    end
  | OToMem i =>
    match nth_error h i with
    | None => (h, OErr OtherErr, [])
    | Some c =>
      match realise C dk c with
      | (Ok a, t) => (set_at i (InMem (cshape c) a) h, ONone, t)
      | (Err e, t) => (h, OErr e, t)
      end
    end
  | OArr i =>
    match nth_error h i with
    | None => (h, OErr OtherErr, [])
    | Some c =>
      match realise C dk c with
      | (Ok a, t) => (h, OArray (cshape c) (flatten a), t)
      | (Err e, t) => (h, OErr e, t)
      end
    end
  | OSet i idx v =>
    (* _parse_indices; array = self.array; _set_subspace; _set_Array *)
    match nth_error h i with
    | None => (h, OErr OtherErr, [])
    | Some c =>
      let sh := cshape c in
      match parse_indices sh idx with
      | Err e => (h, OErr e, [])
      | Ok _ =>
        match realise C dk c with
        | (Err e, t) => (h, OErr e, t)
        | (Ok a, t) =>
          match setitem sh a idx (ones sh) (reshape (ones sh) [v]) with
          | Err e => (h, OErr e, t)
          | Ok a' => (set_at i (InMem sh a') h, ONone, t)
          end
        end
      end
    end
  | OFirst i =>
    (* self[(slice(0, 1, 1),) * ndim].array ; .item() of anything but one element raises *)
    match nth_error h i with
    | None => (h, OErr OtherErr, [])
    | Some c =>
      match sub C dk c (map (fun _ => ISlice (Some 0) (Some 1) (Some 1)) (cshape c)) with
      | (Err e, t) => (h, OErr e, t)
      | (Ok c', t) =>
        match c' with
        | InMem _ a => match flatten a with
                       | [x] => (h, OArray [] [x], t)
                       | _ => (h, OErr ValueErr, t)
                       end
        | OnDisk _ _ _ => (h, OErr OtherErr, t)
        end
      end
    end
  | OEq i j =>
    (* identity shortcut; shapes; then self.array and other.array are compared *)
    match nth_error h i, nth_error h j with
    | Some c1, Some c2 =>
      if Nat.eqb i j then (h, OBool true, [])
      else if negb (list_eqb Z.eqb (cshape c1) (cshape c2)) then (h, OBool false, [])
      else
        match realise C dk c1 with
        | (Err e, t) => (h, OErr e, t)
        | (Ok a1, t1) =>
          match realise C dk c2 with
          | (Err e, t2) => (h, OErr e, t1 ++ t2)
          | (Ok a2, t2) => (h, OBool (list_eqb oz_eqb (flatten a1) (flatten a2)), t1 ++ t2)
          end
        end
    | _, _ => (h, OErr OtherErr, [])
    end
  end.

(* observation and trace of every operation of a history *)
Fixpoint run (C : cfg) (dk : disk) (h : list cell) (ops : list op) : list (obs * trace) :=
  match ops with
  | [] => []
  | o :: r => let '(h', ob, t) := step C dk h o in (ob, t) :: run C dk h' r
  end.

Fixpoint run_heap (C : cfg) (dk : disk) (h : list cell) (ops : list op) : list cell :=
  match ops with
  | [] => h
  | o :: r => let '(h', _, _) := step C dk h o in run_heap C dk h' r
  end.

(* eager access: every object brought into memory before the history starts *)
Definition eager_cell (dk : disk) (c : cell) : cell :=
  match c with
  | InMem _ _ => c
  | OnDisk f v sh => match dk f v with Some a => InMem sh a | None => c end
  end.

(* ---- cfdm.read ----------------------------------------------------------------- *)
(* The netCDF variables of a dataset, by the role the reader gives them. *)
Inductive role :=
| RData             (* data variable of a field                                  *)
| RCoord            (* coordinate / ancillary / cell measure variable, any rank  *)
| RScalarCoord      (* coordinate variable named by a field but spanning no
                       dimension: construct_insert_dimension realises it         *)
| RBounds           (* bounds, node coordinates, interior ring                   *)
| RNodeCoord        (* node coordinates of a geometry container that has no
                       part_node_count: bounds_insert_dimension realises them   *)
| RCount            (* DSG count variable (sample_dimension)                     *)
| RIndex            (* DSG index variable (instance_dimension)                   *)
| RNodeCount        (* geometry node_count                                       *)
| RPartNodeCount    (* geometry part_node_count                                  *)
| RList.            (* list variable of compression by gathering                 *)

Record vdesc := { vd_var : Z; vd_shape : list Z; vd_role : role }.

(* does read look at the values of this variable?  Rank-0 coordinates are given a
   size-1 axis (their value is read for that); the element dimension of a ragged
   array is the maximum count, and the part -> cell index of a geometry is
   derived from both count variables, so these are read too (F12a).  The node
   coordinates of a geometry without part_node_count are uncompressed in order
   to be given a part dimension (F12c). *)
Definition count_like (r : role) : bool :=
  match r with RCount | RIndex | RNodeCount | RPartNodeCount => true | _ => false end.

Definition read_fetches (d : vdesc) : bool :=
  match vd_role d with
  | RScalarCoord => Nat.eqb (length (vd_shape d)) 0
  | RNodeCoord => true
  | r => count_like r
  end.

(* the Data object created for one variable, and what creating it did *)
Definition read_var (C : cfg) (dk : disk) (f : Z) (d : vdesc) : list cell * trace :=
  let c := OnDisk f (vd_var d) (vd_shape d) in
  if read_fetches d then
    match realise C dk c with
    | (Ok a, t) =>
      match vd_role d with
      | RScalarCoord => ([InMem [1] (Node [a])], t)   (* insert_dimension: now in memory *)
      | RNodeCoord => ([InMem (vd_shape d) a], t)     (* a size-1 part dimension is inserted into
                                                         the uncompressed array (layout not modelled) *)
      | _ => ([c], t)                                 (* values used, object stays lazy  *)
      end
    | (Err _, t) => ([c], t)
    end
  else ([c], []).

Fixpoint read_vars (C : cfg) (dk : disk) (f : Z) (ds : list vdesc) : list cell * trace :=
  match ds with
  | [] => ([], [])
  | d :: r => let (c, t) := read_var C dk f d in
              let (cs, ts) := read_vars C dk f r in (c ++ cs, t ++ ts)
  end.

(* read: the dataset is opened once, scanned, and closed before returning
   (read_vars["datasets"], file_close). *)
Definition read (C : cfg) (dk : disk) (f : Z) (ds : list vdesc) : list cell * trace :=
  let (cs, t) := read_vars C dk f ds in (cs, EOpen f :: t ++ [EClose f]).

Definition fetched_vars (t : trace) : list Z := map (fun x => snd (fst x)) (fetches t).
