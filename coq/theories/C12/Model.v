(* C12 - executable model of cfdm's lazy file arrays.
   Anchors: cfdm/data/netcdf4array.py and cfdm/data/h5netcdfarray.py
   (__getitem__: open, index, close), cfdm/data/mixin/netcdffilemixin.py
   (array, to_memory), cfdm/data/mixin/filearraymixin.py (open),
   cfdm/data/netcdfindexer.py (_index: the h5netcdf sort/unique/reorder path),
   cfdm/data/data.py (__getitem__, __setitem__, array, to_memory, copy,
   first_element, equals), cfdm/read_write/netcdf/netcdfread.py (read: which
   variables are fetched while reading, _create_netcdfarray: the data type a
   file array declares), cfdm/data/netcdfindexer.py (_unpack and the _Unsigned
   view: the data type and the values of the array once it is in memory).
   Index normalisation and orthogonal selection are those of C03.Model.
   Definitions only. *)
From CfdmV Require Import Common.Base Common.PySlice C03.Model.
Open Scope Z_scope.

(* ---- traces ----------------------------------------------------------------- *)
(* What a file array does to the file system.  Files and variables are numbered. *)
Inductive event :=
| EOpen (f : Z)
| EFetch (f v : Z) (poss : list (list nat))   (* per-axis positions read *)
| EClose (f : Z).

Definition trace := list event.

Fixpoint remove_one (f : Z) (l : list Z) : option (list Z) :=
  match l with
  | [] => None
  | g :: r => if f =? g then Some r
              else match remove_one f r with Some r' => Some (g :: r') | None => None end
  end.

(* Replay a trace against the multiset of open files; None when a file is read
   or closed while it is not open. *)
Fixpoint scan (opened : list Z) (t : trace) : option (list Z) :=
  match t with
  | [] => Some opened
  | EOpen f :: r => scan (f :: opened) r
  | EFetch f _ _ :: r => if existsb (Z.eqb f) opened then scan opened r else None
  | EClose f :: r => match remove_one f opened with Some o => scan o r | None => None end
  end.

(* every file opened by the trace is closed again, and is open while it is read *)
Definition balanced (t : trace) : Prop := scan [] t = Some [].

Fixpoint fetches (t : trace) : list (Z * Z * list (list nat)) :=
  match t with
  | [] => []
  | EFetch f v p :: r => (f, v, p) :: fetches r
  | _ :: r => fetches r
  end.

(* ---- data types and packing --------------------------------------------------- *)
(* The numeric netCDF / numpy data types. *)
Inductive dt := I1 | I2 | I4 | I8 | U1 | U2 | U4 | U8 | F4 | F8.
Inductive dkind := KI | KU | KF.

Definition dkind_of (d : dt) : dkind :=
  match d with I1 | I2 | I4 | I8 => KI | U1 | U2 | U4 | U8 => KU | F4 | F8 => KF end.

Definition dsize (d : dt) : Z :=
  match d with I1 | U1 => 1 | I2 | U2 => 2 | I4 | U4 | F4 => 4 | I8 | U8 | F8 => 8 end.

Definition mk_dt (k : dkind) (s : Z) : dt :=
  match k with
  | KI => if s <=? 1 then I1 else if s <=? 2 then I2 else if s <=? 4 then I4 else I8
  | KU => if s <=? 1 then U1 else if s <=? 2 then U2 else if s <=? 4 then U4 else U8
  | KF => if s <=? 4 then F4 else F8
  end.

Definition dt_code (d : dt) : Z :=
  match d with I1 => 0 | I2 => 1 | I4 => 2 | I8 => 3 | U1 => 4 | U2 => 5 | U4 => 6 | U8 => 7 | F4 => 8 | F8 => 9 end.

Definition dt_of_code (c : Z) : dt :=
  match c with 0 => I1 | 1 => I2 | 2 => I4 | 3 => I8 | 4 => U1 | 5 => U2 | 6 => U4 | 7 => U8 | 8 => F4 | _ => F8 end.

Definition dt_eqb (a b : dt) : bool := dt_code a =? dt_code b.

(* numpy.promote_types on these types: the larger of one kind; a signed type
   that holds the unsigned one (float64 for uint64); the float that holds the
   integer (float32 up to 16 bits, else float64). *)
Definition promote_su (ss us : Z) : dt :=
  if us <? ss then mk_dt KI ss else if us =? 8 then F8 else mk_dt KI (2 * us).

Definition float_for_int (s : Z) : Z := if s <=? 2 then 4 else 8.

Definition promote (a b : dt) : dt :=
  match dkind_of a, dkind_of b with
  | KF, KF => mk_dt KF (Z.max (dsize a) (dsize b))
  | KF, _ => mk_dt KF (Z.max (dsize a) (float_for_int (dsize b)))
  | _, KF => mk_dt KF (Z.max (dsize b) (float_for_int (dsize a)))
  | KI, KI => mk_dt KI (Z.max (dsize a) (dsize b))
  | KU, KU => mk_dt KU (Z.max (dsize a) (dsize b))
  | KI, KU => promote_su (dsize a) (dsize b)
  | KU, KI => promote_su (dsize b) (dsize a)
  end.

(* The attributes of a netCDF variable that netcdf_indexer uses for unpacking:
   _Unsigned = "true"; scale_factor and add_offset with their data types and
   (integral) values. *)
Record pack := {
  p_unsigned : bool;
  p_scale : option (dt * Z);
  p_offset : option (dt * Z)
}.

Definition no_pack : pack := {| p_unsigned := false; p_scale := None; p_offset := None |}.

(* netcdf_indexer.__getitem__: a signed integer variable with _Unsigned is
   viewed as the unsigned type of the same size *)
Definition is_unsigned_view (v : dt) (p : pack) : bool :=
  p_unsigned p && match dkind_of v with KI => true | _ => false end.

Definition view_dt (v : dt) (p : pack) : dt :=
  if is_unsigned_view v p then mk_dt KU (dsize v) else v.

(* netcdf_indexer._unpack: the data type of the array that is returned.
   "data * scale_factor + add_offset" (numpy promotion, one operation after
   the other) unless the scale is one and the offset zero: with both attributes
   present the data are then cast to the type of the scale_factor alone; with
   only one attribute present (repository commit 0554e88) they are cast to the
   type the arithmetic would have given, numpy.result_type(data, attribute). *)
Definition realised_dt (v : dt) (p : pack) : dt :=
  let v' := view_dt v p in
  match p_scale p, p_offset p with
  | Some (ts, s), Some (ta, a) =>
    if negb (a =? 0) || negb (s =? 1) then promote (promote v' ts) ta else ts
  | Some (ts, s), None => if negb (s =? 1) then promote v' ts else promote v' ts
  | None, Some (ta, a) => if negb (a =? 0) then promote v' ta else promote v' ta
  | None, None => v'
  end.

(* integer arithmetic of numpy arrays is modulo 2^bits; floats are taken to be exact *)
Definition wrap (d : dt) (z : Z) : Z :=
  let m := 2 ^ (8 * dsize d) in
  match dkind_of d with
  | KF => z
  | KU => z mod m
  | KI => (z + m / 2) mod m - m / 2
  end.

(* ... and the value of one element (None = missing: masked before unpacking) *)
Definition unpack_z (v : dt) (p : pack) (x : Z) : Z :=
  let v' := view_dt v p in
  let x' := if is_unsigned_view v p then x mod 2 ^ (8 * dsize v) else x in
  match p_scale p, p_offset p with
  | Some (ts, s), Some (ta, a) =>
    if negb (a =? 0) || negb (s =? 1)
    then let d1 := promote v' ts in wrap (promote d1 ta) (wrap d1 (x' * s) + a)
    else wrap ts x'
  | Some (ts, s), None => if negb (s =? 1) then wrap (promote v' ts) (x' * s) else wrap (promote v' ts) x'
  | None, Some (ta, a) => if negb (a =? 0) then wrap (promote v' ta) (x' + a) else wrap (promote v' ta) x'
  | None, None => x'
  end.

Definition unpack_val (v : dt) (p : pack) (x : option Z) : option Z :=
  match x with Some z => Some (unpack_z v p z) | None => None end.

Fixpoint nd_map (g : option Z -> option Z) (a : nd) : nd :=
  match a with
  | Leaf x => Leaf (g x)
  | Node l => Node (map (nd_map g) l)
  end.

(* NetCDFRead._create_netcdfarray: the data type given to the file array when
   the dataset is read, i.e. Data.dtype for as long as the data are on disk.
   After C12-fix2-1 it is found by unpacking an empty array of the variable's
   type with netcdf_indexer itself - when the dataset is read with unpack=True;
   the variable's own type otherwise. *)
Definition declared_dt (is_data unpack : bool) (v : dt) (p : pack) : dt :=
  if unpack then realised_dt v p else v.

(* The code as it was: numpy.result_type of the variable's type and of
   result_type(add_offset, scale_factor) - for the data variable of a field only;
   the variable's own type for every other construct; _Unsigned not considered. *)
Definition declared_dt_old (is_data unpack : bool) (v : dt) (p : pack) : dt :=
  if is_data then
    match p_offset p, p_scale p with
    | Some (ta, _), Some (ts, _) => promote v (promote ta ts)
    | Some (ta, _), None => promote v ta
    | None, Some (ts, _) => promote v ts
    | None, None => v
    end
  else v.

(* ---- the file system and the two backends ------------------------------------- *)
(* A netCDF variable: its type, its packing attributes, the stored (packed)
   values with the missing ones already marked. *)
Record stored := { s_dt : dt; s_pack : pack; s_raw : nd; s_fill : Z }.
(* s_fill: the number actually stored where a value is missing (the _FillValue) *)

(* The options a dataset is read with, cfdm.read(mask=, unpack=): components
   "mask" and "unpack" of every file array created by the read, handed to
   netcdf_indexer at every access.  Every array derived from a file array
   (copy: __init__(source=...)) has to carry them unchanged. *)
Record flags := { fl_mask : bool; fl_unpack : bool }.
Definition flags_default : flags := {| fl_mask := true; fl_unpack := true |}.
Definition flags_eqb (a b : flags) : bool :=
  Bool.eqb (fl_mask a) (fl_mask b) && Bool.eqb (fl_unpack a) (fl_unpack b).

(* netcdf_indexer.__getitem__ under (mask, unpack): the data type ... *)
Definition realised_fl (fl : flags) (v : dt) (p : pack) : dt :=
  if fl_unpack fl then realised_dt v p else v.

(* ... and one element: a missing element is masked only when mask is set
   (otherwise the stored fill value is data like any other); the _Unsigned view
   and the packing arithmetic are applied only when unpack is set. *)
Definition present (fl : flags) (st : stored) (x : option Z) : option Z :=
  let u := fun z => if fl_unpack fl then unpack_z (s_dt st) (s_pack st) z else z in
  match x with
  | Some z => Some (u z)
  | None => if fl_mask fl then None else Some (u (s_fill st))
  end.

Definition s_realised (fl : flags) (st : stored) : dt := realised_fl fl (s_dt st) (s_pack st).
Definition s_unpacked (fl : flags) (st : stored) : nd := nd_map (present fl st) (s_raw st).

(* file number -> variable number -> the variable stored there (None: no such file) *)
Definition disk := Z -> Z -> option stored.

Fixpoint lookup2 (l : list (Z * Z * stored)) (f v : Z) : option stored :=
  match l with
  | [] => None
  | (f', v', a) :: r => if (f =? f') && (v =? v') then Some a else lookup2 r f v
  end.

(* netCDF4.Variable indexes orthogonally by itself *)
Definition nc4_fetch (a : nd) (poss : list (list nat)) : nd := orth_take poss a.

(* h5netcdf/h5py accept only strictly increasing lists and positive steps:
   netcdf_indexer._index reads the sorted unique positions and restores the
   requested order (np.unique(..., return_inverse=True); np.ma.take(inverse)).
   A negative-step slice is read as the equivalent positive-step slice and the
   axis reversed afterwards, which is the same thing at the level of positions. *)
Fixpoint insert_u (x : nat) (l : list nat) : list nat :=
  match l with
  | [] => [x]
  | y :: r => if (x <? y)%nat then x :: y :: r
              else if (x =? y)%nat then y :: r
              else y :: insert_u x r
  end.

Definition uniq_sorted (l : list nat) : list nat := fold_right insert_u [] l.

Fixpoint index_in (x : nat) (u : list nat) : nat :=
  match u with
  | [] => 0%nat
  | y :: r => if (x =? y)%nat then 0%nat else S (index_in x r)
  end.

Fixpoint increasing (l : list nat) : bool :=
  match l with
  | x :: ((y :: _) as r) => (x <? y)%nat && increasing r
  | _ => true
  end.

Definition h5_axis (d : nat) (p : list nat) (a : nd) : nd :=
  if increasing p then take d p a
  else let u := uniq_sorted p in
       take d (map (fun x => index_in x u) p) (take d u a).

Definition h5_fetch (a : nd) (poss : list (list nat)) : nd :=
  fold_left (fun acc op => h5_axis (fst op) (snd op) acc)
            (combine (seq 0 (length poss)) poss) a.

(* The only places where the backend (and the repair of F12b) enter the model. *)
Record cfg := {
  c_fetch : nd -> list (list nat) -> nd;
  c_close_on_error : bool;     (* __getitem__ closes the file in a finally clause *)
  c_declare : bool -> bool -> dt -> pack -> dt;  (* the data type read gives to a file array *)
  c_copy_flags : flags -> flags   (* the (mask, unpack) components of a COPY of a file array *)
}.

(* NetCDF4Array.__init__ / H5netcdfArray.__init__ (source=...): each component is
   taken from the same component of the source *)
Definition copy_flags_id (fl : flags) : flags := fl.
(* the seeded variant: H5netcdfArray takes "unpack" from the source's "mask" *)
Definition copy_flags_swapped (fl : flags) : flags := {| fl_mask := fl_mask fl; fl_unpack := fl_mask fl |}.

Definition cfg_nc4 : cfg := {| c_fetch := nc4_fetch; c_close_on_error := true; c_declare := declared_dt; c_copy_flags := copy_flags_id |}.
Definition cfg_h5 : cfg := {| c_fetch := h5_fetch; c_close_on_error := true; c_declare := declared_dt; c_copy_flags := copy_flags_id |}.
(* the code as it stood before C12-fix-1: no close when the indexing raises *)
Definition cfg_nc4_old : cfg := {| c_fetch := nc4_fetch; c_close_on_error := false; c_declare := declared_dt; c_copy_flags := copy_flags_id |}.
Definition cfg_h5_old : cfg := {| c_fetch := h5_fetch; c_close_on_error := false; c_declare := declared_dt; c_copy_flags := copy_flags_id |}.
(* the seeded variant of H5netcdfArray.__init__ *)
Definition cfg_h5_swap : cfg := {| c_fetch := h5_fetch; c_close_on_error := true; c_declare := declared_dt;
                                   c_copy_flags := copy_flags_swapped |}.
(* the code as it stood before C12-fix2-1: the declared data type *)
Definition cfg_nc4_old2 : cfg := {| c_fetch := nc4_fetch; c_close_on_error := true; c_declare := declared_dt_old; c_copy_flags := copy_flags_id |}.
Definition cfg_h5_old2 : cfg := {| c_fetch := h5_fetch; c_close_on_error := true; c_declare := declared_dt_old; c_copy_flags := copy_flags_id |}.

(* ---- data objects ------------------------------------------------------------ *)
(* The array held by a Data object: a file array (file, address, shape: all that
   is needed to fetch later) or a numpy array in memory. *)
Inductive cell :=
| OnDisk (f v : Z) (shape : list Z) (d : dt) (fl : flags)    (* d: the declared data type *)
| InMem (shape : list Z) (d : dt) (a : nd).

Definition cshape (c : cell) : list Z :=
  match c with OnDisk _ _ sh _ _ => sh | InMem sh _ _ => sh end.

(* Data.dtype: the file array's declared type, or the type of the numpy array *)
Definition cdtype (c : cell) : dt :=
  match c with OnDisk _ _ _ d _ => d | InMem _ d _ => d end.

Definition content (dk : disk) (c : cell) : option nd :=
  match c with
  | OnDisk f v _ _ fl => match dk f v with Some st => Some (s_unpacked fl st) | None => None end
  | InMem _ _ a => Some a
  end.

Definition full_ps (sh : list Z) : list pindex := map (fun _ => pall) sh.

(* NetCDF4Array.__getitem__ / H5netcdfArray.__getitem__ with the per-axis
   indices [ps] produced by Data._parse_indices (or Ellipsis = full_ps):
   FileArrayMixin.open raises FileNotFoundError before anything is opened;
   dask's normalize_index (inside netcdf_indexer._index) raises IndexError
   after the file has been opened.
   The part selected is read from the variable and then unpacked by
   netcdf_indexer: the array returned has the realised data type. *)
Definition fa_get (C : cfg) (dk : disk) (f v : Z) (sh : list Z) (fl : flags) (ps : list pindex)
  : result (list nat * dt * nd) * trace :=
  match dk f v with
  | None => (Err OtherErr, [])
  | Some st =>
    match positions_all sh ps with
    | Err e => (Err e, EOpen f :: (if c_close_on_error C then [EClose f] else []))
    | Ok poss => (Ok (map (@length nat) poss, s_realised fl st,
                      nd_map (present fl st) (c_fetch C (s_raw st) poss)),
                  [EOpen f; EFetch f v poss; EClose f])
    end
  end.

Definition zshape (s : list nat) : list Z := map Z.of_nat s.

Definition to_cell (r : list nat * dt * nd) : cell := InMem (zshape (fst (fst r))) (snd (fst r)) (snd r).

(* Data.__getitem__: parse the indices, index the underlying array, wrap the
   numpy result in a new Data. *)
Definition sub (C : cfg) (dk : disk) (c : cell) (idx : list index) : result cell * trace :=
  match c with
  | InMem sh d a => (rbind (getitem sh a idx) (fun r => Ok (InMem (zshape (fst r)) d (snd r))), [])
  | OnDisk f v sh _ fl =>
    match parse_indices sh idx with
    | Err e => (Err e, [])
    | Ok ps => let (r, t) := fa_get C dk f v sh fl ps in (rbind r (fun r => Ok (to_cell r)), t)
    end
  end.

(* Data.array / source().to_memory(): the whole array *)
Definition realise (C : cfg) (dk : disk) (c : cell) : result (dt * nd) * trace :=
  match c with
  | InMem _ d a => (Ok (d, a), [])
  | OnDisk f v sh _ fl =>
    let (r, t) := fa_get C dk f v sh fl (full_ps sh) in (rbind r (fun r => Ok (snd (fst r), snd r)), t)
  end.

(* ---- operations on a heap of Data objects ------------------------------------ *)
Inductive op :=
| OCopy (i : nat)                               (* d.copy()                      *)
| OSub (i : nat) (idx : list index)             (* d[idx]          (new object)  *)
| OToMem (i : nat)                              (* d.to_memory(inplace=True)     *)
| OArr (i : nat)                                (* d.array                       *)
| OSet (i : nat) (idx : list index) (v : option Z) (* d[idx] = v or cfdm.masked  *)
| OFirst (i : nat)                              (* d.first_element()             *)
| OEq (i j : nat).                              (* d_i.equals(d_j)               *)

Inductive obs :=
| ONone
| OArray (sh : list Z) (d : dt) (flat : list (option Z))
| OBool (b : bool)
| OErr (e : errk).

Fixpoint set_at {A} (i : nat) (c : A) (h : list A) : list A :=
  match h, i with
  | [], _ => []
  | _ :: r, O => c :: r
  | x :: r, S i' => x :: set_at i' c r
  end.

Definition ones (sh : list Z) : list nat := map (fun _ => 1%nat) sh.

Definition oz_eqb := option_eqb Z.eqb.

(* numpy's .item(): a Python int or float (shown as int64 / float64); the masked
   constant (float64) for a missing element *)
Definition item_obs (d : dt) (x : option Z) : obs :=
  match x with
  | None => OArray [] F8 [None]
  | Some _ => OArray [] (match dkind_of d with KF => F8 | _ => I8 end) [x]
  end.

(* Data.copy(): a new file array initialised from the old one (or a copy of the numpy array) *)
Definition copy_cell (C : cfg) (c : cell) : cell :=
  match c with
  | OnDisk f v sh d fl => OnDisk f v sh d (c_copy_flags C fl)
  | InMem _ _ _ => c
  end.

Definition step (C : cfg) (dk : disk) (h : list cell) (o : op) : list cell * obs * trace :=
  match o with
  | OCopy i =>
    match nth_error h i with
    | None => (h, OErr OtherErr, [])
    | Some c => (h ++ [copy_cell C c], ONone, [])
    end
  | OSub i idx =>
    match nth_error h i with
    | None => (h, OErr OtherErr, [])
    | Some c =>
      match sub C dk c idx with
      | (Ok c', t) => (h ++ [c'], ONone, t)
      | (Err e, t) => (h, OErr e, t)
      end
    end
  | OToMem i =>
    match nth_error h i with
    | None => (h, OErr OtherErr, [])
    | Some c =>
      match realise C dk c with
      | (Ok (d, a), t) => (set_at i (InMem (cshape c) d a) h, ONone, t)
      | (Err e, t) => (h, OErr e, t)
      end
    end
  | OArr i =>
    match nth_error h i with
    | None => (h, OErr OtherErr, [])
    | Some c =>
      match realise C dk c with
      | (Ok (d, a), t) => (h, OArray (cshape c) d (flatten a), t)
      | (Err e, t) => (h, OErr e, t)
      end
    end
  | OSet i idx v =>
    (* _parse_indices; array = self.array; _set_subspace; _set_Array *)
    match nth_error h i with
    | None => (h, OErr OtherErr, [])
    | Some c =>
      let sh := cshape c in
      match parse_indices sh idx with
      | Err e => (h, OErr e, [])
      | Ok _ =>
        match realise C dk c with
        | (Err e, t) => (h, OErr e, t)
        | (Ok (d, a), t) =>
          match setitem sh a idx (ones sh) (reshape (ones sh) [v]) with
          | Err e => (h, OErr e, t)
          | Ok a' => (set_at i (InMem sh d a') h, ONone, t)
          end
        end
      end
    end
  | OFirst i =>
    (* self[(slice(0, 1, 1),) * ndim].array ; .item() of anything but one element raises *)
    match nth_error h i with
    | None => (h, OErr OtherErr, [])
    | Some c =>
      match sub C dk c (map (fun _ => ISlice (Some 0) (Some 1) (Some 1)) (cshape c)) with
      | (Err e, t) => (h, OErr e, t)
      | (Ok c', t) =>
        match c' with
        | InMem _ d a => match flatten a with
                         | [x] => (h, item_obs d x, t)
                         | _ => (h, OErr ValueErr, t)
                         end
        | OnDisk _ _ _ _ _ => (h, OErr OtherErr, t)
        end
      end
    end
  | OEq i j =>
    (* identity shortcut; shapes; Data.dtype of each (the declared type of a file
       array: nothing is fetched for it); then self.array and other.array are compared *)
    match nth_error h i, nth_error h j with
    | Some c1, Some c2 =>
      if Nat.eqb i j then (h, OBool true, [])
      else if negb (list_eqb Z.eqb (cshape c1) (cshape c2)) then (h, OBool false, [])
      else if negb (dt_eqb (cdtype c1) (cdtype c2)) then (h, OBool false, [])
      else
        match realise C dk c1 with
        | (Err e, t) => (h, OErr e, t)
        | (Ok (_, a1), t1) =>
          match realise C dk c2 with
          | (Err e, t2) => (h, OErr e, t1 ++ t2)
          | (Ok (_, a2), t2) => (h, OBool (list_eqb oz_eqb (flatten a1) (flatten a2)), t1 ++ t2)
          end
        end
    | _, _ => (h, OErr OtherErr, [])
    end
  end.

(* observation and trace of every operation of a history *)
Fixpoint run (C : cfg) (dk : disk) (h : list cell) (ops : list op) : list (obs * trace) :=
  match ops with
  | [] => []
  | o :: r => let '(h', ob, t) := step C dk h o in (ob, t) :: run C dk h' r
  end.

Fixpoint run_heap (C : cfg) (dk : disk) (h : list cell) (ops : list op) : list cell :=
  match ops with
  | [] => h
  | o :: r => let '(h', _, _) := step C dk h o in run_heap C dk h' r
  end.

(* eager access: every object brought into memory before the history starts *)
Definition eager_cell (dk : disk) (c : cell) : cell :=
  match c with
  | InMem _ _ _ => c
  | OnDisk f v sh _ fl => match dk f v with Some st => InMem sh (s_realised fl st) (s_unpacked fl st) | None => c end
  end.

(* ---- cfdm.read ----------------------------------------------------------------- *)
(* The netCDF variables of a dataset, by the role the reader gives them. *)
Inductive role :=
| RData             (* data variable of a field                                  *)
| RCoord            (* coordinate / ancillary / cell measure variable, any rank  *)
| RScalarCoord      (* coordinate variable named by a field but spanning no
                       dimension: construct_insert_dimension realises it         *)
| RBounds           (* bounds, node coordinates, interior ring                   *)
| RNodeCoord        (* node coordinates of a geometry container that has no
                       part_node_count: bounds_insert_dimension realises them   *)
| RCount            (* DSG count variable (sample_dimension)                     *)
| RIndex            (* DSG index variable (instance_dimension)                   *)
| RNodeCount        (* geometry node_count                                       *)
| RPartNodeCount    (* geometry part_node_count                                  *)
| RList.            (* list variable of compression by gathering                 *)

Record vdesc := { vd_var : Z; vd_shape : list Z; vd_role : role }.

(* does read look at the values of this variable?  Rank-0 coordinates are given a
   size-1 axis (their value is read for that); the element dimension of a ragged
   array is the maximum count, and the part -> cell index of a geometry is
   derived from both count variables, so these are read too (F12a).  The node
   coordinates of a geometry without part_node_count are uncompressed in order
   to be given a part dimension (F12c). *)
Definition count_like (r : role) : bool :=
  match r with RCount | RIndex | RNodeCount | RPartNodeCount => true | _ => false end.

Definition read_fetches (d : vdesc) : bool :=
  match vd_role d with
  | RScalarCoord => Nat.eqb (length (vd_shape d)) 0
  | RNodeCoord => true
  | r => count_like r
  end.

(* the Data object created for one variable, and what creating it did *)
Definition is_data_role (r : role) : bool := match r with RData => true | _ => false end.

(* _create_netcdfarray: the data type declared for the variable's file array *)
Definition declared_of (C : cfg) (dk : disk) (f : Z) (fl : flags) (d : vdesc) : dt :=
  match dk f (vd_var d) with
  | Some st => c_declare C (is_data_role (vd_role d)) (fl_unpack fl) (s_dt st) (s_pack st)
  | None => F8
  end.

Definition read_var (C : cfg) (dk : disk) (f : Z) (fl : flags) (d : vdesc) : list cell * trace :=
  let c := OnDisk f (vd_var d) (vd_shape d) (declared_of C dk f fl d) fl in
  if read_fetches d then
    match realise C dk c with
    | (Ok (ty, a), t) =>
      match vd_role d with
      | RScalarCoord => ([InMem [1] ty (Node [a])], t)   (* insert_dimension: now in memory *)
      | RNodeCoord => ([InMem (vd_shape d) ty a], t)     (* a size-1 part dimension is inserted into
                                                         the uncompressed array (layout not modelled) *)
      | _ => ([c], t)                                 (* values used, object stays lazy  *)
      end
    | (Err _, t) => ([c], t)
    end
  else ([c], []).

Fixpoint read_vars (C : cfg) (dk : disk) (f : Z) (fl : flags) (ds : list vdesc) : list cell * trace :=
  match ds with
  | [] => ([], [])
  | d :: r => let (c, t) := read_var C dk f fl d in
              let (cs, ts) := read_vars C dk f fl r in (c ++ cs, t ++ ts)
  end.

(* read: the dataset is opened once, scanned, and closed before returning
   (read_vars["datasets"], file_close).  [fl]: cfdm.read(mask=, unpack=), given
   to every file array the read creates. *)
Definition read (C : cfg) (dk : disk) (f : Z) (fl : flags) (ds : list vdesc) : list cell * trace :=
  let (cs, t) := read_vars C dk f fl ds in (cs, EOpen f :: t ++ [EClose f]).

Definition fetched_vars (t : trace) : list Z := map (fun x => snd (fst x)) (fetches t).
