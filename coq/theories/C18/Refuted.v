(* C18 - the code as it stood before C18-fix-1..7 does NOT satisfy the C18
   theorems.  One witness per repaired defect, each a closed term evaluated by
   vm_compute; the same inputs replayed on the unrepaired implementation fail
   the property oracle (harness/props/c18.py, corpus fields). *)
From CfdmV Require Import Common.Base Tables.ConstructKinds C18.Model C18.Spec C18.Lemmas C18.Run.
Open Scope string_scope.

Definition dflt : construct := mkC "" "" None None None None noP None [] [].
Definition ex_obj : cobj := CObj ex_cs [] None.

(* F18a (fix-1): 'latitude' is an identity of dimensioncoordinate0 (from its
   bounds) but filter_by_identity('latitude') does not select it. *)
Theorem C18_old_identity_incomplete_refuted :
  exists ids c, In c ex_cs /\ sel_identity ids c = true /\ ~ In c (by_identity_old ids ex_cs).
Proof.
  exists [VStr "latitude"], (nth 3 ex_cs dflt). splits; [right; right; right; left; reflexivity|reflexivity|].
  vm_compute. intros [H|[]]. discriminate.
Qed.

(* F18b (fix-2): in c.filter(filter_by_naxes=(1,), filter_by_type=(...)) the
   type filter recorded the wrong starting collection, so inverse_filter(1)
   is not the complement within the constructs that have one axis. *)
Theorem C18_old_inverse_after_type_in_chain_refuted :
  exists fs r i, chain_obj old [] AAnd ["and"] ex_obj fs ex_obj = Ok r /\
    inverse_filter old (Some 1%nat) r = Ok i /\
    keys_of (members i) <> ["dimensioncoordinate0"] /\
    (exists r' i', chain_obj cur [] AAnd ["and"] ex_obj fs ex_obj = Ok r' /\
       inverse_filter cur (Some 1%nat) r' = Ok i' /\ keys_of (members i') = ["dimensioncoordinate0"]).
Proof.
  exists [FNaxes [VInt 1]; FType ["auxiliary_coordinate"]]. eexists. eexists.
  splits; [vm_compute; reflexivity|vm_compute; reflexivity|vm_compute; discriminate|].
  eexists. eexists. splits; vm_compute; reflexivity.
Qed.

(* F18c (fix-3): inverse_filter(1) on a collection with no filter applied. *)
Theorem C18_old_inverse_depth_unfiltered_refuted :
  inverse_filter old (Some 1%nat) ex_obj = Err IndexErr /\
  exists r, inverse_filter cur (Some 1%nat) ex_obj = Ok r /\ members r = [].
Proof. split; [reflexivity|eexists; split; vm_compute; reflexivity]. Qed.

(* F18e (fix-5): method chaining and the filter(...) call disagree when an
   axis is named by a domain axis identity and the domain axes were filtered out. *)
Theorem C18_old_method_chain_differs_refuted :
  exists fs, ~ same_outcome (run_ops old [] ex_obj (map (fun f => OFilter AAnd ["and"] [f]) fs))
                            (chain_obj old [] AAnd ["and"] ex_obj fs ex_obj).
Proof.
  exists [FType ["dimension_coordinate"]; FAxis [VStr "ncdim%tt"]].
  vm_compute. intros [H _]. discriminate.
Qed.

(* F18f (fix-6): cell_methods('nothing') selected every cell method. *)
Theorem C18_old_cell_methods_selects_all_refuted :
  (exists r, cell_methods old ex_E [] [VStr "nothing"] = Ok r /\ keys_of r = ["cellmethod0"]) /\
  cell_methods cur ex_E [] [VStr "nothing"] = Ok [].
Proof. split; [eexists; split; vm_compute; reflexivity|vm_compute; reflexivity]. Qed.

(* F18h (fix-7): filter, inverse_filter(), filter, inverse_filter(2) raised KeyError. *)
Theorem C18_old_inverse_after_inverse_keyerror_refuted :
  exists ps, run_ops old [] ex_obj ps = Err KeyErr /\ exists r, run_ops cur [] ex_obj ps = Ok r.
Proof.
  exists [OFilter AAnd ["and"] [FType ["domain_axis"]]; OInverse None;
          OFilter AAnd ["and"] [FNaxes [VInt 1]]; OInverse (Some 2%nat)].
  split; [vm_compute; reflexivity|eexists; vm_compute; reflexivity].
Qed.

(* Seeded variant of _filter_convert_to_domain_axis (second round): a 1-d
   coordinate identity is converted only when EXACTLY ONE coordinate has it
   ("len(c) == 1" in place of "len(set(c_axes)) == 1").  It breaks
   C18_axis_named_by_coordinate_identity: the shared standard_name of a
   dimension and an auxiliary coordinate of one axis no longer names the axis. *)
Definition conv_by_coords_seeded (E : env) (v : val) : list string :=
  match coords_named E v with
  | [k] => match c_axes k with Some (a :: _) => [a] | _ => [] end
  | _ => []
  end.

Theorem C18_seeded_unique_coordinate_refuted :
  exists v a, names_no_axis_key sh_E v /\
    (exists k, coord1 sh_E k /\ sel_identity [v] k = true) /\
    convert1 identities_short true sh_E true v = [a] /\ conv_by_coords_seeded sh_E v = [].
Proof.
  exists (VStr "latitude"), "domainaxis0". splits.
  - vm_compute. intros [H|[H|[]]]; discriminate.
  - exists (nth 2 sh_cs dflt). split; [|reflexivity]. unfold coord1. splits.
    + right; right; left; reflexivity.
    + reflexivity.
    + exists "domainaxis0". reflexivity.
  - vm_compute. reflexivity.
  - vm_compute. reflexivity.
Qed.
