(* C18 - evaluation entry points for the correspondence harness. *)
From CfdmV Require Import Common.Base Tables.ConstructKinds C18.Model.
Open Scope string_scope.

(* one public call in a history on a Constructs object.  [methods = true]:
   the filters are applied as c.filter_by_a(...).filter_by_b(...), otherwise
   as one c.filter(filter_by_a=..., filter_by_b=...) call. *)
Inductive hop :=
| HFilter (methods : bool) (am : amode) (pm : list string) (fs : list fspec)
| HInverse (d : option nat)
| HUnfilter (d : option nat).

Definition expand (h : hop) : list op :=
  match h with
  | HFilter true am pm fs => map (fun f => OFilter am pm [f]) fs
  | HFilter false am pm fs => [OFilter am pm fs]
  | HInverse d => [OInverse d]
  | HUnfilter d => [OUnfilter d]
  end.

Inductive selector :=
| STyped (ts : list string) (ids : list val) (fs : list fspec)
| SDomainAxes (ids : list val) (fs : list fspec)
| SCellMethods (ids : list val) (fs : list fspec).

Inductive query :=
| QOps (ops : list hop)
| QSel (s : selector)
| QPick (s : selector)
| QDak (ids : list val).

Inductive obs :=
| OKeys (ks : list string) (nfa : option nat) (rootkeys : option (list string))
| OErr (e : errk)
| OPick (k : option string).

Definition select (V : variant) (E : env) (s : selector) : result (list construct) :=
  match s with
  | STyped ts ids fs => run_chain V E AAnd ["and"] (typed_filters ts ids fs) (e_self E)
  | SDomainAxes ids fs => domain_axes V E fs ids
  | SCellMethods ids fs => cell_methods V E fs ids
  end.

Definition strs_eqb := list_eqb String.eqb.

Definition run_query (V : variant) (cs : list construct) (fda : list string) (q : query) (o : obs) : bool :=
  let E := mkE cs cs fda in
  match q with
  | QOps hs =>
      match run_ops V fda (CObj cs [] None) (flat_map expand hs), o with
      | Ok r, OKeys ks nfa rk =>
          strs_eqb (keys_of (members r)) ks &&
          match nfa with Some n => Nat.eqb (length (applied r)) n | None => true end &&
          match rk with Some l => strs_eqb (keys_of (members (root_obj r))) l | None => true end
      | Err e, OErr e' => errk_eqb e e'
      | _, _ => false
      end
  | QSel s =>
      match select V E s, o with
      | Ok r, OKeys ks _ _ => strs_eqb (keys_of r) ks
      | Err e, OErr e' => errk_eqb e e'
      | _, _ => false
      end
  | QPick s =>
      match select V E s, o with
      | Ok r, OPick k =>
          match return_construct r, k with
          | Found a, Some b => String.eqb a b
          | NotUnique _, None => true
          | _, _ => false
          end
      | Err e, OErr e' => errk_eqb e e'
      | _, _ => false
      end
  | QDak ids =>
      match domain_axis_key V E ids, o with
      | DakKey a, OPick (Some b) => String.eqb a b
      | DakDefault, OPick None => true
      | _, _ => false
      end
  end.

Definition case := (list construct * list string * list (list string) * list (query * obs))%type.

Definition idents_ok (cs : list construct) (obs_ids : list (list string)) : bool :=
  list_eqb strs_eqb (map identities cs) obs_ids.

Fixpoint bad_from (V : variant) cs fda (i : nat) (qs : list (query * obs)) : list nat :=
  match qs with
  | [] => []
  | (q, o) :: r => if run_query V cs fda q o then bad_from V cs fda (S i) r
                   else i :: bad_from V cs fda (S i) r
  end.

(* indices of the queries on which model and implementation differ;
   index 999 stands for the identities() lists *)
Definition bad_queries_with (V : variant) (c : case) : list nat :=
  let '(cs, fda, ids, qs) := c in
  (if idents_ok cs ids then [] else [999%nat]) +++ bad_from V cs fda 0 qs.

Definition bad_queries := bad_queries_with cur.
Definition bad_queries_old := bad_queries_with old.

Definition check_case (c : case) : bool :=
  match bad_queries c with [] => true | _ => false end.

Definition check_case_old (c : case) : bool :=
  match bad_queries_old c with [] => true | _ => false end.
