(* C18 - proofs. *)
From CfdmV Require Import Common.Base Tables.ConstructKinds C18.Model C18.Spec.
Open Scope string_scope.

Ltac splits := repeat match goal with |- _ /\ _ => split end.

(* ------------------------------------------------------------ basic facts *)
Lemma mem_In x l : mem x l = true <-> In x l.
Proof.
  unfold mem. rewrite existsb_exists. split.
  - intros [y [H1 H2]]. apply String.eqb_eq in H2. subst. exact H1.
  - intro H. exists x. split; [exact H|apply String.eqb_refl].
Qed.

Lemma mem_false x l : mem x l = false <-> ~ In x l.
Proof.
  rewrite <- mem_In. destruct (mem x l); split; intro H.
  - discriminate.
  - exfalso. apply H. reflexivity.
  - intro H1. discriminate.
  - reflexivity.
Qed.

Lemma inclb_incl a b : inclb a b = true <-> incl a b.
Proof.
  unfold inclb. rewrite forallb_forall. unfold incl. split; intros H x Hx.
  - apply mem_In. apply H. exact Hx.
  - apply mem_In. apply H. exact Hx.
Qed.

Lemma any_match_spec vs s : any_match vs s = some_str vs s.
Proof.
  unfold some_str. induction vs as [|v r IH]; simpl; [reflexivity|].
  destruct (match_str v s); simpl; [reflexivity|exact IH].
Qed.

Lemma any_int_spec vs z : any_int vs z = some_int vs z.
Proof.
  unfold some_int. induction vs as [|v r IH]; simpl; [reflexivity|].
  destruct (match_int v z); simpl; [reflexivity|exact IH].
Qed.

Lemma key_in_some k vs : key_in k vs = true -> some_str vs k = true.
Proof.
  unfold some_str. induction vs as [|v r IH]; simpl; [discriminate|].
  destruct v; simpl; intro H;
    try (rewrite (IH H); first [reflexivity | apply orb_true_r]).
  apply orb_true_iff in H as [H|H].
  - rewrite H. reflexivity.
  - rewrite (IH H). apply orb_true_r.
Qed.

Lemma prop_loop_and c ps : forall ok,
  prop_loop false c ps ok =
  match ps with [] => ok | _ => forallb (fun nq => prop_ok c (fst nq) (snd nq)) ps end.
Proof.
  induction ps as [|[n q] r IH]; intro ok; [reflexivity|].
  cbn [prop_loop forallb fst snd]. destruct (prop_ok c n q); cbn [negb andb]; [|reflexivity].
  rewrite IH. destruct r; reflexivity.
Qed.

Lemma prop_loop_or c ps : forall ok,
  prop_loop true c ps ok =
  match ps with [] => ok | _ => existsb (fun nq => prop_ok c (fst nq) (snd nq)) ps end.
Proof.
  induction ps as [|[n q] r IH]; intro ok; [reflexivity|].
  cbn [prop_loop existsb fst snd]. destruct (prop_ok c n q); cbn [orb]; [reflexivity|].
  rewrite IH. destruct r; reflexivity.
Qed.

Lemma axis_loop_and x axes : forall ok,
  axis_loop false x axes ok = match axes with [] => ok | _ => forallb (fun a => mem a x) axes end.
Proof.
  induction axes as [|a r IH]; intro ok; [reflexivity|].
  cbn [axis_loop forallb]. destruct (mem a x); cbn [andb]; [|reflexivity].
  rewrite IH. destruct r; reflexivity.
Qed.

Lemma axis_loop_or x axes : forall ok,
  axis_loop true x axes ok = match axes with [] => ok | _ => existsb (fun a => mem a x) axes end.
Proof.
  induction axes as [|a r IH]; intro ok; [reflexivity|].
  cbn [axis_loop existsb]. destruct (mem a x); cbn [orb]; [reflexivity|].
  rewrite IH. destruct r; reflexivity.
Qed.

Lemma axis_ok_rel m x A : A <> [] -> axis_ok m x A = axis_rel m x A.
Proof.
  intro H. destruct A as [|a r]; [congruence|].
  destruct m; unfold axis_ok, axis_rel; try reflexivity;
    try (rewrite axis_loop_and; reflexivity); rewrite axis_loop_or; reflexivity.
Qed.

(* ---------------------------------------------------------- simple filters *)
Lemma by_type_In ts arg c :
  In c (by_type ts arg) <-> In c arg /\ unless_empty ts (mem (c_type c) ts) = true.
Proof.
  unfold by_type. destruct ts as [|t r].
  - simpl. tauto.
  - rewrite filter_In. reflexivity.
Qed.

Lemma by_data_In arg c : In c (by_data arg) <-> In c arg /\ can_hold_data c = true.
Proof.
  unfold by_data, can_hold_data. rewrite by_type_In.
  unfold array_construct_types. reflexivity.
Qed.

Lemma mem1 x t : mem x [t] = String.eqb x t.
Proof. unfold mem. simpl. apply orb_false_r. Qed.

Lemma by_component_In t vs arg c :
  In c (by_component [t] vs arg) <-> In c arg /\ sel_component t vs c = true.
Proof.
  unfold by_component, sel_component. destruct vs as [|v r]; rewrite filter_In, mem1.
  - simpl. rewrite andb_true_r. reflexivity.
  - cbn [unless_empty]. destruct (c_comp c); [rewrite any_match_spec|]; reflexivity.
Qed.

Lemma by_naxes_In vs arg c :
  In c (by_naxes vs arg) <-> In c arg /\ selects (mkE [] [] []) AAnd [] (FNaxes vs) c = true.
Proof.
  unfold by_naxes. cbn [selects]. destruct vs as [|v r].
  - apply by_data_In.
  - rewrite filter_In. destruct (c_axes c); [rewrite any_int_spec|]; reflexivity.
Qed.

Lemma by_ncvar_In vs arg c :
  In c (by_ncvar vs arg) <-> In c arg /\ selects (mkE [] [] []) AAnd [] (FNcvar vs) c = true.
Proof.
  unfold by_ncvar. cbn [selects]. destruct vs as [|v r]; rewrite filter_In.
  - simpl. rewrite andb_true_r. reflexivity.
  - cbn [unless_empty]. destruct (p_ncvar (c_info c)); [rewrite any_match_spec|]; reflexivity.
Qed.

Lemma by_ncdim_In vs arg c :
  In c (by_ncdim vs arg) <-> In c arg /\ selects (mkE [] [] []) AAnd [] (FNcdim vs) c = true.
Proof.
  unfold by_ncdim. cbn [selects]. destruct vs as [|v r]; rewrite filter_In.
  - simpl. rewrite andb_true_r. reflexivity.
  - cbn [unless_empty]. destruct (c_ncdim c); [rewrite any_match_spec|]; reflexivity.
Qed.

Lemma by_size_In vs arg c :
  In c (by_size vs arg) <-> In c arg /\ selects (mkE [] [] []) AAnd [] (FSize vs) c = true.
Proof.
  unfold by_size. cbn [selects]. destruct vs as [|v r].
  - rewrite by_type_In. cbn [unless_empty]. rewrite mem1, andb_true_r. reflexivity.
  - rewrite filter_In. unfold is_type. cbn [unless_empty].
    destruct (c_size c); [rewrite any_int_spec|]; reflexivity.
Qed.

Lemma by_key_In vs arg c :
  In c (by_key vs arg) <-> In c arg /\ unless_empty vs (some_str vs (c_key c)) = true.
Proof.
  unfold by_key. destruct vs as [|v r].
  - simpl. tauto.
  - rewrite filter_In. cbn [unless_empty]. rewrite any_match_spec.
    destruct (key_in (c_key c) (v :: r)) eqn:K; [|reflexivity].
    rewrite (key_in_some _ _ K). reflexivity.
Qed.

Lemma by_property_In pm ps arg r c :
  by_property pm ps arg = Ok r ->
  (In c r <-> In c arg /\ sel_property pm ps c = true).
Proof.
  unfold by_property, sel_property. destruct (parse_pmode pm) as [o|e] eqn:P; [|discriminate].
  assert (O : o = list_eqb String.eqb pm ["or"]).
  { unfold parse_pmode in P. destruct pm as [|m [|m2 r2]]; try discriminate.
    - inversion P. reflexivity.
    - simpl. rewrite andb_true_r.
      destruct (String.eqb m "or") eqn:E1; [inversion P; reflexivity|].
      destruct (String.eqb m "and"); [inversion P; reflexivity|discriminate]. }
  destruct ps as [|p q]; intro H.
  - assert (R : r = filter has_props arg) by congruence. subst r. rewrite filter_In.
    simpl. rewrite andb_true_r. reflexivity.
  - assert (R : r = filter (fun c => has_props c && prop_loop o c (p :: q) true) arg) by congruence.
    subst r. rewrite filter_In. cbn [unless_empty]. rewrite <- O. destruct o.
    + rewrite prop_loop_or. reflexivity.
    + rewrite prop_loop_and. reflexivity.
Qed.

Lemma by_property_err pm ps arg arg' e :
  by_property pm ps arg = Err e -> by_property pm ps arg' = Err e.
Proof.
  unfold by_property. destruct (parse_pmode pm); [destruct ps; discriminate|tauto].
Qed.

(* ------------------------------------------- identities and short iteration *)
Lemma has_char_app a s1 s2 : has_char a (s1 ++ s2) = has_char a s1 || has_char a s2.
Proof.
  induction s1 as [|c r IH]; simpl; [reflexivity|]. rewrite IH. apply orb_assoc.
Qed.

Definition all_nonplain (l : list string) : Prop := forall x, In x l -> plain x = false.

Lemma plain_eq k v : plain (k ++ "=" ++ v) = false.
Proof.
  unfold plain, short_iteration. rewrite has_char_app. simpl. rewrite orb_true_r. reflexivity.
Qed.

Lemma plain_colon k v : plain (k ++ ":" ++ v) = false.
Proof.
  unfold plain, short_iteration. rewrite (has_char_app ":"%char). simpl.
  rewrite orb_true_r. simpl. rewrite andb_false_r. reflexivity.
Qed.

Lemma plain_ncvar n : plain ("ncvar%" ++ n) = false.
Proof. unfold plain, short_iteration. simpl. apply andb_false_r. Qed.

Lemma plain_ncdim n : plain ("ncdim%" ++ n) = false.
Proof. unfold plain, short_iteration. simpl. apply andb_false_r. Qed.

Lemma all_nonplain_app a b : all_nonplain a -> all_nonplain b -> all_nonplain (a +++ b).
Proof. intros Ha Hb x Hx. apply in_app_or in Hx as [H|H]; [apply Ha|apply Hb]; exact H. Qed.

Lemma all_nonplain_opt {A} (o : option A) f :
  (forall a, plain (f a) = false) -> all_nonplain (opt_list o f).
Proof. intros H x Hx. destruct o; simpl in Hx; [destruct Hx as [<-|[]]; apply H|contradiction]. Qed.

Lemma all_nonplain_tl l : all_nonplain l -> all_nonplain (tl l).
Proof. intros H x Hx. apply H. destruct l; [contradiction|right; exact Hx]. Qed.

(* everything after a possible leading standard_name contains "=" or "%" *)
Lemma props_body_tail p : all_nonplain (tl (props_body p)).
Proof.
  unfold props_body.
  set (rest := flat_map _ special_props +++ _).
  assert (R : all_nonplain rest).
  { unfold rest. apply all_nonplain_app; [|apply all_nonplain_app].
    - intros x Hx. apply in_flat_map in Hx as [k [_ Hk]].
      destruct (assoc k (p_props p)); simpl in Hk; [destruct Hk as [<-|[]]; apply plain_eq|contradiction].
    - intros x Hx. apply in_map_iff in Hx as [kv [<- _]]. apply plain_eq.
    - apply all_nonplain_opt. intro a. apply plain_ncvar. }
  destruct (assoc "standard_name" (p_props p)); simpl.
  - exact R.
  - apply all_nonplain_tl. exact R.
Qed.

Definition tails_nonplain (segs : list (list string)) : Prop :=
  forall seg, In seg segs -> all_nonplain (tl seg).

Lemma segments_tails c : tails_nonplain (segments c).
Proof.
  unfold segments, tails_nonplain.
  destruct (String.eqb (c_type c) "domain_axis").
  { intros seg [<-|[]]. destruct (c_ncdim c); intros x []. }
  destruct (String.eqb (c_type c) "cell_method").
  { intros seg [<-|[]]. destruct (c_comp c); intros x []. }
  destruct (String.eqb (c_type c) "coordinate_reference").
  { intros seg [<-|[]]. apply all_nonplain_tl. apply all_nonplain_app.
    - intros x Hx. apply in_flat_map in Hx as [k [_ Hk]].
      destruct (assoc k (c_cc c)); simpl in Hk; [destruct Hk as [<-|[]]; apply plain_colon|contradiction].
    - apply all_nonplain_opt. intro a. apply plain_ncvar. }
  intros seg Hs. apply in_app_or in Hs as [Hs|Hs].
  - destruct (comp_prefix (c_type c)); [destruct (c_comp c)|]; simpl in Hs; try contradiction.
    destruct Hs as [<-|[]]. intros x [].
  - apply in_app_or in Hs as [Hs|Hs].
    + destruct Hs as [<-|[]]. apply props_body_tail.
    + destruct (c_bounds c); simpl in Hs; [|contradiction].
      destruct Hs as [<-|[]]. apply props_body_tail.
Qed.

Lemma firstn1_In (x : string) seg : In x (firstn 1 seg) -> In x seg.
Proof. destruct seg; simpl; [tauto|]. intros [H|[]]. left. exact H. Qed.

Lemma short_subset c x : In x (identities_short c) -> In x (identities c).
Proof.
  unfold identities_short, identities. intro H. apply in_flat_map in H as [seg [Hs Hx]].
  apply in_concat. exists seg. split; [exact Hs|apply firstn1_In; exact Hx].
Qed.

Lemma short_iteration_safe c x :
  plain x = true -> (In x (identities_short c) <-> In x (identities c)).
Proof.
  intro P. split; [apply short_subset|].
  unfold identities, identities_short. intro H. apply in_concat in H as [seg [Hs Hx]].
  apply in_flat_map. exists seg. split; [exact Hs|].
  destruct seg as [|h t]; [contradiction|]. destruct Hx as [->|Hx]; [left; reflexivity|].
  pose proof (segments_tails c _ Hs x Hx) as N. simpl in N. congruence.
Qed.

(* --------------------------------------------------------- filter_by_identity *)
Lemma prefix_key s : prefixb "key%" s = true -> s = "key%" ++ sdrop 4 s.
Proof.
  intro H. do 4 (destruct s as [|? s]; [simpl in H; try rewrite ?andb_false_r in H; discriminate H|]). cbn [prefixb] in H.
  repeat match goal with
         | H : _ && _ = true |- _ => apply andb_true_iff in H; destruct H
         | H : Ascii.eqb _ _ = true |- _ => apply Ascii.eqb_eq in H; subst
         end.
  reflexivity.
Qed.

Lemma prefix_key_app k : prefixb "key%" ("key%" ++ k) = true.
Proof. reflexivity. Qed.

Lemma key_hit_some ks s k :
  key_hit ks (VStr s) = Some k -> (s = k \/ s = "key%" ++ k) /\ In k ks.
Proof.
  unfold key_hit. destruct (mem s ks) eqn:M.
  - intro H. inversion H. subst. split; [left; reflexivity|apply mem_In; exact M].
  - destruct (prefixb "key%" s && mem (sdrop 4 s) ks) eqn:Q; [|discriminate].
    apply andb_true_iff in Q as [Q1 Q2]. intro H. inversion H. subst. split.
    + right. apply prefix_key. exact Q1.
    + apply mem_In. exact Q2.
Qed.

Lemma key_hit_mono ks K v k :
  incl ks K -> key_hit ks v = Some k -> key_hit K v <> None.
Proof.
  intros I. destruct v; try discriminate. unfold key_hit.
  destruct (mem s ks) eqn:M.
  - intros _. apply mem_In in M. apply I in M. apply mem_In in M. rewrite M. discriminate.
  - destruct (prefixb "key%" s && mem (sdrop 4 s) ks) eqn:Q; [|discriminate].
    apply andb_true_iff in Q as [Q1 Q2]. intros _.
    destruct (mem s K); [discriminate|].
    apply mem_In in Q2. apply I in Q2. apply mem_In in Q2. rewrite Q1, Q2. discriminate.
Qed.

Lemma first_match_some ids i :
  (exists v, In v ids /\ match_str v i = true) <-> first_match ids i <> None.
Proof.
  induction ids as [|v r IH]; simpl.
  - split; [intros [v [[] _]]|congruence].
  - destruct (match_str v i) eqn:M.
    + split; [discriminate|]. intros _. exists v. split; [left; reflexivity|exact M].
    + rewrite <- IH. split.
      * intros [w [[<-|Hw] Mw]]; [congruence|]. exists w. split; assumption.
      * intros [w [Hw Mw]]. exists w. split; [right; exact Hw|exact Mw].
Qed.

Lemma some_str_exists ids i :
  some_str ids i = true <-> exists v, In v ids /\ match_str v i = true.
Proof. unfold some_str. apply existsb_exists. Qed.

Lemma ident_matched_iff sh short ids c :
  ident_matched sh short ids c = true <->
  exists i, In i (idents_with sh short c) /\ some_str ids i = true.
Proof.
  unfold ident_matched. rewrite existsb_exists. split; intros [i [Hi H]]; exists i; split; try exact Hi.
  - apply some_str_exists. apply first_match_some. destruct (first_match ids i); [discriminate|discriminate].
  - apply some_str_exists in H. apply first_match_some in H. destruct (first_match ids i); [reflexivity|congruence].
Qed.

Lemma key_hits_In ks ids k :
  In k (key_hits ks ids) <-> exists v, In v ids /\ key_hit ks v = Some k.
Proof.
  unfold key_hits. rewrite in_flat_map. split; intros [v [Hv H]]; exists v; split; try exact Hv.
  - destruct (key_hit ks v); simpl in H; [destruct H as [<-|[]]; reflexivity|contradiction].
  - rewrite H. left. reflexivity.
Qed.

Lemma key_named_hits K ids a c :
  wf K a -> In c a ->
  (key_named ids c = true <-> In (c_key c) (key_hits (keys_of a) ids)).
Proof.
  intros [_ [I [P _]]] Hc.
  assert (Kc : In (c_key c) (keys_of a)) by (unfold keys_of; apply in_map; exact Hc).
  rewrite key_hits_In. unfold key_named. rewrite existsb_exists. split.
  - intros [v [Hv H]]. exists v. split; [exact Hv|]. destruct v; try discriminate.
    apply orb_true_iff in H as [H|H]; apply String.eqb_eq in H; subst s; unfold key_hit.
    + apply mem_In in Kc. rewrite Kc. reflexivity.
    + destruct (mem ("key%" ++ c_key c) (keys_of a)) eqn:M.
      * apply mem_In in M. apply I in M. apply P in M. rewrite prefix_key_app in M. discriminate.
      * rewrite prefix_key_app. simpl. apply mem_In in Kc. rewrite Kc. reflexivity.
  - intros [v [Hv H]]. exists v. split; [exact Hv|]. destruct v; try discriminate.
    apply key_hit_some in H as [[->| ->] _]; apply orb_true_iff; [left|right]; apply String.eqb_refl.
Qed.

Lemma ids_rest_In ks ids v : In v (ids_rest ks ids) <-> In v ids /\ key_hit ks v = None.
Proof.
  unfold ids_rest. rewrite filter_In. destruct (key_hit ks v); split; intros [H1 H2]; split; auto; discriminate.
Qed.

Lemma by_identity_In K ids a c :
  wf K a -> (In c (by_identity ids a) <-> In c a /\ sel_identity ids c = true).
Proof.
  intro W. unfold by_identity, by_identity_gen, sel_identity.
  destruct ids as [|v0 r0]; [simpl; tauto|]. set (ids := v0 :: r0). cbn [unless_empty].
  rewrite filter_In. split; intros [Hc H]; split; try exact Hc.
  - (* soundness *)
    apply mem_In in H. unfold fbi_matched in H. cbv zeta in H.
    assert (Hk : In (c_key c) (key_hits (keys_of a) ids) -> key_named ids c = true)
      by (apply (key_named_hits K ids a c W Hc)).
    destruct (ids_rest (keys_of a) ids) eqn:R.
    + rewrite (Hk H). reflexivity.
    + apply in_app_or in H as [H|H]; [rewrite (Hk H); reflexivity|].
      unfold keys_of in H. apply in_map_iff in H as [c' [E H]]. apply filter_In in H as [Hc' Q].
      assert (c' = c) by (destruct W as [J _]; apply J; assumption). subst c'.
      apply andb_true_iff in Q as [_ Q]. apply ident_matched_iff in Q as [i [Hi Hm]].
      apply orb_true_iff. right. apply existsb_exists. exists i. split; [|exact Hm].
      unfold idents_with in Hi. destruct (forallb short_iteration ids); [apply short_subset|]; exact Hi.
  - (* completeness *)
    apply mem_In. unfold fbi_matched. cbv zeta.
    apply orb_true_iff in H as [H|H].
    + apply (key_named_hits K ids a c W Hc) in H.
      destruct (ids_rest (keys_of a) ids); [exact H|apply in_or_app; left; exact H].
    + apply existsb_exists in H as [i [Hi Hm]].
      pose proof Hm as Hm'. apply some_str_exists in Hm' as [v [Hv Mv]].
      assert (N : key_hit (keys_of a) v = None).
      { destruct (key_hit (keys_of a) v) as [kk|] eqn:E; [|reflexivity]. exfalso.
        destruct W as [_ [I [_ C]]].
        destruct v as [sv| | |]; try discriminate. simpl in Mv. apply String.eqb_eq in Mv. subst sv.
        apply (key_hit_mono _ K _ _ I E). apply (C c Hc i Hi). }
      assert (Rv : In v (ids_rest (keys_of a) ids)) by (apply ids_rest_In; split; assumption).
      destruct (ids_rest (keys_of a) ids) eqn:R; [contradiction|].
      destruct (mem (c_key c) (key_hits (keys_of a) ids)) eqn:M.
      * apply in_or_app. left. apply mem_In. exact M.
      * apply in_or_app. right. unfold keys_of. apply in_map. apply filter_In. split; [exact Hc|].
        fold (keys_of a). rewrite M. cbn [negb andb]. apply ident_matched_iff.
        unfold idents_with. destruct (forallb short_iteration ids) eqn:S.
        -- exists i. split; [|exact Hm]. apply short_iteration_safe; [|exact Hi].
           rewrite forallb_forall in S. specialize (S v Hv).
           destruct v as [sv| | |]; try discriminate. simpl in Mv. apply String.eqb_eq in Mv. subst sv. exact S.
        -- exists i. split; assumption.
Qed.

(* ------------------------------------------------------------ filter_by_axis *)
Lemma by_axis_In E m vs arg r c :
  by_axis_gen identities_short true E m vs arg = Ok r ->
  (In c r <-> In c arg /\ sel_axis E m vs c = true).
Proof.
  unfold by_axis_gen, sel_axis. destruct vs as [|v vs'].
  - intro H. assert (R : r = by_data arg) by congruence. subst r. apply by_data_In.
  - set (A := convert identities_short true E true (v :: vs')).
    destruct m; try discriminate;
      (destruct A as [|a0 A'] eqn:EA; intro H;
       [assert (R : r = []) by congruence; subst r; simpl; split; [tauto|intros [_ X]; discriminate]
       |match type of H with Ok ?x = _ => assert (R : r = x) by congruence end; subst r;
        rewrite filter_In; destruct (c_axes c); [rewrite axis_ok_rel by discriminate|]; reflexivity]).
Qed.

Lemma by_axis_err E m vs arg e :
  by_axis_gen identities_short true E m vs arg = Err e <-> refused m [] (FAxis vs) = Some e.
Proof.
  unfold by_axis_gen, refused. destruct vs as [|v vs']; [split; discriminate|].
  destruct m; try (split; discriminate);
    try (destruct (convert identities_short true E true (v :: vs')); split; discriminate).
  split; intro H; inversion H; reflexivity.
Qed.

(* --------------------------------- every filter: selected iff the report says so *)
Lemma wf_sub K a r : wf K a -> (forall c, In c r -> In c a) -> wf K r.
Proof.
  intros [J [I [P C]]] S. unfold wf. splits.
  - intros c c' Hc Hc'. apply J; apply S; assumption.
  - intros k Hk. unfold keys_of in Hk. apply in_map_iff in Hk as [c [<- Hc]].
    apply I. unfold keys_of. apply in_map. apply S. exact Hc.
  - exact P.
  - intros c Hc. apply C. apply S. exact Hc.
Qed.

Lemma run_filter_ok K E am pm f a r :
  wf K a -> run_filter cur E am pm f a = Ok r ->
  forall c, In c r <-> In c a /\ selects E am pm f c = true.
Proof.
  intros W H c. destruct f; cbn [run_filter cur v_short v_da_root] in H; cbn [selects];
    try (assert (R : r = _) by (symmetry; injection H as H; exact H); subst r).
  - apply by_type_In.
  - apply by_data_In.
  - apply by_naxes_In.
  - apply by_ncvar_In.
  - apply by_ncdim_In.
  - apply by_component_In.
  - apply by_component_In.
  - apply by_component_In.
  - apply by_component_In.
  - apply by_size_In.
  - apply by_key_In.
  - apply (by_identity_In K). exact W.
  - apply by_axis_In. exact H.
  - apply by_property_In with (arg := a). exact H.
  - discriminate.
Qed.

Lemma run_filter_err E am pm f a e :
  run_filter cur E am pm f a = Err e <-> refused am pm f = Some e.
Proof.
  destruct f; cbn [run_filter cur v_short v_da_root refused]; try (split; discriminate).
  - rewrite by_axis_err. unfold refused. reflexivity.
  - unfold by_property. destruct (parse_pmode pm); [destruct ps; split; discriminate|].
    split; intro H; inversion H; reflexivity.
  - split; intro H; inversion H; reflexivity.
Qed.

(* -------------------------------------------------- chains = intersection *)
Lemma chain_intersection K E am pm fs : forall a r,
  wf K a -> run_chain cur E am pm fs a = Ok r ->
  forall c, In c r <-> In c a /\ forallb (fun f => selects E am pm f c) fs = true.
Proof.
  induction fs as [|f fs IH]; intros a r W H c.
  - simpl in H. inversion H. subst. simpl. tauto.
  - cbn [run_chain] in H. destruct (run_filter cur E am pm f a) as [a1|e] eqn:F; [|discriminate].
    pose proof (run_filter_ok K E am pm f a a1 W F) as S1.
    assert (W1 : wf K a1) by (apply (wf_sub K a); [exact W|intros x Hx; apply S1 in Hx; tauto]).
    rewrite (IH a1 r W1 H c). rewrite S1. cbn [forallb]. rewrite andb_true_iff. tauto.
Qed.

Lemma chain_total E am pm fs : forall a,
  (forall f, In f fs -> refused am pm f = None) -> exists r, run_chain cur E am pm fs a = Ok r.
Proof.
  induction fs as [|f fs IH]; intros a N.
  - exists a. reflexivity.
  - cbn [run_chain]. destruct (run_filter cur E am pm f a) as [a1|e] eqn:F.
    + apply IH. intros g Hg. apply N. right. exact Hg.
    + apply run_filter_err in F. rewrite N in F by (left; reflexivity). discriminate.
Qed.

Lemma chain_err E am pm fs : forall a e,
  run_chain cur E am pm fs a = Err e -> exists f, In f fs /\ refused am pm f = Some e.
Proof.
  induction fs as [|f fs IH]; intros a e H; [discriminate|].
  cbn [run_chain] in H. destruct (run_filter cur E am pm f a) as [a1|e1] eqn:F.
  - apply IH in H as [g [Hg R]]. exists g. split; [right; exact Hg|exact R].
  - inversion H. subst. exists f. split; [left; reflexivity|apply run_filter_err in F; exact F].
Qed.

(* ------------------------------ histories: unfilter, inverse_filter, purity *)
Lemma root_unfilter_n n : forall o, root_obj (unfilter_n n o) = root_obj o.
Proof.
  induction n as [|n IH]; intro o; [reflexivity|].
  destruct o as [m fa [p|]]; cbn [unfilter_n prefiltered]; [rewrite IH|]; reflexivity.
Qed.

Lemma root_root o : root_obj (root_obj o) = root_obj o.
Proof.
  revert o. fix IH 1. intros [m fa [p|]]; cbn [root_obj]; [apply IH|reflexivity].
Qed.

Lemma root_unfilter d o : root_obj (unfilter d o) = root_obj o.
Proof. destruct d; [apply root_unfilter_n|apply root_root]. Qed.

Lemma chain_obj_root fda am pm self fs : forall arg r,
  root_obj arg = root_obj self -> chain_obj cur fda am pm self fs arg = Ok r ->
  root_obj r = root_obj self.
Proof.
  induction fs as [|f fs IH]; intros arg r Ha H.
  - inversion H. subst. exact Ha.
  - cbn [chain_obj] in H. destruct (step_filter cur fda am pm self f arg) as [a1|e] eqn:S; [|discriminate].
    apply (IH a1 r); [|exact H]. unfold step_filter in S.
    destruct (run_filter cur (env_of fda self) am pm f (members arg)); [|discriminate].
    inversion S. cbn [cur v_type_pre_arg negb andb]. rewrite andb_false_r. cbn [root_obj]. exact Ha.
Qed.

Lemma inverse_root d o r : inverse_filter cur d o = Ok r -> root_obj r = root_obj o.
Proof.
  unfold inverse_filter. cbn [cur v_pop_default v_inv_guard orb].
  destruct d as [[|d0]|]; try (intro H; inversion H; reflexivity).
  destruct (applied o) as [|[|] fa]; try (intro H; inversion H; reflexivity).
  destruct (1 <? S (leading_inverse (applied (unfilter (Some (S d0)) o))))%nat;
    intro H; injection H as <-; first [apply root_unfilter | apply root_unfilter_n | exact (root_unfilter_n (S d0) o)].
Qed.

Lemma run_ops_root fda ps : forall o r, run_ops cur fda o ps = Ok r -> root_obj r = root_obj o.
Proof.
  induction ps as [|p ps IH]; intros o r H.
  - inversion H. reflexivity.
  - cbn [run_ops] in H. destruct (step_op cur fda o p) as [o1|e] eqn:S; [|discriminate].
    rewrite (IH o1 r H). destruct p; cbn [step_op] in S.
    + apply (chain_obj_root fda am pm o fs o o1); [reflexivity|exact S].
    + apply inverse_root in S. exact S.
    + inversion S. apply root_unfilter.
Qed.

Lemma minus_In a b c : In c (minus a b) <-> In c a /\ ~ In (c_key c) (keys_of b).
Proof. unfold minus. rewrite filter_In, negb_true_iff, mem_false. reflexivity. Qed.

Lemma inverse_default o :
  exists r, inverse_filter cur None o = Ok r /\
  forall c, In c (members r) <-> In c (members (root_obj o)) /\ ~ In (c_key c) (keys_of (members o)).
Proof.
  eexists. split; [reflexivity|]. intro c. cbn [members unfilter]. apply minus_In.
Qed.

(* directly after a filter: inverse_filter(1) is the complement within what was filtered *)
Lemma inverse_after_filter fda am pm self f arg o :
  step_filter cur fda am pm self f arg = Ok o ->
  exists r, inverse_filter cur (Some 1%nat) o = Ok r /\
  forall c, In c (members r) <-> In c (members arg) /\ ~ In (c_key c) (keys_of (members o)).
Proof.
  unfold step_filter. destruct (run_filter cur (env_of fda self) am pm f (members arg)) as [m|]; [|discriminate].
  cbn [cur v_type_pre_arg negb]. rewrite andb_false_r. intro H. inversion H. subst o.
  eexists. split; [reflexivity|]. intro c. cbn [members unfilter unfilter_n prefiltered]. apply minus_In.
Qed.

(* inverse_filter(1) twice gives back the filtered collection *)
Lemma inverse_twice o fa i :
  applied o = false :: fa -> inverse_filter cur (Some 1%nat) o = Ok i ->
  inverse_filter cur (Some 1%nat) i = Ok o.
Proof.
  intros A H. unfold inverse_filter in H. rewrite A in H. cbn [cur v_pop_default orb] in H.
  inversion H. subst i. unfold inverse_filter. cbn [applied unfilter unfilter_n prefiltered].
  rewrite A. reflexivity.
Qed.

(* -------------------- c.filter(a=.., b=..) selects what c.filter_by_a(..).filter_by_b(..) selects *)
Lemma convert1_env sh E E' chk v :
  e_root E = e_root E' -> e_fda E = e_fda E' ->
  convert1 sh true E chk v = convert1 sh true E' chk v.
Proof.
  destruct E as [r s d], E' as [r' s' d']. cbn [e_root e_fda]. intros -> ->.
  unfold convert1. cbn [e_root e_self e_fda]. reflexivity.
Qed.

Lemma run_filter_env E E' am pm f a :
  e_root E = e_root E' -> e_fda E = e_fda E' ->
  run_filter cur E am pm f a = run_filter cur E' am pm f a.
Proof.
  intros R D. destruct f; try reflexivity. cbn [run_filter cur v_short v_da_root].
  unfold by_axis_gen, convert. destruct vs as [|v vs']; [reflexivity|].
  replace (flat_map (convert1 identities_short true E true) (v :: vs'))
    with (flat_map (convert1 identities_short true E' true) (v :: vs')); [reflexivity|].
  apply flat_map_ext. intro x. symmetry. apply convert1_env; assumption.
Qed.

Definition same_outcome (a b : result cobj) : Prop :=
  match a, b with
  | Ok x, Ok y => members x = members y /\ length (applied x) = length (applied y)
  | Err e1, Err e2 => e1 = e2
  | _, _ => False
  end.

Lemma method_chain_eq_call fda am pm self fs : forall o arg,
  members o = members arg -> root_obj o = root_obj self -> length (applied o) = length (applied arg) ->
  same_outcome (run_ops cur fda o (map (fun f => OFilter am pm [f]) fs))
               (chain_obj cur fda am pm self fs arg).
Proof.
  induction fs as [|f fs IH]; intros o arg M R L.
  - simpl. split; assumption.
  - cbn [map run_ops step_op chain_obj]. unfold step_filter.
    rewrite (run_filter_env (env_of fda o) (env_of fda self) am pm f (members o))
      by (unfold env_of; cbn [e_root e_fda]; try rewrite R; reflexivity).
    rewrite M. destruct (run_filter cur (env_of fda self) am pm f (members arg)) as [m|e]; [|reflexivity].
    cbn [cur v_type_pre_arg negb]. rewrite andb_false_r. apply IH.
    + reflexivity.
    + cbn [root_obj]. exact R.
    + cbn [applied length]. rewrite L. reflexivity.
Qed.

(* ---------------------------------------------------------------- accessors *)
Lemma return_construct_found sel k :
  return_construct sel = Found k <-> exists c, sel = [c] /\ c_key c = k.
Proof.
  unfold return_construct. destruct sel as [|c [|c2 r]]; split.
  - discriminate.
  - intros [c [H _]]. discriminate.
  - intro H. inversion H. exists c. split; reflexivity.
  - intros [c' [H K]]. inversion H. subst. reflexivity.
  - discriminate.
  - intros [c' [H _]]. discriminate.
Qed.

Lemma return_construct_not_unique sel n :
  return_construct sel = NotUnique n <-> n = length sel /\ n <> 1%nat.
Proof.
  unfold return_construct. destruct sel as [|c [|c2 r]]; split; intro H.
  - inversion H. split; [reflexivity|discriminate].
  - destruct H as [-> _]. reflexivity.
  - discriminate.
  - destruct H as [-> N]. exfalso. apply N. reflexivity.
  - inversion H. split; [reflexivity|discriminate].
  - destruct H as [-> _]. reflexivity.
Qed.

(* a typed accessor returns the construct with key k exactly when k's
   construct is the one and only member of the collection that every filter
   (type, keyword filters, identities) selects *)
Lemma unique_accessor K E ts ids fs sel k :
  wf K (e_self E) ->
  run_chain cur E AAnd ["and"] (typed_filters ts ids fs) (e_self E) = Ok sel ->
  (return_construct sel = Found k <->
   exists c, sel = [c] /\ c_key c = k /\ In c (e_self E) /\
             forallb (fun f => selects E AAnd ["and"] f c) (typed_filters ts ids fs) = true).
Proof.
  intros W H. rewrite return_construct_found. split.
  - intros [c [S Kc]]. exists c. splits; try assumption.
    + apply (chain_intersection K E AAnd ["and"] _ _ _ W H c). subst sel. left. reflexivity.
    + apply (chain_intersection K E AAnd ["and"] _ _ _ W H c). subst sel. left. reflexivity.
  - intros [c [S [Kc _]]]. exists c. split; assumption.
Qed.

(* ------------------------------------ a decidable form of the well-formedness *)
Fixpoint nodupb (l : list string) : bool :=
  match l with [] => true | x :: r => negb (mem x r) && nodupb r end.

Definition wfb (K : list string) (a : list construct) : bool :=
  nodupb (keys_of a) && inclb (keys_of a) K &&
  forallb (fun k => negb (prefixb "key%" k)) K &&
  forallb (fun c => forallb (fun i => match key_hit K (VStr i) with None => true | Some _ => false end)
                            (identities c)) a.

Lemma nodupb_inj (a : list construct) : nodupb (keys_of a) = true -> key_inj a.
Proof.
  unfold key_inj. induction a as [|x r IH]; intros N c c' Hc Hc' E; [contradiction|].
  cbn [keys_of map nodupb] in N. apply andb_true_iff in N as [N1 N2].
  apply negb_true_iff in N1. apply mem_false in N1.
  destruct Hc as [<-|Hc], Hc' as [<-|Hc'].
  - reflexivity.
  - exfalso. apply N1. rewrite E. apply in_map. exact Hc'.
  - exfalso. apply N1. rewrite <- E. apply in_map. exact Hc.
  - apply IH; assumption.
Qed.

Lemma wfb_wf K a : wfb K a = true -> wf K a.
Proof.
  unfold wfb, wf. intro H. repeat (apply andb_true_iff in H; destruct H as [H ?]). splits.
  - apply nodupb_inj. exact H.
  - apply inclb_incl. assumption.
  - intros k Hk. match goal with X : forallb _ K = true |- _ => rewrite forallb_forall in X; specialize (X k Hk) end.
    apply negb_true_iff. assumption.
  - intros c Hc i Hi.
    match goal with X : forallb _ a = true |- _ => rewrite forallb_forall in X; specialize (X c Hc) end.
    match goal with X : forallb _ (identities c) = true |- _ => rewrite forallb_forall in X; specialize (X i Hi) end.
    destruct (key_hit K (VStr i)); [discriminate|reflexivity].
Qed.

(* ----------------------------------------------- a concrete field (non-vacuity) *)
Definition noP : pinfo := mkP [] None.
Definition ex_cs : list construct :=
  [ mkC "auxiliarycoordinate0" "auxiliary_coordinate" (Some ["domainaxis1"; "domainaxis0"]) None None None
        (mkP [("standard_name", "latitude")] None) None [] [];
    mkC "cellmeasure0" "cell_measure" (Some ["domainaxis0"; "domainaxis1"]) None (Some "area") None
        (mkP [("standard_name", "cell_area")] None) None [] [];
    mkC "cellmethod0" "cell_method" None None (Some "mean") None noP None [] ["domainaxis0"];
    mkC "dimensioncoordinate0" "dimension_coordinate" (Some ["domainaxis0"]) None None None
        (mkP [("long_name", "x")] (Some "lat")) (Some (mkP [("standard_name", "latitude")] (Some "lat_bnds"))) [] [];
    mkC "domainaxis0" "domain_axis" None (Some 3%Z) None (Some "tt") noP None [] [];
    mkC "domainaxis1" "domain_axis" None (Some 2%Z) None None noP None [] [] ].
Definition ex_E : env := mkE ex_cs ex_cs ["domainaxis1"; "domainaxis0"].

Lemma ex_wf : wf (keys_of ex_cs) ex_cs.
Proof. apply wfb_wf. vm_compute. reflexivity. Qed.

(* the construct whose only plain identity comes from its bounds is found,
   by identity and by the axis that identity stands for, through a chain *)
Lemma ex_chain :
  exists r, run_chain cur ex_E AOr ["and"]
              [FType ["dimension_coordinate"; "cell_measure"]; FAxis [VStr "ncdim%tt"]; FIdentity [VStr "latitude"; VStr "cell_area"]]
              ex_cs = Ok r /\ keys_of r = ["cellmeasure0"; "dimensioncoordinate0"].
Proof. eexists. vm_compute. split; reflexivity. Qed.

Lemma ex_plain : plain "latitude" = true /\
  In "latitude" (identities (nth 3 ex_cs (mkC "" "" None None None None noP None [] []))) /\
  ~ In "latitude" (identities_short_old (nth 3 ex_cs (mkC "" "" None None None None noP None [] []))).
Proof.
  vm_compute. splits; [reflexivity|right; right; left; reflexivity|intros [H|[]]; discriminate].
Qed.

Lemma method_chain_equals_filter_call fda am pm self fs :
  same_outcome (run_ops cur fda self (map (fun f => OFilter am pm [f]) fs))
               (chain_obj cur fda am pm self fs self).
Proof. apply method_chain_eq_call; reflexivity. Qed.

Lemma inverse_depth_one fda am pm self f arg o :
  step_filter cur fda am pm self f arg = Ok o ->
  exists r, inverse_filter cur (Some 1%nat) o = Ok r /\
  (forall c, In c (members r) <-> In c (members arg) /\ ~ In (c_key c) (keys_of (members o))) /\
  inverse_filter cur (Some 1%nat) r = Ok o.
Proof.
  intro H. destruct (inverse_after_filter _ _ _ _ _ _ _ H) as [r [I C]].
  exists r. split; [exact I|split; [exact C|]].
  unfold step_filter in H. destruct (run_filter cur (env_of fda self) am pm f (members arg)); [|discriminate].
  inversion H. subst o. eapply inverse_twice; [reflexivity|exact I].
Qed.

(* why [wf] asks that no identity is itself a construct key: the key short cut
   then hides the construct that has the identity *)
Definition clash_cs : list construct :=
  [ mkC "auxiliarycoordinate0" "auxiliary_coordinate" (Some ["domainaxis0"]) None None None
        (mkP [("standard_name", "domainaxis0")] None) None [] [];
    mkC "domainaxis0" "domain_axis" None (Some 3%Z) None None noP None [] [] ].

Lemma identity_key_clash :
  exists a ids c, nodupb (keys_of a) = true /\ In c a /\ sel_identity ids c = true /\
                  ~ In c (by_identity ids a).
Proof.
  exists clash_cs, [VStr "domainaxis0"], (nth 0 clash_cs (mkC "" "" None None None None noP None [] [])).
  splits; [reflexivity|left; reflexivity|reflexivity|].
  vm_compute. intros [H|[]]. discriminate.
Qed.

(* ------------- an axis named by an identity of the 1-d coordinates that span it *)
Definition coord_types : list string := ["dimension_coordinate"; "auxiliary_coordinate"].

(* a dimension or auxiliary coordinate of the unfiltered collection with exactly one axis *)
Definition coord1 (E : env) (k : construct) : Prop :=
  In k (e_root E) /\ mem (c_type k) coord_types = true /\ exists a, c_axes k = Some [a].

(* the value is not itself the key of a domain axis, and is a string or a pattern *)
Definition names_no_axis_key (E : env) (v : val) : Prop :=
  match v with
  | VStr s => ~ In s (keys_of (by_type ["domain_axis"] (e_root E)))
  | VRe _ _ _ => True
  | _ => False
  end.

Definition coords_named (E : env) (v : val) : list construct :=
  by_identity_gen identities_short [v] (by_naxes [VInt 1] (by_type coord_types (e_root E))).

Lemma one_axis_iff (c : construct) :
  match c_axes c with Some x => some_int [VInt 1] (Z.of_nat (length x)) | None => false end = true
  <-> exists a, c_axes c = Some [a].
Proof.
  destruct (c_axes c) as [x|]; [|split; [discriminate|intros [a H]; discriminate]].
  unfold some_int. cbn [existsb match_int]. rewrite orb_false_r. split.
  - intro H. apply Z.eqb_eq in H. destruct x as [|a [|b r]]; cbn [length] in H; try lia.
    exists a. reflexivity.
  - intros [a H]. inversion H. reflexivity.
Qed.

Lemma coords_named_In K E v k :
  wf K (e_root E) ->
  (In k (coords_named E v) <-> coord1 E k /\ sel_identity [v] k = true).
Proof.
  intro W. unfold coords_named.
  assert (W2 : wf K (by_naxes [VInt 1] (by_type coord_types (e_root E)))).
  { apply (wf_sub K (e_root E)); [exact W|]. intros c Hc.
    apply by_naxes_In in Hc as [Hc _]. apply by_type_In in Hc as [Hc _]. exact Hc. }
  change (by_identity_gen identities_short) with by_identity.
  rewrite (by_identity_In K [v] _ k W2). rewrite by_naxes_In, by_type_In. cbn [selects unless_empty].
  unfold coord1. rewrite one_axis_iff. tauto.
Qed.

Definition first_axes (c : list construct) : list string :=
  flat_map (fun k => match c_axes k with Some (a :: _) => [a] | _ => [] end) c.

Lemma first_axes_same c a :
  c <> [] -> (forall k, In k c -> c_axes k = Some [a]) ->
  exists r, first_axes c = a :: r /\ all_same a r = true.
Proof.
  induction c as [|k c IH]; [congruence|]. intros _ H.
  unfold first_axes. cbn [flat_map]. rewrite (H k (or_introl eq_refl)). cbn [app].
  destruct c as [|k2 c2].
  - exists []. split; reflexivity.
  - destruct IH as [r [R S]]; [discriminate|intros x Hx; apply H; right; exact Hx|].
    exists (a :: r). split.
    + fold (first_axes (k2 :: c2)). rewrite R. reflexivity.
    + cbn [all_same]. rewrite String.eqb_refl. exact S.
Qed.

Lemma all_same_In h r x : all_same h r = true -> In x r -> x = h.
Proof.
  induction r as [|y r IH]; [contradiction|]. cbn [all_same]. intros H [->|Hx].
  - apply andb_true_iff in H as [H _]. apply String.eqb_eq in H. symmetry. exact H.
  - apply andb_true_iff in H as [_ H]. apply IH; assumption.
Qed.

(* the part of convert1 shared by strings (that are no axis key) and patterns *)
Definition conv_by_coords (E : env) (chk : bool) (v : val) : list string :=
  match coords_named E v with
  | _ :: _ =>
      match first_axes (coords_named E v) with
      | a :: r => if all_same a r then [a] else []
      | [] => []
      end
  | [] =>
      if chk then
        match by_identity_gen identities_short [v] (by_type ["domain_axis"] (e_root E)) with
        | [d] => [c_key d]
        | _ => []
        end
      else []
  end.

Lemma convert1_by_coords E chk v :
  names_no_axis_key E v -> convert1 identities_short true E chk v = conv_by_coords E chk v.
Proof.
  unfold names_no_axis_key, convert1, conv_by_coords, coords_named, first_axes, coord_types.
  destruct v as [s|a e l|z|]; try contradiction.
  - intro N. apply mem_false in N. rewrite N.
    destruct (by_identity_gen identities_short [VStr s] _); reflexivity.
  - intros _. destruct (by_identity_gen identities_short [VRe a e l] _); reflexivity.
Qed.

Lemma axis_named_by_coordinate_identity K E chk v a :
  wf K (e_root E) -> names_no_axis_key E v ->
  (exists k, coord1 E k /\ sel_identity [v] k = true) ->
  (forall k, coord1 E k -> sel_identity [v] k = true -> c_axes k = Some [a]) ->
  convert1 identities_short true E chk v = [a].
Proof.
  intros W N [k0 [C0 S0]] A. rewrite (convert1_by_coords E chk v N). unfold conv_by_coords.
  assert (I0 : In k0 (coords_named E v)) by (apply (coords_named_In K E v k0 W); split; assumption).
  destruct (first_axes_same (coords_named E v) a) as [r [R S]].
  - intro X. rewrite X in I0. contradiction.
  - intros k Hk. apply (coords_named_In K E v k W) in Hk as [C S]. apply A; assumption.
  - destruct (coords_named E v) as [|x l] eqn:Q; [contradiction|]. rewrite R, S. reflexivity.
Qed.

Lemma identity_on_two_axes_names_no_axis K E chk v k1 k2 a1 a2 :
  wf K (e_root E) -> names_no_axis_key E v ->
  coord1 E k1 -> coord1 E k2 -> sel_identity [v] k1 = true -> sel_identity [v] k2 = true ->
  c_axes k1 = Some [a1] -> c_axes k2 = Some [a2] -> a1 <> a2 ->
  convert1 identities_short true E chk v = [].
Proof.
  intros W N C1 C2 S1 S2 A1 A2 D. rewrite (convert1_by_coords E chk v N). unfold conv_by_coords.
  assert (I1 : In k1 (coords_named E v)) by (apply (coords_named_In K E v k1 W); split; assumption).
  assert (I2 : In k2 (coords_named E v)) by (apply (coords_named_In K E v k2 W); split; assumption).
  assert (F1 : In a1 (first_axes (coords_named E v))).
  { unfold first_axes. apply in_flat_map. exists k1. split; [exact I1|rewrite A1; left; reflexivity]. }
  assert (F2 : In a2 (first_axes (coords_named E v))).
  { unfold first_axes. apply in_flat_map. exists k2. split; [exact I2|rewrite A2; left; reflexivity]. }
  destruct (coords_named E v) as [|x l] eqn:Q; [contradiction|].
  destruct (first_axes (x :: l)) as [|h r]; [reflexivity|].
  destruct (all_same h r) eqn:S; [|reflexivity]. exfalso. apply D.
  assert (forall y, In y (h :: r) -> y = h) as Hh.
  { intros y [<-|Hy]; [reflexivity|apply (all_same_In h r y S Hy)]. }
  rewrite (Hh a1 F1), (Hh a2 F2). reflexivity.
Qed.

(* naming the axis by such an identity selects what naming it by key selects,
   in every axis_mode and on every collection *)
Lemma axis_by_identity_equals_axis_by_key K E v a m arg :
  wf K (e_root E) -> names_no_axis_key E v ->
  (exists k, coord1 E k /\ sel_identity [v] k = true) ->
  (forall k, coord1 E k -> sel_identity [v] k = true -> c_axes k = Some [a]) ->
  In a (keys_of (by_type ["domain_axis"] (e_root E))) ->
  by_axis_gen identities_short true E m [v] arg = by_axis_gen identities_short true E m [VStr a] arg.
Proof.
  intros W N X A D. unfold by_axis_gen, convert. cbn [flat_map].
  rewrite (axis_named_by_coordinate_identity K E true v a W N X A).
  replace (convert1 identities_short true E true (VStr a)) with [a]; [reflexivity|].
  unfold convert1. apply mem_In in D. rewrite D. reflexivity.
Qed.

(* non-vacuity: a dimension and an auxiliary coordinate of one axis share a standard_name *)
Definition sh_cs : list construct :=
  [ mkC "auxiliarycoordinate0" "auxiliary_coordinate" (Some ["domainaxis0"]) None None None
        (mkP [("standard_name", "latitude")] None) None [] [];
    mkC "auxiliarycoordinate1" "auxiliary_coordinate" (Some ["domainaxis1"; "domainaxis0"]) None None None
        (mkP [("standard_name", "longitude")] None) None [] [];
    mkC "dimensioncoordinate0" "dimension_coordinate" (Some ["domainaxis0"]) None None None
        (mkP [("standard_name", "latitude")] None) None [] [];
    mkC "domainaxis0" "domain_axis" None (Some 3%Z) None None noP None [] [];
    mkC "domainaxis1" "domain_axis" None (Some 2%Z) None None noP None [] [] ].
Definition sh_E : env := mkE sh_cs sh_cs ["domainaxis1"; "domainaxis0"].

Lemma sh_example :
  wf (keys_of sh_cs) sh_cs /\
  convert1 identities_short true sh_E true (VStr "latitude") = ["domainaxis0"] /\
  exists r, by_axis_gen identities_short true sh_E AAnd [VStr "latitude"] sh_cs = Ok r /\
            keys_of r = ["auxiliarycoordinate0"; "auxiliarycoordinate1"; "dimensioncoordinate0"].
Proof.
  split; [apply wfb_wf; vm_compute; reflexivity|]. split; [vm_compute; reflexivity|].
  eexists. split; vm_compute; reflexivity.
Qed.

(* ------ domain_axes / cell_methods with further keyword filters (C18-fix3-1, -2) *)
Lemma domain_axes_respects_filters K E fs ids r :
  wf K (e_self E) -> domain_axes cur E fs ids = Ok r ->
  forall c, In c r ->
  In c (e_self E) /\ forallb (fun f => selects E AAnd ["and"] f c) (FType ["domain_axis"] :: fs) = true.
Proof.
  intros W H c Hc. unfold domain_axes in H.
  destruct (run_chain cur E AAnd ["and"] (FType ["domain_axis"] :: fs) (e_self E)) as [das|e] eqn:C; [|discriminate].
  apply (chain_intersection K E AAnd ["and"] _ _ _ W C c).
  cbn [cur v_keep_filters] in H.
  destruct ids as [|v0 r0]; [inversion H; subst; exact Hc|].
  destruct (filter _ (v0 :: r0)) in H; inversion H; subst r; apply filter_In in Hc as [Hc _]; exact Hc.
Qed.

Lemma cell_methods_respects_filters K E fs ids r :
  wf K (e_self E) -> cell_methods cur E fs ids = Ok r ->
  forall c, In c r ->
  In c (e_self E) /\ forallb (fun f => selects E AAnd ["and"] f c) (FType ["cell_method"] :: fs) = true.
Proof.
  intros W H c Hc. unfold cell_methods in H.
  destruct (run_chain cur E AAnd ["and"] (FType ["cell_method"] :: fs) (e_self E)) as [cms|e] eqn:C; [|discriminate].
  apply (chain_intersection K E AAnd ["and"] _ _ _ W C c).
  cbn [cur v_keep_filters v_cm_guard] in H.
  destruct ids as [|v0 r0]; [inversion H; subst; exact Hc|].
  destruct (filter _ (v0 :: r0)) in H.
  - inversion H; subst r; apply filter_In in Hc as [Hc _]; exact Hc.
  - destruct (_ +++ _) in H; inversion H; subst r; [contradiction|].
    apply filter_In in Hc as [Hc _]; exact Hc.
Qed.

Lemma old_fallback_forgets_filters :
  exists r c, domain_axes old sh_E [FSize [VInt 99]] [VStr "latitude"] = Ok r /\ In c r /\
              selects sh_E AAnd ["and"] (FSize [VInt 99]) c = false.
Proof.
  eexists. exists (nth 3 sh_cs (mkC "" "" None None None None noP None [] [])).
  split; [vm_compute; reflexivity|]. split; [left; reflexivity|reflexivity].
Qed.
