(* C18 - proofs. *)
From CfdmV Require Import Common.Base Tables.ConstructKinds C18.Model C18.Spec.
Open Scope string_scope.

Ltac splits := repeat match goal with |- _ /\ _ => split end.

(* ------------------------------------------------------------ basic facts *)
Lemma mem_In x l : mem x l = true <-> In x l.
Proof.
  unfold mem. rewrite existsb_exists. split.
  - intros [y [H1 H2]]. apply String.eqb_eq in H2. subst. exact H1.
  - intro H. exists x. split; [exact H|apply String.eqb_refl].
Qed.

Lemma mem_false x l : mem x l = false <-> ~ In x l.
Proof.
  rewrite <- mem_In. destruct (mem x l); split; intro H.
  - discriminate.
  - exfalso. apply H. reflexivity.
  - intro H1. discriminate.
  - reflexivity.
Qed.

Lemma inclb_incl a b : inclb a b = true <-> incl a b.
Proof.
  unfold inclb. rewrite forallb_forall. unfold incl. split; intros H x Hx.
  - apply mem_In. apply H. exact Hx.
  - apply mem_In. apply H. exact Hx.
Qed.

Lemma any_match_spec vs s : any_match vs s = some_str vs s.
Proof.
  unfold some_str. induction vs as [|v r IH]; simpl; [reflexivity|].
  destruct (match_str v s); simpl; [reflexivity|exact IH].
Qed.

Lemma any_int_spec vs z : any_int vs z = some_int vs z.
Proof.
  unfold some_int. induction vs as [|v r IH]; simpl; [reflexivity|].
  destruct (match_int v z); simpl; [reflexivity|exact IH].
Qed.

Lemma key_in_some k vs : key_in k vs = true -> some_str vs k = true.
Proof.
  unfold some_str. induction vs as [|v r IH]; simpl; [discriminate|].
  destruct v; simpl; intro H;
    try (rewrite (IH H); first [reflexivity | apply orb_true_r]).
  apply orb_true_iff in H as [H|H].
  - rewrite H. reflexivity.
  - rewrite (IH H). apply orb_true_r.
Qed.

Lemma prop_loop_and c ps : forall ok,
  prop_loop false c ps ok =
  match ps with [] => ok | _ => forallb (fun nq => prop_ok c (fst nq) (snd nq)) ps end.
Proof.
  induction ps as [|[n q] r IH]; intro ok; [reflexivity|].
  cbn [prop_loop forallb fst snd]. destruct (prop_ok c n q); cbn [negb andb]; [|reflexivity].
  rewrite IH. destruct r; reflexivity.
Qed.

Lemma prop_loop_or c ps : forall ok,
  prop_loop true c ps ok =
  match ps with [] => ok | _ => existsb (fun nq => prop_ok c (fst nq) (snd nq)) ps end.
Proof.
  induction ps as [|[n q] r IH]; intro ok; [reflexivity|].
  cbn [prop_loop existsb fst snd]. destruct (prop_ok c n q); cbn [orb]; [reflexivity|].
  rewrite IH. destruct r; reflexivity.
Qed.

Lemma axis_loop_and x axes : forall ok,
  axis_loop false x axes ok = match axes with [] => ok | _ => forallb (fun a => mem a x) axes end.
Proof.
  induction axes as [|a r IH]; intro ok; [reflexivity|].
  cbn [axis_loop forallb]. destruct (mem a x); cbn [andb]; [|reflexivity].
  rewrite IH. destruct r; reflexivity.
Qed.

Lemma axis_loop_or x axes : forall ok,
  axis_loop true x axes ok = match axes with [] => ok | _ => existsb (fun a => mem a x) axes end.
Proof.
  induction axes as [|a r IH]; intro ok; [reflexivity|].
  cbn [axis_loop existsb]. destruct (mem a x); cbn [orb]; [reflexivity|].
  rewrite IH. destruct r; reflexivity.
Qed.

Lemma axis_ok_rel m x A : A <> [] -> axis_ok m x A = axis_rel m x A.
Proof.
  intro H. destruct A as [|a r]; [congruence|].
  destruct m; unfold axis_ok, axis_rel; try reflexivity;
    try (rewrite axis_loop_and; reflexivity); rewrite axis_loop_or; reflexivity.
Qed.

(* ---------------------------------------------------------- simple filters *)
Lemma by_type_In ts arg c :
  In c (by_type ts arg) <-> In c arg /\ unless_empty ts (mem (c_type c) ts) = true.
Proof.
  unfold by_type. destruct ts as [|t r].
  - simpl. tauto.
  - rewrite filter_In. reflexivity.
Qed.

Lemma by_data_In arg c : In c (by_data arg) <-> In c arg /\ can_hold_data c = true.
Proof.
  unfold by_data, can_hold_data. rewrite by_type_In.
  unfold array_construct_types. reflexivity.
Qed.

Lemma mem1 x t : mem x [t] = String.eqb x t.
Proof. unfold mem. simpl. apply orb_false_r. Qed.

Lemma by_component_In t vs arg c :
  In c (by_component [t] vs arg) <-> In c arg /\ sel_component t vs c = true.
Proof.
  unfold by_component, sel_component. destruct vs as [|v r]; rewrite filter_In, mem1.
  - simpl. rewrite andb_true_r. reflexivity.
  - cbn [unless_empty]. destruct (c_comp c); [rewrite any_match_spec|]; reflexivity.
Qed.

Lemma by_naxes_In vs arg c :
  In c (by_naxes vs arg) <-> In c arg /\ selects (mkE [] [] []) AAnd [] (FNaxes vs) c = true.
Proof.
  unfold by_naxes. cbn [selects]. destruct vs as [|v r].
  - apply by_data_In.
  - rewrite filter_In. destruct (c_axes c); [rewrite any_int_spec|]; reflexivity.
Qed.

Lemma by_ncvar_In vs arg c :
  In c (by_ncvar vs arg) <-> In c arg /\ selects (mkE [] [] []) AAnd [] (FNcvar vs) c = true.
Proof.
  unfold by_ncvar. cbn [selects]. destruct vs as [|v r]; rewrite filter_In.
  - simpl. rewrite andb_true_r. reflexivity.
  - cbn [unless_empty]. destruct (p_ncvar (c_info c)); [rewrite any_match_spec|]; reflexivity.
Qed.

Lemma by_ncdim_In vs arg c :
  In c (by_ncdim vs arg) <-> In c arg /\ selects (mkE [] [] []) AAnd [] (FNcdim vs) c = true.
Proof.
  unfold by_ncdim. cbn [selects]. destruct vs as [|v r]; rewrite filter_In.
  - simpl. rewrite andb_true_r. reflexivity.
  - cbn [unless_empty]. destruct (c_ncdim c); [rewrite any_match_spec|]; reflexivity.
Qed.

Lemma by_size_In vs arg c :
  In c (by_size vs arg) <-> In c arg /\ selects (mkE [] [] []) AAnd [] (FSize vs) c = true.
Proof.
  unfold by_size. cbn [selects]. destruct vs as [|v r].
  - rewrite by_type_In. cbn [unless_empty]. rewrite mem1, andb_true_r. reflexivity.
  - rewrite filter_In. unfold is_type. cbn [unless_empty].
    destruct (c_size c); [rewrite any_int_spec|]; reflexivity.
Qed.

Lemma by_key_In vs arg c :
  In c (by_key vs arg) <-> In c arg /\ unless_empty vs (some_str vs (c_key c)) = true.
Proof.
  unfold by_key. destruct vs as [|v r].
  - simpl. tauto.
  - rewrite filter_In. cbn [unless_empty]. rewrite any_match_spec.
    destruct (key_in (c_key c) (v :: r)) eqn:K; [|reflexivity].
    rewrite (key_in_some _ _ K). reflexivity.
Qed.

Lemma by_property_In pm ps arg r c :
  by_property pm ps arg = Ok r ->
  (In c r <-> In c arg /\ sel_property pm ps c = true).
Proof.
  unfold by_property, sel_property. destruct (parse_pmode pm) as [o|e] eqn:P; [|discriminate].
  assert (O : o = list_eqb String.eqb pm ["or"]).
  { unfold parse_pmode in P. destruct pm as [|m [|m2 r2]]; try discriminate.
    - inversion P. reflexivity.
    - simpl. rewrite andb_true_r.
      destruct (String.eqb m "or") eqn:E1; [inversion P; reflexivity|].
      destruct (String.eqb m "and"); [inversion P; reflexivity|discriminate]. }
  destruct ps as [|p q]; intro H.
  - assert (R : r = filter has_props arg) by congruence. subst r. rewrite filter_In.
    simpl. rewrite andb_true_r. reflexivity.
  - assert (R : r = filter (fun c => has_props c && prop_loop o c (p :: q) true) arg) by congruence.
    subst r. rewrite filter_In. cbn [unless_empty]. rewrite <- O. destruct o.
    + rewrite prop_loop_or. reflexivity.
    + rewrite prop_loop_and. reflexivity.
Qed.

Lemma by_property_err pm ps arg arg' e :
  by_property pm ps arg = Err e -> by_property pm ps arg' = Err e.
Proof.
  unfold by_property. destruct (parse_pmode pm); [destruct ps; discriminate|tauto].
Qed.
