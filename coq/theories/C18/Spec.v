(* C18 - what "selected" means, stated from each construct's own report and
   from the documentation of the filter methods, without loops or reference to
   the collection being filtered. *)
From CfdmV Require Import Common.Base Tables.ConstructKinds C18.Model.
Open Scope string_scope.

Definition some_str (vs : list val) (s : string) : bool := existsb (fun v => match_str v s) vs.
Definition some_int (vs : list val) (z : Z) : bool := existsb (fun v => match_int v z) vs.

(* no values given = no restriction *)
Definition unless_empty {A} (vs : list A) (b : bool) : bool :=
  match vs with [] => true | _ => b end.

Definition sel_component (t : string) (vs : list val) (c : construct) : bool :=
  String.eqb (c_type c) t &&
  unless_empty vs (match c_comp c with Some m => some_str vs m | None => false end).

Definition can_hold_data (c : construct) : bool := mem (c_type c) array_construct_types.

(* filter_by_property: every (and) / some (or) named property is present and matches *)
Definition sel_property (pm : list string) (ps : list (string * pq)) (c : construct) : bool :=
  has_props c &&
  unless_empty ps
    (if list_eqb String.eqb pm ["or"]
     then existsb (fun nq => prop_ok c (fst nq) (snd nq)) ps
     else forallb (fun nq => prop_ok c (fst nq) (snd nq)) ps).

(* the construct is named by its key, bare or with the key% prefix *)
Definition key_named (ids : list val) (c : construct) : bool :=
  existsb (fun v => match v with
                    | VStr s => String.eqb s (c_key c) || String.eqb s ("key%" ++ c_key c)
                    | _ => false
                    end) ids.

(* filter_by_identity: named by key, or one of ALL its identities matches one of the values *)
Definition sel_identity (ids : list val) (c : construct) : bool :=
  unless_empty ids
    (key_named ids c || existsb (fun i => some_str ids i) (identities c)).

(* filter_by_axis: relation between the axes x spanned by the construct and the
   domain axes A the given values stand for *)
Definition axis_rel (m : amode) (x A : list string) : bool :=
  match m with
  | AExact => inclb x A && inclb A x
  | ASubset => inclb x A
  | AOr => existsb (fun a => mem a x) A
  | _ => forallb (fun a => mem a x) A
  end.

Definition sel_axis (E : env) (m : amode) (vs : list val) (c : construct) : bool :=
  match vs with
  | [] => can_hold_data c
  | _ => match convert identities_short true E true vs with
         | [] => false
         | A => match c_axes c with Some x => axis_rel m x A | None => false end
         end
  end.

(* "c is selected by filter f" *)
Definition selects (E : env) (am : amode) (pm : list string) (f : fspec) (c : construct) : bool :=
  match f with
  | FType ts => unless_empty ts (mem (c_type c) ts)
  | FData => can_hold_data c
  | FNaxes vs => match vs with
                 | [] => can_hold_data c
                 | _ => match c_axes c with Some x => some_int vs (Z.of_nat (length x)) | None => false end
                 end
  | FNcvar vs => has_ncvar c && unless_empty vs
                   (match p_ncvar (c_info c) with Some n => some_str vs n | None => false end)
  | FNcdim vs => has_ncdim c && unless_empty vs
                   (match c_ncdim c with Some n => some_str vs n | None => false end)
  | FMeasure vs => sel_component "cell_measure" vs c
  | FMethod vs => sel_component "cell_method" vs c
  | FCell vs => sel_component "domain_topology" vs c
  | FConn vs => sel_component "cell_connectivity" vs c
  | FSize vs => String.eqb (c_type c) "domain_axis" &&
                unless_empty vs (match c_size c with Some z => some_int vs z | None => false end)
  | FKey vs => unless_empty vs (some_str vs (c_key c))
  | FIdentity ids => sel_identity ids c
  | FAxis vs => sel_axis E am vs c
  | FProperty ps => sel_property pm ps c
  | FUnknown => false
  end.

(* whether a filter call is refused, and how: decided by its arguments alone *)
Definition refused (am : amode) (pm : list string) (f : fspec) : option errk :=
  match f with
  | FUnknown => Some TypeErr
  | FAxis (_ :: _) => match am with ABad => Some ValueErr | _ => None end
  | FProperty _ => match parse_pmode pm with Err e => Some e | Ok _ => None end
  | _ => None
  end.

(* well-formed collection w.r.t. a set K of construct keys: keys are
   distinct (key_inj), drawn from K, no key begins with key%, and no identity of a
   member coincides with a key of K (bare or key%-prefixed) *)
Definition no_clash (K : list string) (c : construct) : Prop :=
  forall i, In i (identities c) -> key_hit K (VStr i) = None.

Definition key_inj (a : list construct) : Prop :=
  forall c c', In c a -> In c' a -> c_key c = c_key c' -> c = c'.

Definition wf (K : list string) (a : list construct) : Prop :=
  key_inj a /\ incl (keys_of a) K /\
  (forall k, In k K -> prefixb "key%" k = false) /\
  (forall c, In c a -> no_clash K c).

(* a string that _short_iteration lets through *)
Definition plain (s : string) : bool := short_iteration (VStr s).
