(* C18 - the property theorems, nothing else.  Each is closed by [exact] of a
   lemma from Lemmas.v and followed by Print Assumptions.

   [cur] is the code with the repairs C18-fix-1..7 applied; the statements are
   false of the code before them (Refuted.v).  [wf K a]: construct keys are
   distinct, none starts with "key%", and no construct identity is itself a
   construct key - see C18_identity_key_clash_refuted for why the last is needed. *)
From CfdmV Require Import Common.Base Tables.ConstructKinds C18.Model C18.Spec C18.Lemmas.
Open Scope string_scope.

(* Every filter (type, data, naxes, ncvar, ncdim, measure, method, cell,
   connectivity, size, key, identity with the key short cut and the short
   iteration, axis in its four modes after conversion of the values, property
   and/or): a construct is in the result exactly when it was in the collection
   filtered and its own report says it is selected. *)
Theorem C18_filter_sound_complete :
  forall K E am pm f a r, wf K a -> run_filter cur E am pm f a = Ok r ->
  forall c, In c r <-> In c a /\ selects E am pm f c = true.
Proof. exact run_filter_ok. Qed.
Print Assumptions C18_filter_sound_complete.

(* A filter call is refused exactly for an unknown filter name, a bad
   axis_mode with axes given, or a bad property_mode - whatever the collection. *)
Theorem C18_filter_refused_iff :
  forall E am pm f a e, run_filter cur E am pm f a = Err e <-> refused am pm f = Some e.
Proof. exact run_filter_err. Qed.
Print Assumptions C18_filter_refused_iff.

(* The short iteration (first element of every identity iterable) loses no
   identity that _short_iteration lets through, for every construct. *)
Theorem C18_short_iteration_safe :
  forall c x, plain x = true -> (In x (identities_short c) <-> In x (identities c)).
Proof. exact short_iteration_safe. Qed.
Print Assumptions C18_short_iteration_safe.

(* Before C18-fix-1 it did: an identity contributed by the bounds is skipped. *)
Theorem C18_short_iteration_old_refuted :
  exists c x, plain x = true /\ In x (identities c) /\ ~ In x (identities_short_old c).
Proof. eexists; eexists; exact ex_plain. Qed.
Print Assumptions C18_short_iteration_old_refuted.

(* Without the last clause of [wf] the statement is false of the code (also
   of the repaired code): a string that is both a construct key and another
   construct's identity selects only the former.  By design of the key short
   cut; such inputs are excluded from the check (see the report). *)
Theorem C18_identity_key_clash_refuted :
  exists a ids c, nodupb (keys_of a) = true /\ In c a /\ sel_identity ids c = true /\
                  ~ In c (by_identity ids a).
Proof. exact identity_key_clash. Qed.
Print Assumptions C18_identity_key_clash_refuted.

(* Chains of any length: c.filter(f1=.., f2=.., ...) returns the intersection. *)
Theorem C18_chain_intersection :
  forall K E am pm fs a r, wf K a -> run_chain cur E am pm fs a = Ok r ->
  forall c, In c r <-> In c a /\ forallb (fun f => selects E am pm f c) fs = true.
Proof. exact chain_intersection. Qed.
Print Assumptions C18_chain_intersection.

(* ... is refused only because one of its filters is, and succeeds otherwise. *)
Theorem C18_chain_total :
  forall E am pm fs a, (forall f, In f fs -> refused am pm f = None) ->
  exists r, run_chain cur E am pm fs a = Ok r.
Proof. exact chain_total. Qed.
Print Assumptions C18_chain_total.

(* Non-vacuity: a well-formed field on which a three-filter chain (type, axis
   by a netCDF dimension name in "or" mode, two plain identities of which one
   comes from the bounds and one follows a measure) selects two constructs. *)
Theorem C18_chain_example :
  wf (keys_of ex_cs) ex_cs /\
  exists r, run_chain cur ex_E AOr ["and"]
              [FType ["dimension_coordinate"; "cell_measure"]; FAxis [VStr "ncdim%tt"];
               FIdentity [VStr "latitude"; VStr "cell_area"]] ex_cs = Ok r /\
            keys_of r = ["cellmeasure0"; "dimensioncoordinate0"].
Proof. exact (conj ex_wf ex_chain). Qed.
Print Assumptions C18_chain_example.

(* Method chaining c.filter_by_a(..).filter_by_b(..)... selects the same
   members (or raises the same error) as the single call c.filter(a=.., b=..),
   for every list of filters and every history behind c. *)
Theorem C18_method_chain_equals_filter_call :
  forall fda am pm self fs,
  same_outcome (run_ops cur fda self (map (fun f => OFilter am pm [f]) fs))
               (chain_obj cur fda am pm self fs self).
Proof. exact method_chain_equals_filter_call. Qed.
Print Assumptions C18_method_chain_equals_filter_call.

(* inverse_filter() is the complement within the unfiltered collection,
   after any history. *)
Theorem C18_inverse_is_complement :
  forall o, exists r, inverse_filter cur None o = Ok r /\
  forall c, In c (members r) <->
            In c (members (root_obj o)) /\ ~ In (c_key c) (keys_of (members o)).
Proof. exact inverse_default. Qed.
Print Assumptions C18_inverse_is_complement.

(* inverse_filter(1) straight after a filter (also one inside a filter(...)
   chain) is the complement within what that filter was given, and applying
   it twice gives the filtered collection back. *)
Theorem C18_inverse_depth_one :
  forall fda am pm self f arg o, step_filter cur fda am pm self f arg = Ok o ->
  exists r, inverse_filter cur (Some 1%nat) o = Ok r /\
  (forall c, In c (members r) <-> In c (members arg) /\ ~ In (c_key c) (keys_of (members o))) /\
  inverse_filter cur (Some 1%nat) r = Ok o.
Proof. exact inverse_depth_one. Qed.
Print Assumptions C18_inverse_depth_one.

(* Selecting never alters the collection selected from: after any history of
   filter / inverse_filter / unfilter calls, unfilter() is still the original. *)
Theorem C18_history_keeps_collection :
  forall fda ps o r, run_ops cur fda o ps = Ok r -> root_obj r = root_obj o.
Proof. exact run_ops_root. Qed.
Print Assumptions C18_history_keeps_collection.

(* The single-construct accessors return the construct with key k exactly
   when it is the one member selected by the type, the keyword filters and the
   identities together; otherwise the default / the stated error. *)
Theorem C18_unique_accessor :
  forall K E ts ids fs sel k, wf K (e_self E) ->
  run_chain cur E AAnd ["and"] (typed_filters ts ids fs) (e_self E) = Ok sel ->
  (return_construct sel = Found k <->
   exists c, sel = [c] /\ c_key c = k /\ In c (e_self E) /\
             forallb (fun f => selects E AAnd ["and"] f c) (typed_filters ts ids fs) = true).
Proof. exact unique_accessor. Qed.
Print Assumptions C18_unique_accessor.

Theorem C18_accessor_default_iff :
  forall sel n, return_construct sel = NotUnique n <-> n = length sel /\ n <> 1%nat.
Proof. exact return_construct_not_unique. Qed.
Print Assumptions C18_accessor_default_iff.

(* ---- second pass: an axis named by an identity of its 1-d coordinates ---- *)

(* _filter_convert_to_domain_axis: a string (not itself a domain axis key) or a
   pattern that is an identity of at least one 1-d dimension/auxiliary
   coordinate, and all the 1-d coordinates having it span the one axis [a]
   - however many they are - stands for [a]. *)
Theorem C18_axis_named_by_coordinate_identity :
  forall K E chk v a, wf K (e_root E) -> names_no_axis_key E v ->
  (exists k, coord1 E k /\ sel_identity [v] k = true) ->
  (forall k, coord1 E k -> sel_identity [v] k = true -> c_axes k = Some [a]) ->
  convert1 identities_short true E chk v = [a].
Proof. exact axis_named_by_coordinate_identity. Qed.
Print Assumptions C18_axis_named_by_coordinate_identity.

(* ... so filter_by_axis selects, in every axis_mode and from every collection,
   exactly what it selects when the axis is named by its key. *)
Theorem C18_axis_by_identity_equals_axis_by_key :
  forall K E v a m arg, wf K (e_root E) -> names_no_axis_key E v ->
  (exists k, coord1 E k /\ sel_identity [v] k = true) ->
  (forall k, coord1 E k -> sel_identity [v] k = true -> c_axes k = Some [a]) ->
  In a (keys_of (by_type ["domain_axis"] (e_root E))) ->
  by_axis_gen identities_short true E m [v] arg = by_axis_gen identities_short true E m [VStr a] arg.
Proof. exact axis_by_identity_equals_axis_by_key. Qed.
Print Assumptions C18_axis_by_identity_equals_axis_by_key.

(* The exact guard: when two 1-d coordinates with that identity span different
   axes the value stands for no axis at all. *)
Theorem C18_identity_on_two_axes_names_no_axis :
  forall K E chk v k1 k2 a1 a2, wf K (e_root E) -> names_no_axis_key E v ->
  coord1 E k1 -> coord1 E k2 -> sel_identity [v] k1 = true -> sel_identity [v] k2 = true ->
  c_axes k1 = Some [a1] -> c_axes k2 = Some [a2] -> a1 <> a2 ->
  convert1 identities_short true E chk v = [].
Proof. exact identity_on_two_axes_names_no_axis. Qed.
Print Assumptions C18_identity_on_two_axes_names_no_axis.

(* Non-vacuity: a dimension and an auxiliary coordinate of one axis share
   standard_name 'latitude'; the name stands for that axis and selects the
   three constructs spanning it. *)
Theorem C18_axis_by_shared_identity_example :
  wf (keys_of sh_cs) sh_cs /\
  convert1 identities_short true sh_E true (VStr "latitude") = ["domainaxis0"] /\
  exists r, by_axis_gen identities_short true sh_E AAnd [VStr "latitude"] sh_cs = Ok r /\
            keys_of r = ["auxiliarycoordinate0"; "auxiliarycoordinate1"; "dimensioncoordinate0"].
Proof. exact sh_example. Qed.
Print Assumptions C18_axis_by_shared_identity_example.

(* domain_axes(identities, filters) and cell_methods(identities, filters), on
   every path (also when an identity had to be converted to an axis): whatever
   is returned is of the right type and passes every keyword filter. *)
Theorem C18_domain_axes_respects_filters :
  forall K E fs ids r, wf K (e_self E) -> domain_axes cur E fs ids = Ok r ->
  forall c, In c r ->
  In c (e_self E) /\ forallb (fun f => selects E AAnd ["and"] f c) (FType ["domain_axis"] :: fs) = true.
Proof. exact domain_axes_respects_filters. Qed.
Print Assumptions C18_domain_axes_respects_filters.

Theorem C18_cell_methods_respects_filters :
  forall K E fs ids r, wf K (e_self E) -> cell_methods cur E fs ids = Ok r ->
  forall c, In c r ->
  In c (e_self E) /\ forallb (fun f => selects E AAnd ["and"] f c) (FType ["cell_method"] :: fs) = true.
Proof. exact cell_methods_respects_filters. Qed.
Print Assumptions C18_cell_methods_respects_filters.

(* Before C18-fix3-1 the fall-back path forgot the keyword filters. *)
Theorem C18_old_fallback_forgets_filters_refuted :
  exists r c, domain_axes old sh_E [FSize [VInt 99]] [VStr "latitude"] = Ok r /\ In c r /\
              selects sh_E AAnd ["and"] (FSize [VInt 99]) c = false.
Proof. exact old_fallback_forgets_filters. Qed.
Print Assumptions C18_old_fallback_forgets_filters_refuted.
