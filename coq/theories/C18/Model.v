(* C18 - executable model of construct selection (cfdm/constructs.py filters,
   cfdm/mixin/container.py _iter, cfdm/mixin/properties.py identities,
   cfdm/mixin/fielddomain.py accessors, cfdm/field.py cell_methods).

   Definitions only.  A construct is abstracted to what it reports about
   itself; the filters are transcribed branch for branch, loops with their
   break/continue flags included.  Definitions ending in _old transcribe the
   code as it stood before the "fix:" commits proposed with this property
   (C18-fix-1 .. 6); Refuted.v holds the witnesses against them. *)
From CfdmV Require Import Common.Base Tables.ConstructKinds.
Open Scope string_scope.
(* list append, kept apart from string append *)
Infix "+++" := app (right associativity, at level 60) : list_scope.

(* ---------------------------------------------------------------- strings *)
Fixpoint has_char (a : ascii) (s : string) : bool :=
  match s with
  | EmptyString => false
  | String c r => Ascii.eqb a c || has_char a r
  end.

Fixpoint prefixb (p s : string) : bool :=
  match p, s with
  | EmptyString, _ => true
  | String a p', String b s' => Ascii.eqb a b && prefixb p' s'
  | String _ _, EmptyString => false
  end.

Fixpoint substrb (p s : string) : bool :=
  prefixb p s || match s with EmptyString => false | String _ r => substrb p r end.

Fixpoint suffixb (p s : string) : bool :=
  String.eqb p s || match s with EmptyString => false | String _ r => suffixb p r end.

Fixpoint sdrop (n : nat) (s : string) : string :=
  match n, s with
  | O, _ => s
  | S k, String _ r => sdrop k r
  | S _, EmptyString => EmptyString
  end.

Definition mem (x : string) (l : list string) : bool := existsb (String.eqb x) l.

Fixpoint str_leb (a b : string) : bool :=
  match a, b with
  | EmptyString, _ => true
  | String _ _, EmptyString => false
  | String x a', String y b' =>
      let nx := nat_of_ascii x in
      let ny := nat_of_ascii y in
      if (nx <? ny)%nat then true else if (ny <? nx)%nat then false else str_leb a' b'
  end.

Fixpoint insert_prop (kv : string * string) (l : list (string * string)) :=
  match l with
  | [] => [kv]
  | h :: r => if str_leb (fst kv) (fst h) then kv :: l else h :: insert_prop kv r
  end.

(* sorted(properties.items()) - property names are unique *)
Definition sort_props (l : list (string * string)) : list (string * string) :=
  fold_right insert_prop [] l.

(* ------------------------------------------------- values given to filters *)
(* VStr: a str; VRe a e lit: re.compile(("^" if a) + re.escape(lit) + ("$" if e));
   VInt: an int; VOther: any other object that equals nothing (e.g. None). *)
Inductive val :=
| VStr (s : string)
| VRe (a e : bool) (lit : string)
| VInt (z : Z)
| VOther.

Definition re_search (a e : bool) (lit s : string) : bool :=
  match a, e with
  | true, true => String.eqb lit s
  | true, false => prefixb lit s
  | false, true => suffixb lit s
  | false, false => substrb lit s
  end.

(* Constructs._matching_values(value0, None, value1, basic=True), value1 a str *)
Definition match_str (v : val) (s : string) : bool :=
  match v with
  | VStr x => String.eqb x s
  | VRe a e l => re_search a e l s
  | VInt _ | VOther => false
  end.

(* value1 an int: Pattern.search(int) raises TypeError -> False *)
Definition match_int (v : val) (z : Z) : bool :=
  match v with VInt x => Z.eqb x z | _ => false end.

Definition val_eqb (a b : val) : bool :=
  match a, b with
  | VStr x, VStr y => String.eqb x y
  | VRe a1 e1 l1, VRe a2 e2 l2 => Bool.eqb a1 a2 && Bool.eqb e1 e2 && String.eqb l1 l2
  | VInt x, VInt y => Z.eqb x y
  | VOther, VOther => true
  | _, _ => false
  end.

(* "for value0 in values: ok = match(value0, value1); if ok: break" *)
Fixpoint any_match (vs : list val) (s : string) : bool :=
  match vs with
  | [] => false
  | v :: r => if match_str v s then true else any_match r s
  end.

(* "value1 in sizes" *)
Fixpoint any_int (vs : list val) (z : Z) : bool :=
  match vs with
  | [] => false
  | v :: r => if match_int v z then true else any_int r z
  end.

(* ------------------------------------------------------------- constructs *)
Record pinfo := mkP {
  p_props : list (string * string);     (* properties(), names unique *)
  p_ncvar : option string }.            (* nc_get_variable(None) *)

Record construct := mkC {
  c_key : string;                       (* construct identifier *)
  c_type : string;                      (* Constructs._construct_type[key] *)
  c_axes : option (list string);        (* Constructs._construct_axes.get(key) *)
  c_size : option Z;                    (* DomainAxis.get_size(None) *)
  c_comp : option string;               (* get_measure / get_method / get_cell / get_connectivity *)
  c_ncdim : option string;              (* DomainAxis.nc_get_dimension(None) *)
  c_info : pinfo;                       (* own properties and netCDF variable name *)
  c_bounds : option pinfo;              (* the bounds' properties and netCDF variable name *)
  c_cc : list (string * string);        (* coordinate conversion parameters standard_name, grid_mapping_name *)
  c_maxes : list string }.              (* CellMethod.get_axes *)

Definition has_props (c : construct) := mem (c_type c) types_with_properties.
Definition has_ncvar (c : construct) := mem (c_type c) types_with_ncvar.
Definition has_ncdim (c : construct) := mem (c_type c) types_with_ncdim.
Definition is_type (t : string) (c : construct) := String.eqb (c_type c) t.

Definition opt_list {A} (o : option A) (f : A -> string) : list string :=
  match o with Some a => [f a] | None => [] end.

Definition special_props : list string := ["cf_role"; "axis"; "long_name"].

(* Properties._identities_iter *)
Definition props_body (p : pinfo) : list string :=
  let ps := p_props p in
  opt_list (assoc "standard_name" ps) (fun v => v) +++
  flat_map (fun k => opt_list (assoc k ps) (fun v => k ++ "=" ++ v)) special_props +++
  map (fun kv => fst kv ++ "=" ++ snd kv)
      (sort_props (filter (fun kv => negb (mem (fst kv) special_props)) ps)) +++
  opt_list (p_ncvar p) (fun n => "ncvar%" ++ n).

(* CellMeasure / DomainTopology / CellConnectivity .identities: the "pre" item *)
Definition comp_prefix (t : string) : option string :=
  if String.eqb t "cell_measure" then Some "measure"
  else if String.eqb t "domain_topology" then Some "cell"
  else if String.eqb t "cell_connectivity" then Some "connectivity"
  else None.

(* The iterables handed to Container._iter, in order: pre..., body, post... *)
Definition segments (c : construct) : list (list string) :=
  let t := c_type c in
  if String.eqb t "domain_axis" then [opt_list (c_ncdim c) (fun n => "ncdim%" ++ n)]
  else if String.eqb t "cell_method" then [opt_list (c_comp c) (fun m => "method:" ++ m)]
  else if String.eqb t "coordinate_reference" then
    [flat_map (fun k => opt_list (assoc k (c_cc c)) (fun v => k ++ ":" ++ v))
              ["standard_name"; "grid_mapping_name"] +++
     opt_list (p_ncvar (c_info c)) (fun n => "ncvar%" ++ n)]
  else
    (match comp_prefix t, c_comp c with
     | Some pre, Some m => [[pre ++ ":" ++ m]]
     | _, _ => []
     end) +++ [props_body (c_info c)] +++
    (match c_bounds c with Some b => [props_body b] | None => [] end).

(* construct.identities() *)
Definition identities (c : construct) : list string := concat (segments c).

(* Container._iter(short=True): the first element of every iterable *)
Definition identities_short (c : construct) : list string :=
  flat_map (firstn 1) (segments c).

(* before C18-fix-1: stop after the very first element realised *)
Definition identities_short_old (c : construct) : list string := firstn 1 (identities c).

(* Constructs._short_iteration *)
Definition short_iteration (v : val) : bool :=
  match v with
  | VStr s => negb (has_char "="%char s) && negb (has_char ":"%char s) && negb (has_char "%"%char s)
  | _ => false
  end.

(* which of the two iterations a call uses *)
Definition idents_with (sh : construct -> list string) (short : bool) (c : construct) :=
  if short then sh c else identities c.

(* ----------------------------------------------------------- simple filters *)
Definition keys_of (l : list construct) : list string := map c_key l.

(* _filter_by_type: no types = everything *)
Definition by_type (ts : list string) (arg : list construct) : list construct :=
  match ts with
  | [] => arg
  | _ => filter (fun c => mem (c_type c) ts) arg
  end.

(* _filter_by_data *)
Definition by_data (arg : list construct) : list construct := by_type array_construct_types arg.

(* _component_filter *)
Definition by_component (ctypes : list string) (vs : list val) (arg : list construct) :=
  match vs with
  | [] => filter (fun c => mem (c_type c) ctypes) arg
  | _ => filter (fun c => mem (c_type c) ctypes &&
                          match c_comp c with Some m => any_match vs m | None => false end) arg
  end.

(* _filter_by_naxes *)
Definition by_naxes (ns : list val) (arg : list construct) :=
  match ns with
  | [] => by_data arg
  | _ => filter (fun c => match c_axes c with
                          | None => false
                          | Some x => any_int ns (Z.of_nat (length x))
                          end) arg
  end.

(* _filter_by_ncvar *)
Definition by_ncvar (vs : list val) (arg : list construct) :=
  match vs with
  | [] => filter has_ncvar arg
  | _ => filter (fun c => has_ncvar c &&
                          match p_ncvar (c_info c) with Some n => any_match vs n | None => false end) arg
  end.

(* _filter_by_ncdim *)
Definition by_ncdim (vs : list val) (arg : list construct) :=
  match vs with
  | [] => filter has_ncdim arg
  | _ => filter (fun c => has_ncdim c &&
                          match c_ncdim c with Some n => any_match vs n | None => false end) arg
  end.

(* _filter_by_size *)
Definition by_size (vs : list val) (arg : list construct) :=
  match vs with
  | [] => by_type ["domain_axis"] arg
  | _ => filter (fun c => is_type "domain_axis" c &&
                          match c_size c with Some z => any_int vs z | None => false end) arg
  end.

(* "cid in keys" on a tuple *)
Fixpoint key_in (k : string) (vs : list val) : bool :=
  match vs with
  | [] => false
  | VStr s :: r => String.eqb s k || key_in k r
  | _ :: r => key_in k r
  end.

(* _filter_by_key *)
Definition by_key (vs : list val) (arg : list construct) :=
  match vs with
  | [] => arg
  | _ => filter (fun c => if key_in (c_key c) vs then true else any_match vs (c_key c)) arg
  end.

(* filter_by_property: queried value None = "has the property" *)
Inductive pq := PAny | PVal (v : val).

Definition prop_ok (c : construct) (name : string) (q : pq) : bool :=
  match assoc name (p_props (c_info c)) with
  | None => false
  | Some v1 => match q with PAny => true | PVal v0 => match_str v0 v1 end
  end.

(* the loop over properties.items() with its break rules *)
Fixpoint prop_loop (or_ : bool) (c : construct) (ps : list (string * pq)) (ok : bool) : bool :=
  match ps with
  | [] => ok
  | (name, q) :: r =>
      let ok' := prop_ok c name q in
      if or_ then (if ok' then ok' else prop_loop or_ c r ok')
      else (if negb ok' then ok' else prop_loop or_ c r ok')
  end.

(* parsing of the property_mode tuple *)
Definition parse_pmode (pm : list string) : result bool :=
  match pm with
  | [] => Ok false
  | [m] => if String.eqb m "or" then Ok true else if String.eqb m "and" then Ok false else Err ValueErr
  | _ => Err ValueErr
  end.

Definition by_property (pm : list string) (ps : list (string * pq)) (arg : list construct)
  : result (list construct) :=
  match parse_pmode pm with
  | Err e => Err e
  | Ok or_ =>
      match ps with
      | [] => Ok (filter has_props arg)
      | _ => Ok (filter (fun c => has_props c && prop_loop or_ c ps true) arg)
      end
  end.

(* ------------------------------------------------------ filter_by_identity *)
(* the construct-identifier short cut *)
Definition key_hit (out_keys : list string) (v : val) : option string :=
  match v with
  | VStr s => if mem s out_keys then Some s
              else if prefixb "key%" s && mem (sdrop 4 s) out_keys then Some (sdrop 4 s)
              else None
  | _ => None
  end.

Definition key_hits (out_keys : list string) (ids : list val) : list string :=
  flat_map (fun v => match key_hit out_keys v with Some k => [k] | None => [] end) ids.

Definition ids_rest (out_keys : list string) (ids : list val) : list val :=
  filter (fun v => match key_hit out_keys v with Some _ => false | None => true end) ids.

(* "for value0 in identities: if match: hits.append(value0); matched.add(cid); break" *)
Fixpoint first_match (ids : list val) (s : string) : option val :=
  match ids with
  | [] => None
  | v :: r => if match_str v s then Some v else first_match r s
  end.

Definition ident_matched (sh : construct -> list string) (short : bool) (ids : list val)
           (c : construct) : bool :=
  existsb (fun i => match first_match ids i with Some _ => true | None => false end)
          (idents_with sh short c).

(* the set `matched` *)
Definition fbi_matched (sh : construct -> list string) (ids : list val) (arg : list construct)
  : list string :=
  let ks := keys_of arg in
  let kh := key_hits ks ids in
  match ids_rest ks ids with
  | [] => kh
  | _ :: _ =>
      let short := forallb short_iteration ids in
      kh +++ keys_of (filter (fun c => negb (mem (c_key c) kh) && ident_matched sh short ids c) arg)
  end.

(* the list `hits` (as a set) *)
Definition fbi_hits (sh : construct -> list string) (ids : list val) (arg : list construct)
  : list val :=
  let ks := keys_of arg in
  let kh := key_hits ks ids in
  filter (fun v => match key_hit ks v with Some _ => true | None => false end) ids +++
  match ids_rest ks ids with
  | [] => []
  | _ :: _ =>
      let short := forallb short_iteration ids in
      flat_map (fun c => if mem (c_key c) kh then []
                         else flat_map (fun i => match first_match ids i with Some v => [v] | None => [] end)
                                       (idents_with sh short c)) arg
  end.

(* _filter_by_identity without return_matched *)
Definition by_identity_gen (sh : construct -> list string) (ids : list val) (arg : list construct) :=
  match ids with
  | [] => arg
  | _ => let m := fbi_matched sh ids arg in filter (fun c => mem (c_key c) m) arg
  end.

Definition by_identity := by_identity_gen identities_short.
Definition by_identity_old := by_identity_gen identities_short_old.

(* ---------------------------------------------------------- filter_by_axis *)
Inductive amode := AAnd | AOr | AExact | ASubset | ABad.

(* what a filter may look at besides its argument:
   e_root: the unfiltered collection (self.unfilter(copy=False));
   e_self: the collection the method is bound to;
   e_fda : Constructs._field_data_axes (empty when there are none) *)
Record env := mkE { e_root : list construct; e_self : list construct; e_fda : list string }.

Definition py_index {A} (l : list A) (z : Z) : option A :=
  let n := Z.of_nat (length l) in
  let i := if (z <? 0)%Z then (z + n)%Z else z in
  if ((0 <=? i) && (i <? n))%Z then nth_error l (Z.to_nat i) else None.

Fixpoint all_same (x : string) (l : list string) : bool :=
  match l with [] => true | y :: r => String.eqb x y && all_same x r end.

(* one value of Constructs._filter_convert_to_domain_axis.  [da_from_root]:
   the domain axis identities are looked up in the unfiltered collection
   (C18-fix-5) rather than in self. *)
Definition convert1 (sh : construct -> list string) (da_from_root : bool) (E : env) (chk : bool)
           (v : val) : list string :=
  let da_keys := keys_of (by_type ["domain_axis"] (e_root E)) in
  match v with
  | VStr s => if mem s da_keys then [s] else
      let c := by_identity_gen sh [v] (by_naxes [VInt 1]
                 (by_type ["dimension_coordinate"; "auxiliary_coordinate"] (e_root E))) in
      match c with
      | _ :: _ =>
          let axs := flat_map (fun k => match c_axes k with Some (a :: _) => [a] | _ => [] end) c in
          match axs with a :: r => if all_same a r then [a] else [] | [] => [] end
      | [] =>
          if chk then
            match by_identity_gen sh [v] (by_type ["domain_axis"]
                     (if da_from_root then e_root E else e_self E)) with
            | [d] => [c_key d]
            | _ => []
            end
          else []
      end
  | VInt z =>
      match e_fda E with
      | _ :: _ => match py_index (e_fda E) z with Some k => [k] | None => [] end
      | [] => []
      end
  | VRe _ _ _ =>
      let c := by_identity_gen sh [v] (by_naxes [VInt 1]
                 (by_type ["dimension_coordinate"; "auxiliary_coordinate"] (e_root E))) in
      match c with
      | _ :: _ =>
          let axs := flat_map (fun k => match c_axes k with Some (a :: _) => [a] | _ => [] end) c in
          match axs with a :: r => if all_same a r then [a] else [] | [] => [] end
      | [] =>
          if chk then
            match by_identity_gen sh [v] (by_type ["domain_axis"]
                     (if da_from_root then e_root E else e_self E)) with
            | [d] => [c_key d]
            | _ => []
            end
          else []
      end
  | VOther => []
  end.

Definition convert (sh : construct -> list string) (da_from_root : bool) (E : env) (chk : bool)
           (vs : list val) : list string :=
  flat_map (convert1 sh da_from_root E chk) vs.

(* the loop "for axis_key in axes: ok = axis_key in x; ..." *)
Fixpoint axis_loop (or_ : bool) (x axes : list string) (ok : bool) : bool :=
  match axes with
  | [] => ok
  | a :: r =>
      let ok' := mem a x in
      if or_ then (if ok' then true else axis_loop or_ x r ok')
      else (if ok' then axis_loop or_ x r ok' else false)
  end.

Definition inclb (a b : list string) : bool := forallb (fun x => mem x b) a.

Definition axis_ok (m : amode) (x axes : list string) : bool :=
  match m with
  | AExact => inclb x axes && inclb axes x
  | ASubset => inclb x axes
  | AOr => axis_loop true x axes true
  | _ => axis_loop false x axes true
  end.

Definition by_axis_gen (sh : construct -> list string) (da_from_root : bool) (E : env)
           (m : amode) (vs : list val) (arg : list construct) : result (list construct) :=
  match vs with
  | [] => Ok (by_data arg)
  | _ =>
      match m with
      | ABad => Err ValueErr
      | _ =>
          match convert sh da_from_root E true vs with
          | [] => Ok []
          | axes => Ok (filter (fun c => match c_axes c with
                                         | None => false
                                         | Some x => axis_ok m x axes
                                         end) arg)
          end
      end
  end.

(* ------------------------------------------------------- Constructs.filter *)
Inductive fspec :=
| FType (ts : list string)
| FData
| FNaxes (vs : list val)
| FNcvar (vs : list val)
| FNcdim (vs : list val)
| FMeasure (vs : list val)
| FMethod (vs : list val)
| FCell (vs : list val)
| FConn (vs : list val)
| FSize (vs : list val)
| FKey (vs : list val)
| FIdentity (vs : list val)
| FAxis (vs : list val)
| FProperty (ps : list (string * pq))
| FUnknown.

(* the behaviour switches of the code: current (fixed) and as it was *)
Record variant := mkV {
  v_short : construct -> list string;   (* short iteration of identities *)
  v_da_root : bool;                     (* C18-fix-5 *)
  v_type_pre_arg : bool;                (* C18-fix-2: _filter_by_type records arg, not self *)
  v_inv_guard : bool;                   (* C18-fix-3: inverse_filter(depth) with no filters *)
  v_cm_guard : bool;                    (* C18-fix-6: cell_methods with no key found *)
  v_pop_default : bool;                 (* C18-fix-7: inverse_filter pops with a default *)
  v_keep_filters : bool }.              (* C18-fix3-1/2: the fall-back of domain_axes / cell_methods keeps the other filters *)

Definition cur : variant := mkV identities_short true true true true true true.
Definition old : variant := mkV identities_short_old false false false false false false.

Definition run_filter (V : variant) (E : env) (am : amode) (pm : list string) (f : fspec)
           (arg : list construct) : result (list construct) :=
  match f with
  | FType ts => Ok (by_type ts arg)
  | FData => Ok (by_data arg)
  | FNaxes vs => Ok (by_naxes vs arg)
  | FNcvar vs => Ok (by_ncvar vs arg)
  | FNcdim vs => Ok (by_ncdim vs arg)
  | FMeasure vs => Ok (by_component ["cell_measure"] vs arg)
  | FMethod vs => Ok (by_component ["cell_method"] vs arg)
  | FCell vs => Ok (by_component ["domain_topology"] vs arg)
  | FConn vs => Ok (by_component ["cell_connectivity"] vs arg)
  | FSize vs => Ok (by_size vs arg)
  | FKey vs => Ok (by_key vs arg)
  | FIdentity vs => Ok (by_identity_gen (v_short V) vs arg)
  | FAxis vs => by_axis_gen (v_short V) (v_da_root V) E am vs arg
  | FProperty ps => by_property pm ps arg
  | FUnknown => Err TypeErr
  end.

(* Constructs.filter(axis_mode, property_mode, todict=True, **filters): the
   filters are applied in order to the running result, every one bound to self *)
Fixpoint run_chain (V : variant) (E : env) (am : amode) (pm : list string) (fs : list fspec)
         (arg : list construct) : result (list construct) :=
  match fs with
  | [] => Ok arg
  | f :: r => match run_filter V E am pm f arg with
              | Ok a => run_chain V E am pm r a
              | Err e => Err e
              end
  end.

(* ------------------------------------- Constructs objects with a filter history *)
(* members, _filters_applied (true = an inverse_filter record, most recent
   first), _prefiltered *)
Inductive cobj := CObj (members : list construct) (fa : list bool) (pre : option cobj).

Definition members (o : cobj) := match o with CObj m _ _ => m end.
Definition applied (o : cobj) := match o with CObj _ f _ => f end.
Definition prefiltered (o : cobj) := match o with CObj _ _ p => p end.

(* unfilter(depth=None) *)
Fixpoint root_obj (o : cobj) : cobj :=
  match o with
  | CObj _ _ (Some p) => root_obj p
  | CObj _ _ None => o
  end.

(* unfilter(depth=n) *)
Fixpoint unfilter_n (n : nat) (o : cobj) : cobj :=
  match n with
  | O => o
  | S k => match prefiltered o with Some p => unfilter_n k p | None => o end
  end.

Definition unfilter (depth : option nat) (o : cobj) : cobj :=
  match depth with None => root_obj o | Some n => unfilter_n n o end.

Definition env_of (fda : list string) (self : cobj) : env :=
  mkE (members (root_obj self)) (members self) fda.

(* one filter of a chain: [self] is the object filter() was called on, [arg]
   the running result.  Every worker records {filter: args} and the collection
   it started from; before C18-fix-2 _filter_by_type (also reached through
   filter_by_data and the empty-argument forms of naxes/size/axis) recorded
   self instead of arg. *)
Definition via_type_worker (am : amode) (f : fspec) : bool :=
  match f with
  | FType _ | FData | FNaxes [] | FSize [] => true
  | FAxis [] => true
  | _ => false
  end.

Definition step_filter (V : variant) (fda : list string) (am : amode) (pm : list string)
           (self : cobj) (f : fspec) (arg : cobj) : result cobj :=
  match run_filter V (env_of fda self) am pm f (members arg) with
  | Err e => Err e
  | Ok m =>
      let pre := if via_type_worker am f && negb (v_type_pre_arg V) then self else arg in
      Ok (CObj m (false :: applied arg) (Some pre))
  end.

Fixpoint chain_obj (V : variant) (fda : list string) (am : amode) (pm : list string)
         (self : cobj) (fs : list fspec) (arg : cobj) : result cobj :=
  match fs with
  | [] => Ok arg
  | f :: r => match step_filter V fda am pm self f arg with
              | Ok a => chain_obj V fda am pm self r a
              | Err e => Err e
              end
  end.

(* number of leading inverse_filter records *)
Fixpoint leading_inverse (fa : list bool) : nat :=
  match fa with true :: r => S (leading_inverse r) | _ => O end.

Definition minus (a b : list construct) : list construct :=
  filter (fun c => negb (mem (c_key c) (keys_of b))) a.

(* Constructs.inverse_filter(depth) *)
Definition inverse_filter (V : variant) (depth : option nat) (self : cobj) : result cobj :=
  let out := unfilter depth self in
  let plain :=
    (* "for key in self: out._pop(key)": KeyError on a key that out lacks *)
    if v_pop_default V || inclb (keys_of (members self)) (keys_of (members out))
    then Ok (CObj (minus (members out) (members self)) (true :: applied self) (Some self))
    else Err KeyErr in
  match depth with
  | Some (S d0) =>
      match applied self with
      | [] => if v_inv_guard V then plain else Err IndexErr
      | true :: _ =>
          let d := S (leading_inverse (applied out)) in
          if (1 <? d)%nat then Ok (unfilter (Some (S d0 + d - 1)%nat) self) else Ok out
      | false :: _ => plain
      end
  | _ => plain
  end.

(* a history of public calls on a Constructs object *)
Inductive op :=
| OFilter (am : amode) (pm : list string) (fs : list fspec)   (* c.filter(...) / c.filter_by_x(...) *)
| OInverse (depth : option nat)
| OUnfilter (depth : option nat).

Definition step_op (V : variant) (fda : list string) (o : cobj) (p : op) : result cobj :=
  match p with
  | OFilter am pm fs => chain_obj V fda am pm o fs o
  | OInverse d => inverse_filter V d o
  | OUnfilter d => Ok (unfilter d o)
  end.

Fixpoint run_ops (V : variant) (fda : list string) (o : cobj) (ps : list op) : result cobj :=
  match ps with
  | [] => Ok o
  | p :: r => match step_op V fda o p with Ok o' => run_ops V fda o' r | Err e => Err e end
  end.

(* ------------------------------------------------------------- accessors *)
Inductive picked := Found (k : string) | NotUnique (n : nat).

(* FieldDomain._filter_return_construct: the construct when exactly one was
   selected, otherwise the default (returned, or raised when an exception) *)
Definition return_construct (sel : list construct) : picked :=
  match sel with
  | [c] => Found (c_key c)
  | _ => NotUnique (length sel)
  end.

(* Constructs.domain_axes(identities..., filters...): the keyword filters
   [fs] are applied after filter_by_type and before the identities.  When some
   identity matches no domain axis, the unmatched ones are converted (1-d
   coordinate identity, position in the field data) and the result is the
   domain axes that pass [fs] and have one of the keys found; before
   C18-fix3-1 that fall-back forgot [fs]. *)
Definition domain_axes (V : variant) (E : env) (fs : list fspec) (ids : list val)
  : result (list construct) :=
  match run_chain V E AAnd ["and"] (FType ["domain_axis"] :: fs) (e_self E) with
  | Err e => Err e
  | Ok das =>
      match ids with
      | [] => Ok das
      | _ =>
          let matched := fbi_matched (v_short V) ids das in
          let hits := fbi_hits (v_short V) ids das in
          let misses := filter (fun v => negb (existsb (val_eqb v) hits)) ids in
          match misses with
          | [] => Ok (filter (fun c => mem (c_key c) matched) das)
          | _ =>
              let keys := matched +++ convert (v_short V) (v_da_root V) E false misses in
              Ok (filter (fun c => mem (c_key c) keys)
                         (if v_keep_filters V then das else by_type ["domain_axis"] (e_self E)))
          end
      end
  end.

(* Field.cell_methods(identities..., filters...) *)
Definition cell_methods (V : variant) (E : env) (fs : list fspec) (ids : list val)
  : result (list construct) :=
  match run_chain V E AAnd ["and"] (FType ["cell_method"] :: fs) (e_self E) with
  | Err e => Err e
  | Ok cms =>
      match ids with
      | [] => Ok cms
      | _ =>
          let matched := fbi_matched (v_short V) ids cms in
          let hits := fbi_hits (v_short V) ids cms in
          let misses := filter (fun v => negb (existsb (val_eqb v) hits)) ids in
          match misses with
          | [] => Ok (filter (fun c => mem (c_key c) matched) cms)
          | _ =>
              let all_cms := by_type ["cell_method"] (e_self E) in
              let das := match domain_axes V E [] misses with Ok d => keys_of d | Err _ => [] end in
              let extra := keys_of (filter (fun c => match c_maxes c with
                                                     | [a] => mem a das
                                                     | _ => false
                                                     end) all_cms) in
              let pool := if v_keep_filters V then cms else all_cms in
              match matched +++ extra with
              | [] => if v_cm_guard V then Ok [] else Ok pool
              | keys => Ok (filter (fun c => mem (c_key c) keys) pool)
              end
          end
      end
  end.

(* the typed collections f.<type>s(identities..., filters...) and the generic
   f.constructs(...) / f.construct(...): filter_by_type first (unless no
   type), the keyword filters in order, filter_by_identity last *)
Definition typed_filters (ts : list string) (ids : list val) (fs : list fspec) : list fspec :=
  (match ts with [] => [] | _ => [FType ts] end) +++ fs +++
  (match ids with [] => [] | _ => [FIdentity ids] end).

(* FieldDomain.domain_axis_key *)
Inductive dak := DakKey (k : string) | DakDefault.

Fixpoint dedup (l : list string) : list string :=
  match l with [] => [] | x :: r => if mem x r then dedup r else x :: dedup r end.

Definition domain_axis_key (V : variant) (E : env) (ids : list val) : dak :=
  match run_chain V E AAnd ["and"]
          (typed_filters ["dimension_coordinate"; "auxiliary_coordinate"] ids [FNaxes [VInt 1]])
          (e_self E) with
  | Err _ => DakDefault
  | Ok [] => DakDefault
  | Ok c =>
      let das := keys_of (by_type ["domain_axis"] (e_self E)) in
      let keys := flat_map (fun k => match c_axes k with
                                     | Some (a :: _) => if mem a das then [a] else []
                                     | _ => []
                                     end) c in
      match dedup keys with [k] => DakKey k | _ => DakDefault end
  end.
