(* C09 - specification: what a field must read back as, written from the field
   alone (no writer state, no other field), and the well-formedness guard of
   the composition theorem.

   [expected f] is the read-back view of a field [f] that owns its file: every
   dimension coordinate, scalar coordinate, auxiliary coordinate, cell measure
   and field ancillary with its own token, bounds token and shape; the domain
   ancillaries reached through the formula terms of the owning dimension
   coordinate; the vertical coordinate reference with its terms; the grid
   mappings (after _create_vertical_datum) with their datums and, when there
   are several, the coordinates they list.  The composition theorem
   (Props.v, C09_composition) says that cfdm.write followed by cfdm.read, as
   modelled, returns [map expected fs] for every list [fs] of well-formed
   fields that passes the formula-terms guard. *)
From CfdmV Require Import Common.Base C09.Model.
Open Scope Z_scope.

Definition btok (o : option Z) : Z := match o with Some b => b | None => -1 end.

Definition rc_of (role : nat) (c : comp) : rcons := (role, ctok c, btok (cbt c), cshape c).

Definition noitem : citem := mkI [] 0 None.
Definition anc_item (f : field) (j : nat) : citem := nth j (anc f) noitem.

Definition nsome {A} (l : list (option A)) : nat := length (somes l).

(* the term indices this field wants as formula_terms on the dimension
   coordinate of axis [a] *)
Definition want_idx (f : field) (a : nat) : option (list nat) :=
  match ft f with
  | Some fr => if Nat.eqb (f_z fr) a then
                 match f_terms fr with [] => None | _ => Some (f_terms fr) end
               else None
  | None => None
  end.

Fixpoint s_dims (f : field) (dcs : list (option citem)) (a : nat) : list rcons :=
  match dcs with
  | [] => []
  | Some it :: r => rc_of role_dim (dimcomp f a it) :: s_dims f r (S a)
  | None :: r => s_dims f r (S a)
  end.

(* vertical references: key of the owning dimension coordinate, its token, term indices *)
Fixpoint s_vcrs (f : field) (dcs : list (option citem)) (a n : nat) : list (key * Z * list nat) :=
  match dcs with
  | [] => []
  | Some it :: r =>
      match want_idx f a with Some ts => [(KD n, i_tok it, ts)] | None => [] end ++ s_vcrs f r (S a) (S n)
  | None :: r => s_vcrs f r (S a) n
  end.

Definition s_key (f : field) (x : bool * nat) : list (key * Z) :=
  if fst x then
    match nth (snd x) (dimc f) None with
    | Some it => [(KD (nsome (firstn (snd x) (dimc f))), i_tok it)]
    | None => []
    end
  else
    match nth_error (aux f) (snd x) with
    | Some it => [(KA (snd x), i_tok it)]
    | None => []
    end.

Definition spec_view (f : field) : ffield :=
  let vc := s_vcrs f (dimc f) 0 0 in
  mkFF (s_dims f (dimc f) 0 ++
        map (fun it => (role_dim, i_tok it, btok (i_bt it), [1])) (scal f) ++
        map (fun it => rc_of role_aux (comp_of KAux f it)) (aux f) ++
        flat_map (fun x => map (fun j => rc_of role_anc (comp_of KAnc f (anc_item f j))) (snd x)) vc ++
        map (fun it => rc_of role_meas (comp_of KMeas f it)) (meas f) ++
        map (fun it => rc_of role_fanc (comp_of KFAnc f it)) (fanc f))
       (map (fun x => (fst (fst x), snd (fst x), map (fun j => i_tok (anc_item f j)) (snd x))) vc)
       (map (fun g => (g_cc g, g_d g,
                       if Nat.ltb 1 (length (gm_list f)) then Some (flat_map (s_key f) (g_co g)) else None))
            (gm_list f)).

(* reading a file that holds one data variable *)
Definition read1 (ff : ffield) : rfield :=
  let '(s, x) := read_field true 0 ff (mkR [] []) in finish s 0 x.

Definition expected (f : field) : rfield := read1 (spec_view f).

(* ---------------------------------------------------------------- guard *)
(* Well-formed field: its dimension coordinates are pairwise different (two
   equal dimension coordinates in one field collapse onto one netCDF dimension
   even in a file of their own: a single-file matter, C01), its auxiliary
   coordinates are pairwise different and span existing axes, the coordinates
   named by its coordinate references exist, the owner of the formula terms is
   a dimension coordinate and every term is one of its domain ancillaries. *)
Definition comp_eqb : comp -> comp -> bool := eq_comp false.

Definition item_eqb (x y : citem) : bool :=
  list_eqb Nat.eqb (i_ax x) (i_ax y) && Z.eqb (i_tok x) (i_tok y) && option_eqb Z.eqb (i_bt x) (i_bt y).

Fixpoint nodupb {A} (eqb : A -> A -> bool) (l : list A) : bool :=
  match l with
  | [] => true
  | x :: r => negb (existsb (eqb x) r) && nodupb eqb r
  end.

Fixpoint dcomps (f : field) (dcs : list (option citem)) (a : nat) : list comp :=
  match dcs with
  | [] => []
  | Some it :: r => dimcomp f a it :: dcomps f r (S a)
  | None :: r => dcomps f r (S a)
  end.

Definition co_ok (f : field) (x : bool * nat) : bool :=
  if fst x then match nth (snd x) (dimc f) None with Some _ => true | None => false end
  else Nat.ltb (snd x) (length (aux f)).

Definition wfb (f : field) : bool :=
  nodupb comp_eqb (dcomps f (dimc f) 0) &&
  nodupb item_eqb (aux f) &&
  forallb (fun it => forallb (fun a => Nat.ltb a (length (dimc f))) (i_ax it)) (aux f) &&
  forallb (fun g => forallb (co_ok f) (g_co g)) (gms f) &&
  match ft f with
  | Some fr => co_ok f (true, f_z fr) && forallb (fun j => Nat.ltb j (length (anc f))) (f_terms fr)
  | None => true
  end.

(* the formula_terms attribute (as variable ids) wanted on axis [a] *)
Definition wantv (f : field) (ancv : list nat) (a : nat) : option (list nat) :=
  match want_idx f a with
  | Some ts => Some (map (fun j => nth j ancv 0%nat) ts)
  | None => None
  end.
