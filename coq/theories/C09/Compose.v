(* C09 - the composition theorem: proofs (continuation of Lemmas.v).

   Part 1  the repaired reader on whole files: read_views true l = map read1 l
   Part 2  more writer invariants (bounds table, grid mapping variables,
           dimension of a coordinate variable, dimensions without coordinate
           variable) and their preservation
   Part 3  formula_terms: under the guard the final attribute is the field's own
   Part 4  file_view of a written field = spec_view of the field
   Part 5  composition, single files, permutations *)
From Coq Require Import Permutation.
From CfdmV Require Import Common.Base C09.Model C09.Spec C09.Lemmas.
Open Scope Z_scope.

(* ------------------------------------------------------------ list helpers *)
Lemma find_app {A} (p : A -> bool) : forall l1 l2,
  find p (l1 ++ l2) = match find p l1 with Some x => Some x | None => find p l2 end.
Proof. induction l1 as [|x r IH]; intro l2; simpl; [reflexivity|]. destruct (p x); auto. Qed.

Lemma find_none_all {A} (p : A -> bool) : forall l, (forall x, In x l -> p x = false) -> find p l = None.
Proof.
  induction l as [|x r IH]; intro H; simpl; [reflexivity|].
  rewrite (H x (or_introl eq_refl)). apply IH. intros y Hy. apply H. right. exact Hy.
Qed.

Lemma filter_map_comm {A B} (p : B -> bool) (f : A -> B) : forall l,
  filter p (map f l) = map f (filter (fun x => p (f x)) l).
Proof. induction l as [|x r IH]; simpl; [reflexivity|]. destruct (p (f x)); simpl; rewrite IH; reflexivity. Qed.

Lemma flat_map_ext_in {A B} (f g : A -> list B) : forall l,
  (forall x, In x l -> f x = g x) -> flat_map f l = flat_map g l.
Proof.
  induction l as [|x r IH]; intro H; simpl; [reflexivity|].
  rewrite (H x (or_introl eq_refl)), IH; [reflexivity|]. intros y Hy. apply H. right. exact Hy.
Qed.

Lemma Forall2_map_eq {A B C} (f : A -> C) (g : B -> C) : forall l1 l2,
  Forall2 (fun x y => f x = g y) l1 l2 -> map f l1 = map g l2.
Proof. intros l1 l2 H. induction H; simpl; congruence. Qed.

Lemma Forall2_nth {A B} (P : A -> B -> Prop) : forall l1 l2 j d1 d2,
  Forall2 P l1 l2 -> (j < length l1)%nat -> P (nth j l1 d1) (nth j l2 d2).
Proof.
  intros l1 l2 j d1 d2 H. revert j. induction H; intros j Hj; simpl in *; [lia|].
  destruct j; [assumption|]. apply IHForall2. lia.
Qed.

Lemma Forall2_length' {A B} (P : A -> B -> Prop) : forall l1 l2, Forall2 P l1 l2 -> length l1 = length l2.
Proof. intros l1 l2 H. induction H; simpl; congruence. Qed.

Lemma Forall2_NoDup {A B} (P : A -> B -> Prop) : forall l vs,
  Forall2 P l vs -> (forall x y v, P x v -> P y v -> x = y) -> NoDup l -> NoDup vs.
Proof.
  intros l vs H Inj. induction H; intro N; [constructor|].
  inversion N as [|? ? N1 N2]; subst. constructor; [|auto].
  intro Hin. apply N1. clear - H H0 Hin Inj.
  induction H0; simpl in *; [tauto|]. destruct Hin as [<-|Hin].
  - left. symmetry. eapply Inj; eauto.
  - right. auto.
Qed.

Lemma NoDup_app_snoc {A} : forall (l : list A) x, NoDup l -> ~ In x l -> NoDup (l ++ [x]).
Proof.
  induction l as [|y r IH]; intros x N Hx; simpl.
  - constructor; [tauto|constructor].
  - inversion N; subst. constructor.
    + intro Hc. apply in_app_or in Hc as [Hc|[<-|[]]]; [tauto|]. apply Hx. left. reflexivity.
    + apply IH; auto. intro Hc. apply Hx. right. exact Hc.
Qed.

(* ================================================================ Part 1 *)
(* the registry of one data variable as a list of keys *)
Fixpoint set_k (k : key) (l : list key) : list key :=
  match l with
  | [] => [k]
  | k' :: r => if key_eqb k k' then k :: r else k' :: set_k k r
  end.

Definition tag (i : nat) (ks : list key) : list (key * nat) := map (fun k => (k, i)) ks.

Lemma set_key_tag : forall k i ks, set_key k i (tag i ks) = tag i (set_k k ks).
Proof.
  intros k i. induction ks as [|k' r IH]; simpl; [reflexivity|].
  destruct (key_eqb k k'); simpl; [reflexivity|]. f_equal. exact IH.
Qed.

Definition reg_keys (ff : ffield) : list key :=
  fold_left (fun acc x => set_k (fst (fst x)) acc) (ff_vcr ff) [].

Lemma fold_set_key_tag : forall i (l : list (key * Z * list Z)) ks,
  fold_left (fun acc x => set_key (fst (fst x)) i acc) l (tag i ks) =
  tag i (fold_left (fun acc x => set_k (fst (fst x)) acc) l ks).
Proof. intros i. induction l as [|x r IH]; intro ks; simpl; [reflexivity|]. rewrite set_key_tag. apply IH. Qed.

(* events and results of one grid_mapping element, by key only *)
Definition gm_evs (g : Z * option Z * option (list (key * Z))) (ks : list key) : list (key * option Z) :=
  let '(cc, d, co) := g in
  match co with
  | None => map (fun k => (k, d)) ks
  | Some l => map (fun k => (k, d)) (filter (fun k => existsb (fun c => key_eqb (fst c) k) l) ks)
  end.

Definition gm_out (g : Z * option Z * option (list (key * Z))) (ks : list key) : list rgm :=
  let '(cc, d, co) := g in
  match co with
  | None => [(cc, d, [])]
  | Some l =>
      let hit := filter (fun k => existsb (fun c => key_eqb (fst c) k) l) ks in
      let l' := filter (fun c => negb (existsb (fun k => key_eqb (fst c) k) ks)) l in
      match hit, l' with
      | _ :: _, [] => []
      | _, _ => [(cc, d, map snd l')]
      end
  end.

Definition idx (i : nat) (e : key * option Z) : nat * key * option Z := (i, fst e, snd e).

Lemma existsb_tag : forall (c : key * Z) i ks,
  existsb (fun x : key * nat => key_eqb (fst c) (fst x)) (tag i ks) = existsb (fun k => key_eqb (fst c) k) ks.
Proof. intros c i. induction ks as [|k r IH]; simpl; [reflexivity|]. rewrite IH. reflexivity. Qed.

Lemma read_gm_norm : forall g i ks d,
  read_gm g (mkR (tag i ks) d) = (mkR (tag i ks) (map (idx i) (gm_evs g ks) ++ d), gm_out g ks).
Proof.
  intros [[cc dd] [l|]] i ks d; unfold read_gm, gm_evs, gm_out; cbv iota beta; cbn [vcrs dat].
  - assert (H1 : filter (fun x : key * nat => existsb (fun c : key * Z => key_eqb (fst c) (fst x)) l) (tag i ks) =
                 tag i (filter (fun k => existsb (fun c : key * Z => key_eqb (fst c) k) l) ks)).
    { unfold tag. rewrite filter_map_comm. reflexivity. }
    assert (E : filter (fun c : key * Z => negb (existsb (fun x : key * nat => key_eqb (fst c) (fst x)) (tag i ks))) l =
                filter (fun c : key * Z => negb (existsb (fun k => key_eqb (fst c) k) ks)) l).
    { apply filter_ext. intro c. rewrite existsb_tag. reflexivity. }
    rewrite H1, E.
    set (hit := filter (fun k => existsb (fun c : key * Z => key_eqb (fst c) k) l) ks).
    set (l' := filter (fun c : key * Z => negb (existsb (fun k => key_eqb (fst c) k) ks)) l).
    f_equal.
    + f_equal. f_equal. unfold tag. rewrite !map_map. reflexivity.
    + destruct hit; reflexivity.
  - f_equal. f_equal. f_equal. unfold tag. rewrite !map_map. reflexivity.
Qed.

Fixpoint gms_evs (l : list (Z * option Z * option (list (key * Z)))) (ks : list key) : list (key * option Z) :=
  match l with
  | [] => []
  | g :: r => gms_evs r ks ++ gm_evs g ks
  end.

Fixpoint gms_out (l : list (Z * option Z * option (list (key * Z)))) (ks : list key) : list rgm :=
  match l with
  | [] => []
  | g :: r => gm_out g ks ++ gms_out r ks
  end.

Lemma read_gms_norm : forall l i ks d,
  read_gms l (mkR (tag i ks) d) = (mkR (tag i ks) (map (idx i) (gms_evs l ks) ++ d), gms_out l ks).
Proof.
  induction l as [|g r IH]; intros i ks d; simpl; [reflexivity|].
  rewrite read_gm_norm, IH. rewrite map_app, <- app_assoc. reflexivity.
Qed.

Definition evs (ff : ffield) : list (key * option Z) := gms_evs (ff_gms ff) (reg_keys ff).
Definition rf0 (ff : ffield) : rfield0 := mkRF0 (ff_cons ff) (ff_vcr ff) (gms_out (ff_gms ff) (reg_keys ff)).

Lemma read_field_norm : forall i ff s,
  read_field true i ff s = (mkR (tag i (reg_keys ff)) (map (idx i) (evs ff) ++ dat s), rf0 ff).
Proof.
  intros i ff s. unfold read_field. simpl.
  change (@nil (key * nat)) with (tag i []). rewrite fold_set_key_tag.
  fold (reg_keys ff). rewrite read_gms_norm. reflexivity.
Qed.

Fixpoint all_evs (i : nat) (l : list ffield) : list (nat * key * option Z) :=
  match l with
  | [] => []
  | ff :: r => all_evs (S i) r ++ map (idx i) (evs ff)
  end.

Lemma read_fields_norm : forall l i s,
  exists r, read_fields true i l s = (mkR r (all_evs i l ++ dat s), map rf0 l).
Proof.
  induction l as [|ff rest IH]; intros i s; simpl.
  - exists (vcrs s). destruct s; reflexivity.
  - rewrite read_field_norm.
    destruct (IH (S i) (mkR (tag i (reg_keys ff)) (map (idx i) (evs ff) ++ dat s))) as [r E].
    rewrite E. simpl. exists r. rewrite <- app_assoc. reflexivity.
Qed.

Lemma all_evs_ge : forall l i x, In x (all_evs i l) -> (i <= fst (fst x))%nat.
Proof.
  induction l as [|ff r IH]; intros i x H; simpl in H; [tauto|].
  apply in_app_or in H as [H|H].
  - apply IH in H. lia.
  - apply in_map_iff in H as (e & <- & _). simpl. lia.
Qed.

Definition dpred (i : nat) (k : key) (x : nat * key * option Z) : bool :=
  Nat.eqb (fst (fst x)) i && key_eqb (snd (fst x)) k.

Lemma find_idx : forall E i k,
  match find (dpred i k) (map (idx i) E) with Some x => snd x | None => None end =
  match find (dpred 0 k) (map (idx 0) E) with Some x => snd x | None => None end.
Proof.
  induction E as [|e r IH]; intros i k; simpl; [reflexivity|].
  unfold dpred at 1 3. simpl. rewrite Nat.eqb_refl. simpl.
  destruct (key_eqb (fst e) k); simpl; [reflexivity|]. apply IH.
Qed.

Lemma final_datum_block : forall r r' pre post E i k,
  (forall x, In x pre -> fst (fst x) <> i) -> (forall x, In x post -> fst (fst x) <> i) ->
  final_datum (mkR r (pre ++ map (idx i) E ++ post)) i k = final_datum (mkR r' (map (idx 0) E ++ [])) 0%nat k.
Proof.
  intros r r' pre post E i k Hpre Hpost. unfold final_datum. simpl.
  fold (dpred i k). fold (dpred 0 k).
  rewrite !find_app.
  rewrite (find_none_all (dpred i k) pre).
  2:{ intros x Hx. unfold dpred. apply Hpre in Hx. apply Nat.eqb_neq in Hx. rewrite Hx. reflexivity. }
  rewrite (find_none_all (dpred i k) post).
  2:{ intros x Hx. unfold dpred. apply Hpost in Hx. apply Nat.eqb_neq in Hx. rewrite Hx. reflexivity. }
  simpl.
  pose proof (find_idx E i k) as F.
  destruct (find (dpred i k) (map (idx i) E)); destruct (find (dpred 0 k) (map (idx 0) E)); exact F.
Qed.

Lemma read1_norm : forall ff,
  read1 ff = finish (mkR (tag 0 (reg_keys ff)) (map (idx 0) (evs ff) ++ [])) 0 (rf0 ff).
Proof. intro ff. unfold read1. rewrite read_field_norm. reflexivity. Qed.

Lemma finish_all_blocks : forall l i post r,
  (forall x, In x post -> (fst (fst x) < i)%nat) ->
  finish_all (mkR r (all_evs i l ++ post)) i (map rf0 l) = map read1 l.
Proof.
  induction l as [|ff rest IH]; intros i post r Hpost; simpl; [reflexivity|].
  f_equal.
  - rewrite read1_norm. unfold finish. f_equal. apply map_ext. intro v. f_equal. f_equal.
    rewrite <- app_assoc. apply final_datum_block.
    + intros x Hx. apply all_evs_ge in Hx. lia.
    + intros x Hx. apply Hpost in Hx. lia.
  - rewrite <- app_assoc. apply IH. intros x Hx. apply in_app_or in Hx as [Hx|Hx].
    + apply in_map_iff in Hx as (e & <- & _). simpl. lia.
    + apply Hpost in Hx. lia.
Qed.

(* The repaired reader treats every data variable of a file on its own. *)
Lemma read_views_map : forall l, read_views true l = map read1 l.
Proof.
  intro l. unfold read_views. destruct (read_fields_norm l 0 (mkR [] [])) as [r E]. rewrite E. simpl.
  apply finish_all_blocks. intros x [].
Qed.

Lemma read_views_single : forall ff, read_views true [ff] = [read1 ff].
Proof. intro ff. apply read_views_map. Qed.

Lemma reader_whole_file : forall l, read_views true l = flat_map (fun ff => read_views true [ff]) l.
Proof.
  intro l. rewrite read_views_map. induction l as [|ff r IH]; simpl; [reflexivity|].
  rewrite read_views_single. simpl. rewrite IH. reflexivity.
Qed.

(* ================================================================ Part 2 *)
(* vt-level facts: a grid mapping variable has no dimensions; a coordinate
   variable (type dimension coordinate, one-dimensional) spans the dimension
   named after it *)
Definition vok (v : nat) (ve : ventry) : Prop :=
  (ck (ve_c ve) = KGm -> ve_nd ve = [] /\ length (cshape (ve_c ve)) = 1%nat) /\
  (ck (ve_c ve) = KDim -> length (cshape (ve_c ve)) = 1%nat -> ve_nd ve = [DCoord v]).

Definition WV (vtab : list ventry) : Prop := forall v ve, nth_error vtab v = Some ve -> vok v ve.

Lemma WV_snoc : forall vtab x, WV vtab -> vok (length vtab) x -> WV (vtab ++ [x]).
Proof.
  intros vtab x H Hx v ve N. destruct (Nat.lt_ge_cases v (length vtab)) as [L|L].
  - rewrite nth_error_app1 in N by exact L. apply H; exact N.
  - rewrite nth_error_app2 in N by exact L. destruct (v - length vtab)%nat eqn:D.
    + simpl in N. inversion N; subst. assert (E : v = length vtab) by lia. subst v. exact Hx.
    + simpl in N. destruct n; discriminate.
Qed.

(* the bounds table: every variable's bounds entry is the bounds of its content *)
Record WB (st : wst) : Prop := mkWB {
  wb_dom : forall p, In p (bnds st) -> (fst p < length (vt st))%nat /\ (snd p < length (vt st))%nat;
  wb_bnd : forall v ve, nth_error (vt st) v = Some ve -> ck (ve_c ve) <> KGm ->
                        vbnd st v = btok (cbt (ve_c ve))
}.

Definition W (st : wst) : Prop := WV (vt st) /\ WB st.

Lemma vtok_grow : forall st st' l v, vt st' = vt st ++ l -> (v < length (vt st))%nat -> vtok st' v = vtok st v.
Proof. intros st st' l v E L. unfold vtok. rewrite E, nth_error_app1 by exact L. reflexivity. Qed.

Lemma vbnd_grow : forall st st' l m v,
  vt st' = vt st ++ l -> bnds st' = bnds st ++ m ->
  (forall p, In p (bnds st) -> (snd p < length (vt st))%nat) ->
  (forall p, In p m -> fst p <> v) -> vbnd st' v = vbnd st v.
Proof.
  intros st st' l m v E B D M. unfold vbnd. rewrite B, find_app.
  destruct (find (fun p => Nat.eqb (fst p) v) (bnds st)) as [p|] eqn:F.
  - apply find_some in F as [Hin _]. apply (vtok_grow st st' l); auto.
  - rewrite find_none_all; [reflexivity|]. intros p Hp. apply Nat.eqb_neq. auto.
Qed.

Lemma vbnd_last : forall st b0 v bv,
  bnds st = b0 ++ [(v, bv)] -> (forall p, In p b0 -> fst p <> v) -> vbnd st v = vtok st bv.
Proof.
  intros st b0 v bv B D. unfold vbnd. rewrite B, find_app, find_none_all.
  - simpl. rewrite Nat.eqb_refl. reflexivity.
  - intros p Hp. apply Nat.eqb_neq. auto.
Qed.

Lemma WB_step : forall st st' l m,
  WB st -> vt st' = vt st ++ l -> bnds st' = bnds st ++ m ->
  (forall p, In p m -> (length (vt st) <= fst p)%nat /\ (fst p < length (vt st'))%nat /\ (snd p < length (vt st'))%nat) ->
  (forall v ve, (length (vt st) <= v)%nat -> nth_error (vt st') v = Some ve -> ck (ve_c ve) <> KGm ->
                vbnd st' v = btok (cbt (ve_c ve))) ->
  WB st'.
Proof.
  intros st st' l m [D Bn] E B M N. constructor.
  - intros p Hp. rewrite B in Hp. apply in_app_or in Hp as [Hp|Hp].
    + destruct (D p Hp). rewrite E, app_length. lia.
    + destruct (M p Hp) as (_ & ? & ?). auto.
  - intros v ve Hn Hk. destruct (Nat.lt_ge_cases v (length (vt st))) as [L|L].
    + rewrite (vbnd_grow st st' l m v E B).
      * apply Bn; auto. rewrite E, nth_error_app1 in Hn by exact L. exact Hn.
      * intros p Hp. apply D. exact Hp.
      * intros p Hp. destruct (M p Hp). lia.
    + apply N; auto.
Qed.

Lemma W_same : forall st st', vt st' = vt st -> bnds st' = bnds st -> W st -> W st'.
Proof.
  intros st st' E B [HV HB]. split; [rewrite E; exact HV|].
  apply (WB_step st st' [] []); auto.
  - rewrite app_nil_r. exact E.
  - rewrite app_nil_r. exact B.
  - intros p [].
  - intros v ve L Hn. rewrite E in Hn. assert (v < length (vt st))%nat by (apply nth_error_Some; congruence). lia.
Qed.

Lemma nth_error_ge_snoc {A} : forall (l : list A) x v y,
  (length l <= v)%nat -> nth_error (l ++ [x]) v = Some y -> v = length l /\ y = x.
Proof.
  intros l x v y L N. rewrite nth_error_app2 in N by exact L.
  destruct (v - length l)%nat eqn:D; simpl in N.
  - inversion N. split; [lia|reflexivity].
  - destruct n; discriminate.
Qed.

Lemma nth_error_ge_snoc2 {A} : forall (l : list A) x1 x2 v y,
  (length l <= v)%nat -> nth_error (l ++ [x1; x2]) v = Some y ->
  (v = length l /\ y = x1) \/ (v = S (length l) /\ y = x2).
Proof.
  intros l x1 x2 v y L N. rewrite nth_error_app2 in N by exact L.
  destruct (v - length l)%nat as [|[|n]] eqn:D; simpl in N.
  - inversion N. left. split; [lia|reflexivity].
  - inversion N. right. split; [lia|reflexivity].
  - destruct n; discriminate.
Qed.

Lemma lookup_tok : forall ign c q st e,
  Inv st -> lookup ign c q (seen st) = Some e ->
  (se_v e < length (vt st))%nat /\ vtok st (se_v e) = ctok c.
Proof.
  intros ign c q st e HI L. apply lookup_some in L as (Hin & Heq & _).
  apply eq_comp_content in Heq. apply eq_content_iff in Heq as (T & _).
  unfold Inv in HI. rewrite Forall_forall in HI. destruct (HI e Hin) as (ve & N & C & _).
  apply eq_content_iff in C as (T2 & _). split.
  - apply nth_error_Some. congruence.
  - unfold vtok. rewrite N. congruence.
Qed.

Lemma W_new_plain : forall c nd st,
  W st -> vok (length (vt st)) (mkV c nd) -> (ck c = KGm \/ cbt c = None) -> W (fst (new_var c nd st)).
Proof.
  intros c nd st [HV HB] Hok Hc. unfold new_var; simpl. split; simpl.
  - apply WV_snoc; auto.
  - apply (WB_step st _ [mkV c nd] []); simpl; auto.
    + rewrite app_nil_r; reflexivity.
    + intros p [].
    + intros v ve L Hn Hk. destruct (nth_error_ge_snoc _ _ _ _ L Hn) as [-> ->]. simpl in *.
      destruct Hc as [Hc|Hc]; [contradiction|]. rewrite Hc. simpl.
      unfold vbnd. simpl. rewrite find_none_all; [reflexivity|].
      intros p Hp. apply Nat.eqb_neq. destruct HB as [D _]. destruct (D p Hp). lia.
Qed.

Lemma vok_bnd : forall v c b nd, vok v (mkV (bcomp c b) nd).
Proof. intros. split; simpl; intros; discriminate. Qed.

(* a new variable together with its bounds *)
Lemma W_create : forall c nd st,
  Inv st -> W st -> vok (length (vt st)) (mkV c nd) -> ck c <> KGm ->
  W (write_bounds (length (vt st)) c nd (fst (new_var c nd st))).
Proof.
  intros c nd st HI HW Hok Hk.
  destruct (new_var c nd st) as [st1 v1] eqn:NV.
  destruct (inv_new_var _ _ _ _ _ HI NV) as (I1 & _).
  assert (E1 : vt st1 = vt st ++ [mkV c nd]) by (unfold new_var in NV; inversion NV; reflexivity).
  assert (B1 : bnds st1 = bnds st) by (unfold new_var in NV; inversion NV; reflexivity).
  simpl. unfold write_bounds. destruct (cbt c) as [b|] eqn:Cb.
  2:{ pose proof (W_new_plain c nd st HW Hok (or_intror Cb)) as H. rewrite NV in H. exact H. }
  destruct HW as [HV [D Bn]].
  assert (Dn : forall p, In p (bnds st) -> fst p <> length (vt st)).
  { intros p Hp. destruct (D p Hp). lia. }
  destruct (lookup false (bcomp c b) (Some (nd ++ [DBnd 2])) (seen st1)) as [e|] eqn:L.
  - destruct (lookup_tok _ _ _ _ _ I1 L) as [Lt Tk]. simpl in Tk.
    split; simpl.
    + rewrite E1. apply WV_snoc; auto.
    + apply (WB_step st _ [mkV c nd] [(length (vt st), se_v e)]); simpl; auto.
      * constructor; auto.
      * rewrite B1. reflexivity.
      * intros p [<-|[]]. simpl. rewrite E1 in *. rewrite app_length in *. simpl in *. lia.
      * intros v ve Lv Hn Hkk. rewrite E1 in Hn.
        destruct (nth_error_ge_snoc _ _ _ _ Lv Hn) as [-> ->]. simpl. rewrite Cb. simpl.
        erewrite vbnd_last; [|simpl; rewrite B1; reflexivity|exact Dn].
        unfold vtok in *. simpl. exact Tk.
  - destruct (new_var (bcomp c b) (nd ++ [DBnd 2]) st1) as [st2 bv] eqn:NB.
    assert (E2 : vt st2 = vt st ++ [mkV c nd; mkV (bcomp c b) (nd ++ [DBnd 2])]).
    { unfold new_var in NB; inversion NB; simpl. rewrite E1, <- app_assoc. reflexivity. }
    assert (B2 : bnds st2 = bnds st) by (unfold new_var in NB; inversion NB; simpl; exact B1).
    assert (Ebv : bv = S (length (vt st))).
    { unfold new_var in NB; inversion NB. rewrite E1, app_length. simpl. lia. }
    split; simpl.
    + rewrite E2. change [mkV c nd; mkV (bcomp c b) (nd ++ [DBnd 2])] with ([mkV c nd] ++ [mkV (bcomp c b) (nd ++ [DBnd 2])]).
      rewrite app_assoc. apply WV_snoc; [apply WV_snoc; auto|apply vok_bnd].
    + apply (WB_step st _ [mkV c nd; mkV (bcomp c b) (nd ++ [DBnd 2])] [(length (vt st), bv)]); simpl; auto.
      * constructor; auto.
      * rewrite B2. reflexivity.
      * intros p [<-|[]]. simpl. rewrite E2, app_length. simpl. lia.
      * intros v ve Lv Hn Hkk. rewrite E2 in Hn.
        destruct (nth_error_ge_snoc2 _ _ _ _ _ Lv Hn) as [[-> ->]|[-> ->]]; simpl.
        -- rewrite Cb. simpl. erewrite vbnd_last; [|simpl; rewrite B2; reflexivity|exact Dn].
           unfold vtok. simpl. rewrite E2, Ebv.
           rewrite nth_error_app2 by lia. replace (S (length (vt st)) - length (vt st))%nat with 1%nat by lia.
           reflexivity.
        -- unfold vbnd. simpl. rewrite B2, find_app, find_none_all.
           ++ simpl. replace (Nat.eqb (length (vt st)) (S (length (vt st)))) with false; [reflexivity|].
              symmetry. apply Nat.eqb_neq. lia.
           ++ intros p Hp. apply Nat.eqb_neq. destruct (D p Hp). lia.
Qed.

(* ------------------------------------------------ W through the operations *)
Definition gen_ok (c : comp) : Prop := ck c <> KGm /\ (ck c = KDim -> length (cshape c) <> 1%nat).

Lemma gen_ok_vok : forall c nd v, gen_ok c -> vok v (mkV c nd).
Proof. intros c nd v [G D]. split; simpl; intros; [contradiction|]. exfalso. apply D; auto. Qed.

Lemma W_add_seen : forall e st, W st -> W (add_seen e st).
Proof. intros e st H. apply (W_same st); auto. Qed.

Lemma W_write_generic : forall ign c nd st st' v,
  Inv st -> W st -> gen_ok c -> write_generic ign c nd st = (st', v) -> W st'.
Proof.
  intros ign c nd st st' v HI HW G H. unfold write_generic in H.
  destruct (lookup ign c (Some nd) (seen st)) as [e|] eqn:L.
  - inversion H; subst. apply W_add_seen. exact HW.
  - pose proof (W_create c nd st HI HW (gen_ok_vok c nd _ G) (proj1 G)) as HC.
    destruct (new_var c nd st) as [st1 v1] eqn:N. inversion H; subst; clear H.
    assert (v = length (vt st)) by (unfold new_var in N; inversion N; reflexivity). subst v.
    exact HC.
Qed.

Lemma W_create_dimcoord : forall c st st' v d,
  Inv st -> W st -> ck c = KDim -> create_dimcoord c st = (st', v, d) -> W st'.
Proof.
  intros c st st' v d HI HW K H. unfold create_dimcoord in H.
  assert (Hok : vok (length (vt st)) (mkV c [DCoord (length (vt st))])).
  { split; simpl; intros; [congruence|reflexivity]. }
  pose proof (W_create c [DCoord (length (vt st))] st HI HW Hok ltac:(congruence)) as HC.
  destruct (new_var c [DCoord (length (vt st))] st) as [st1 v1] eqn:N. inversion H; subst; clear H.
  exact HC.
Qed.

Lemma W_write_dimcoord : forall fx c used st st' v d,
  Inv st -> W st -> ck c = KDim -> write_dimcoord fx c used st = (st', v, d) -> W st'.
Proof.
  intros fx c used st st' v d HI HW K H. unfold write_dimcoord in H.
  destruct (lookup false c None (seen st)) as [e|] eqn:L; [|eapply W_create_dimcoord; eauto].
  destruct (fx && dim_used (hd (DFree 0) (se_nd e)) used); [eapply W_create_dimcoord; eauto|].
  inversion H; subst. apply W_add_seen. exact HW.
Qed.

Lemma W_write_list : forall ign k f dims l st st' vs,
  Inv st -> W st -> (ign = true -> k = KAnc) -> k <> KGm -> k <> KDim ->
  write_list ign k f dims l st = (st', vs) -> W st'.
Proof.
  intros ign k f dims l. induction l as [|it r IH]; intros st st' vs HI HW Hk G D H; simpl in H.
  - inversion H; subst. exact HW.
  - destruct (write_generic ign (comp_of k f it) (nd_of dims it) st) as [st1 v] eqn:GG.
    destruct (write_list ign k f dims r st1) as [st2 vs'] eqn:WL. inversion H; subst; clear H.
    destruct (inv_write_generic ign (comp_of k f it) (nd_of dims it) st st1 v HI (fun e => Hk e) GG) as (H1 & _).
    assert (W1 : W st1).
    { apply (W_write_generic ign (comp_of k f it) (nd_of dims it) st st1 v HI HW); [|exact GG].
      split; simpl; [exact G|]. intro. contradiction. }
    eapply IH; eauto.
Qed.

Lemma W_write_scalars : forall l st st' vs,
  Inv st -> W st -> write_scalars l st = (st', vs) -> W st'.
Proof.
  induction l as [|it r IH]; intros st st' vs HI HW H; simpl in H.
  - inversion H; subst. exact HW.
  - destruct (write_generic false (mkC KDim (i_tok it) [] (i_bt it)) [] st) as [st1 v] eqn:GG.
    destruct (write_scalars r st1) as [st2 vs'] eqn:WL. inversion H; subst; clear H.
    destruct (inv_write_generic _ _ _ _ _ _ HI (nok _) GG) as (H1 & _).
    assert (W1 : W st1).
    { apply (W_write_generic false (mkC KDim (i_tok it) [] (i_bt it)) [] st st1 v HI HW); [|exact GG].
      split; simpl; [discriminate|]. intros _. discriminate. }
    eapply IH; eauto.
Qed.

Lemma W_write_gms : forall m dv av l st st' xs,
  Inv st -> W st -> write_gms m dv av l st = (st', xs) -> W st'.
Proof.
  intros m dv av. induction l as [|g r IH]; intros st st' xs HI HW H; simpl in H.
  - inversion H; subst. exact HW.
  - destruct (write_gm m dv av g st) as [st1 x] eqn:G.
    destruct (write_gms m dv av r st1) as [st2 xs'] eqn:WL. inversion H; subst; clear H.
    assert (A : Inv st1 /\ W st1).
    { pose proof (inv_write_gms m dv av [g] st st1 [x] HI) as P. simpl in P. rewrite G in P.
      destruct (P eq_refl) as (I1 & _). split; [exact I1|].
      unfold write_gm in G. fold (gmcomp g) in G.
      destruct (lookup false (gmcomp g) None (seen st)) as [e|] eqn:L.
      - inversion G; subst. apply W_add_seen. exact HW.
      - pose proof (W_new_plain (gmcomp g) [] st HW) as HC.
        destruct (new_var (gmcomp g) [] st) as [st1' v] eqn:N. inversion G; subst; clear G.
        apply HC; [|left; reflexivity]. split; simpl; intros; [split; reflexivity|discriminate]. }
    destruct A as [I1 W1]. eapply IH; eauto.
Qed.

Lemma W_write_ft : forall f dv ancv st, W st -> W (write_ft f dv ancv st).
Proof.
  intros f dv ancv st HW. unfold write_ft. destruct (ft f) as [fr|]; [|exact HW].
  destruct (nth (f_z fr) dv None); [|exact HW]. destruct (f_terms fr); [exact HW|].
  apply (W_same st); auto.
Qed.

(* dimensions without coordinate variable *)
Definition frees (l : list dimid) : list nat :=
  flat_map (fun d => match d with DFree n => [n] | _ => [] end) l.

Definition FreeInv (st : wst) : Prop := forall e, In e (fdims st) -> (fd_d e < nfree st)%nat.

Lemma frees_app : forall a b, frees (a ++ b) = frees a ++ frees b.
Proof. intros. unfold frees. apply flat_map_app. Qed.

Lemma holds_dim_nd : forall vtab v c nd,
  WV vtab -> holds vtab v c nd -> ck c = KDim -> length (cshape c) = 1%nat -> nd = [DCoord v].
Proof.
  intros vtab v c nd HV (ve & N & C & D & K) Kd Ls.
  apply eq_content_iff in C as (_ & S & _).
  destruct K as [K|K]; [|congruence].
  destruct (HV v ve N) as [_ Hd]. rewrite <- D. apply Hd; congruence.
Qed.

Lemma write_axes2 : forall f dcs a st used dv loc st' used' dv' loc',
  Inv st -> W st -> FreeInv st ->
  (forall n, In n (frees used) -> (n < nfree st)%nat) -> NoDup (frees used) ->
  (forall e, In e loc -> (fd_d e < nfree st)%nat) ->
  write_axes true f dcs a st used dv loc = (st', used', dv', loc') ->
  W st' /\ FreeInv st' /\ (nfree st <= nfree st')%nat /\
  (forall n, In n (frees used') -> (n < nfree st')%nat) /\ NoDup (frees used') /\
  (forall e, In e loc' -> (fd_d e < nfree st')%nat).
Proof.
  intros f dcs. induction dcs as [|oc r IH]; intros a st used dv loc st' used' dv' loc' HI HW HF HU HN HL H; simpl in H.
  - inversion H; subst. splits; auto.
  - destruct oc as [it|].
    + destruct (write_dimcoord true (dimcomp f a it) used st) as [[st1 v] d] eqn:WD.
      destruct (inv_write_dimcoord _ _ _ _ _ _ _ HI WD) as (I1 & _ & (nd & Hh & Hd) & _ & FD & NF).
      assert (W1 : W st1) by (exact (W_write_dimcoord true (dimcomp f a it) used st st1 v d HI HW eq_refl WD)).
      assert (Hd' : d = DCoord v).
      { rewrite (holds_dim_nd _ _ _ _ (proj1 W1) Hh eq_refl eq_refl) in Hd. exact Hd. }
      assert (FE : frees (used ++ [d]) = frees used) by (rewrite frees_app, Hd'; simpl; apply app_nil_r).
      assert (F1 : FreeInv st1) by (unfold FreeInv; rewrite FD, NF; exact HF).
      assert (U1 : forall n, In n (frees (used ++ [d])) -> (n < nfree st1)%nat) by (rewrite FE, NF; exact HU).
      assert (N1 : NoDup (frees (used ++ [d]))) by (rewrite FE; exact HN).
      assert (L1 : forall e, In e loc -> (fd_d e < nfree st1)%nat) by (rewrite NF; exact HL).
      destruct (IH _ _ _ _ _ _ _ _ _ I1 W1 F1 U1 N1 L1 H) as (A & B & C & D & E & G).
      splits; auto. lia.
    + destruct (match spanning f a with
                | [] => None
                | _ :: _ => reuse_free true (size_of f a) (spanning f a) used (fdims st)
                end) as [d|] eqn:R.
      * assert (Hd : (d < nfree st)%nat /\ ~ In d (frees used)).
        { destruct (spanning f a); [discriminate|]. unfold reuse_free in R.
          destruct (find _ (fdims st)) as [e|] eqn:Fd; [|discriminate]. inversion R; subst.
          apply find_some in Fd as [Hin Hp]. split; [apply HF; exact Hin|].
          apply andb_true_iff in Hp as [_ Hp]. simpl in Hp. apply negb_true_iff in Hp.
          intro Hc. unfold frees in Hc. apply in_flat_map in Hc as (x & Hx & Hxd).
          destruct x; simpl in Hxd; try tauto. destruct Hxd as [->|[]].
          unfold dim_used in Hp. assert (existsb (dimid_eqb (DFree (fd_d e))) used = true).
          { apply existsb_exists. exists (DFree (fd_d e)). split; [exact Hx|]. simpl. apply Nat.eqb_refl. }
          congruence. }
        destruct Hd as [Hd1 Hd2].
        assert (FE : frees (used ++ [DFree d]) = frees used ++ [d]) by (rewrite frees_app; reflexivity).
        refine (IH _ _ _ _ _ _ _ _ _ HI HW HF _ _ HL H).
        -- rewrite FE. intros n Hn. apply in_app_or in Hn as [Hn|[<-|[]]]; auto.
        -- rewrite FE. apply NoDup_app_snoc; auto.
      * set (st1 := mkW (seen st) (vt st) (bnds st) (fta st) (fdims st) (S (nfree st))) in H.
        assert (FE : frees (used ++ [DFree (nfree st)]) = frees used ++ [nfree st]) by (rewrite frees_app; reflexivity).
        assert (W1 : W st1) by (apply (W_same st); auto).
        assert (F1 : FreeInv st1) by (intros e He; simpl; specialize (HF e He); lia).
        assert (U1 : forall n, In n (frees (used ++ [DFree (nfree st)])) -> (n < nfree st1)%nat).
        { rewrite FE. intros n Hn. apply in_app_or in Hn as [Hn|[<-|[]]]; simpl; [specialize (HU n Hn)|]; lia. }
        assert (N1 : NoDup (frees (used ++ [DFree (nfree st)]))).
        { rewrite FE. apply NoDup_app_snoc; auto. intro Hc. specialize (HU _ Hc). lia. }
        assert (L1 : forall e, In e (loc ++ [mkD (nfree st) (size_of f a) (spanning f a)]) -> (fd_d e < nfree st1)%nat).
        { intros e He. apply in_app_or in He as [He|[<-|[]]]; simpl; [specialize (HL e He)|]; lia. }
        destruct (IH _ _ _ _ _ _ _ _ _ (HI : Inv st1) W1 F1 U1 N1 L1 H) as (A & B & C & D & E & G).
        splits; auto. simpl in C. lia.
Qed.

Definition free_shape (_ : nat) (oc : option citem) (_ : option nat) (d : dimid) : Prop :=
  oc = None -> exists n, d = DFree n.

Lemma write_axes_shape : forall fx f dcs a st used dv loc st' used' dv' loc',
  write_axes fx f dcs a st used dv loc = (st', used', dv', loc') ->
  exists ud vd, used' = used ++ ud /\ dv' = dv ++ vd /\ Forall3i free_shape a dcs vd ud.
Proof.
  intros fx f dcs. induction dcs as [|oc r IH]; intros a st used dv loc st' used' dv' loc' H; simpl in H.
  - inversion H; subst. exists [], []. rewrite !app_nil_r. simpl. auto.
  - destruct oc as [it|].
    + destruct (write_dimcoord fx (dimcomp f a it) used st) as [[st1 v] d].
      destruct (IH _ _ _ _ _ _ _ _ _ H) as (ud & vd & E1 & E2 & F).
      exists (d :: ud), (Some v :: vd). rewrite E1, E2, <- !app_assoc. simpl. splits; auto.
      intro; discriminate.
    + destruct (match spanning f a with
                | [] => None
                | _ :: _ => reuse_free fx (size_of f a) (spanning f a) used (fdims st)
                end) as [d|].
      * destruct (IH _ _ _ _ _ _ _ _ _ H) as (ud & vd & E1 & E2 & F).
        exists (DFree d :: ud), (None :: vd). rewrite E1, E2, <- !app_assoc. simpl. splits; auto.
        intro. eexists; reflexivity.
      * destruct (IH _ _ _ _ _ _ _ _ _ H) as (ud & vd & E1 & E2 & F).
        exists (DFree (nfree st) :: ud), (None :: vd). rewrite E1, E2, <- !app_assoc. simpl. splits; auto.
        intro. eexists; reflexivity.
Qed.

Lemma write_gms_snd : forall m dv av l st st' xs,
  write_gms m dv av l st = (st', xs) ->
  map snd xs = map (fun g => if m then Some (map (co_var dv av) (g_co g)) else None) l.
Proof.
  intros m dv av. induction l as [|g r IH]; intros st st' xs H; simpl in H.
  - inversion H; reflexivity.
  - destruct (write_gm m dv av g st) as [st1 x] eqn:G.
    destruct (write_gms m dv av r st1) as [st2 xs'] eqn:WL. inversion H; subst; clear H.
    simpl. rewrite (IH _ _ _ WL). f_equal.
    unfold write_gm in G.
    destruct (match lookup false (mkC KGm (g_cc g) [Z.of_nat (length (g_co g))] (g_d g)) None (seen st) with
              | Some e => _ | None => _ end) as [s v]. inversion G; reflexivity.
Qed.

Record field_ok2 (vtab : list ventry) (f : field) (o : fout) : Prop := mkFOK2 {
  f2_ok : field_ok vtab f o;
  f2_free : Forall3i free_shape 0 (dimc f) (o_dim o) (o_dims o);
  f2_nodupfree : NoDup (frees (o_dims o));
  f2_gm : map snd (o_gm o) =
          map (fun g => if Nat.ltb 1 (length (gm_list f)) then Some (map (co_var (o_dim o) (o_aux o)) (g_co g)) else None)
              (gm_list f)
}.

Lemma field_ok2_ext : forall st st' f o, Ext st st' -> field_ok2 (vt st) f o -> field_ok2 (vt st') f o.
Proof. intros st st' f o E [A B C D]. constructor; auto. eapply field_ok_ext; eauto. Qed.

Lemma in_combine_seq {A} : forall (l : list (option A)) s a v,
  nth a l None = Some v -> In ((s + a)%nat, Some v) (combine (seq s (length l)) l).
Proof.
  induction l as [|x r IH]; intros s a v H; simpl in *.
  - destruct a; discriminate.
  - destruct a.
    + left. rewrite Nat.add_0_r. congruence.
    + right. replace (s + S a)%nat with (S s + a)%nat by lia. apply IH. exact H.
Qed.

Lemma In_owner_terms : forall o f a v,
  nth a (o_dim o) None = Some v -> In (v, wantv f (o_anc o) a) (owner_terms o f).
Proof.
  intros o f a v H. unfold owner_terms. apply in_flat_map. exists (a, Some v). split.
  - apply (in_combine_seq (o_dim o) 0 a v H).
  - left. f_equal. unfold wantv, want_idx. destruct (ft f) as [fr|]; [|reflexivity].
    destruct (Nat.eqb (f_z fr) a); [|reflexivity]. destruct (f_terms fr); reflexivity.
Qed.

Lemma write_field2 : forall f st st' o,
  Inv st -> W st -> FreeInv st -> write_field true f st = (st', o) ->
  Inv st' /\ W st' /\ FreeInv st' /\ Ext st st' /\ field_ok2 (vt st') f o /\
  (fta st' = fta st \/ exists owner ts, fta st' = (owner, ts) :: fta st /\ In (owner, Some ts) (owner_terms o f)) /\
  (forall a v ts, nth a (o_dim o) None = Some v -> want_idx f a = Some ts ->
                  In (v, map (fun j => nth j (o_anc o) 0%nat) ts) (fta st')).
Proof.
  intros f st st' o HI HW HF H.
  destruct (inv_write_field _ _ _ _ _ HI H) as (I' & E' & OK').
  unfold write_field in H.
  destruct (write_axes true f (dimc f) 0 st [] [] []) as [[[st1 dims] dv] loc] eqn:A.
  destruct (write_scalars (scal f) st1) as [st2 sv] eqn:S.
  destruct (write_list false KAux f dims (aux f) st2) as [st3 av] eqn:X.
  destruct (write_list true KAnc f dims (anc f) st3) as [st4 ancv] eqn:N.
  destruct (write_list false KMeas f dims (meas f) st4) as [st5 mv] eqn:M.
  destruct (write_gms (Nat.ltb 1 (length (gm_list f))) dv av (gm_list f) (write_ft f dv ancv st5)) as [st7 gv] eqn:G.
  destruct (write_list false KFAnc f dims (fanc f) st7) as [st8 fv] eqn:FA.
  inversion H; subst; clear H.
  destruct (inv_write_axes _ _ _ _ _ _ _ _ _ _ _ _ HI A) as (I1 & _ & T1 & D1 & _).
  assert (U0 : forall n, In n (frees []) -> (n < nfree st)%nat) by (intros n []).
  assert (N0 : NoDup (frees [])) by constructor.
  assert (L0 : forall e : fdentry, In e [] -> (fd_d e < nfree st)%nat) by (intros e []).
  destruct (write_axes2 _ _ _ _ _ _ _ _ _ _ _ HI HW HF U0 N0 L0 A) as (W1 & F1 & NF1 & U1 & ND1 & L1).
  destruct (write_axes_shape _ _ _ _ _ _ _ _ _ _ _ _ A) as (ud & vd & EU & EV & SH). simpl in EU, EV. subst dims dv.
  destruct (inv_write_scalars _ _ _ _ I1 S) as (I2 & _ & _ & T2 & D2 & N2).
  pose proof (W_write_scalars _ _ _ _ I1 W1 S) as W2.
  destruct (inv_write_list _ _ _ _ _ _ _ _ I2 (nokk _) X) as (I3 & _ & _ & T3 & D3 & N3).
  assert (W3 : W st3) by (apply (W_write_list false KAux f (ud) (aux f) st2 st3 av I2 W2 (nokk _)); [discriminate|discriminate|exact X]).
  destruct (inv_write_list _ _ _ _ _ _ _ _ I3 (fun _ => eq_refl) N) as (I4 & _ & _ & T4 & D4 & N4).
  assert (W4 : W st4) by (apply (W_write_list true KAnc f (ud) (anc f) st3 st4 ancv I3 W3 (fun _ => eq_refl)); [discriminate|discriminate|exact N]).
  destruct (inv_write_list _ _ _ _ _ _ _ _ I4 (nokk _) M) as (I5 & _ & _ & T5 & D5 & N5).
  assert (W5 : W st5) by (apply (W_write_list false KMeas f (ud) (meas f) st4 st5 mv I4 W4 (nokk _)); [discriminate|discriminate|exact M]).
  destruct (inv_write_ft f vd ancv st5 I5) as (I6 & _).
  pose proof (W_write_ft f vd ancv st5 W5) as W6.
  destruct (inv_write_gms _ _ _ _ _ _ _ I6 G) as (I7 & _ & _ & T7 & D7 & N7).
  pose proof (W_write_gms _ _ _ _ _ _ _ I6 W6 G) as W7.
  destruct (inv_write_list _ _ _ _ _ _ _ _ I7 (nokk _) FA) as (I8 & _ & _ & T8 & D8 & N8).
  assert (W8 : W st8) by (apply (W_write_list false KFAnc f (ud) (fanc f) st7 st8 fv I7 W7 (nokk _)); [discriminate|discriminate|exact FA]).
  assert (FD6 : fdims (write_ft f vd ancv st5) = fdims st5 /\ nfree (write_ft f vd ancv st5) = nfree st5).
  { unfold write_ft. destruct (ft f) as [fr|]; auto. destruct (nth (f_z fr) vd None); auto. destruct (f_terms fr); auto. }
  destruct FD6 as [D6 N6].
  assert (NFE : nfree st8 = nfree st1) by congruence.
  assert (FDE : fdims st8 = fdims st1) by congruence.
  splits.
  - exact I'.
  - apply (W_same st8); auto.
  - intros e He. simpl in *. apply in_app_or in He as [He|He].
    + rewrite NFE. apply F1. rewrite <- FDE. exact He.
    + rewrite NFE. apply L1. exact He.
  - exact E'.
  - constructor; simpl; auto.
    eapply write_gms_snd; eauto.
  - simpl. rewrite T8, T7. unfold write_ft. destruct (ft f) as [fr|] eqn:Ft; [|left; congruence].
    destruct (nth (f_z fr) vd None) as [owner|] eqn:Ow; [|left; congruence].
    destruct (f_terms fr) as [|t ts] eqn:Tm; [left; congruence|].
    right. exists owner, (map (fun j => nth j ancv 0%nat) (t :: ts)). simpl. split.
    + f_equal. congruence.
    + pose proof (In_owner_terms (mkO ud vd sv av ancv mv fv gv) f (f_z fr) owner Ow) as P.
      unfold wantv, want_idx in P. simpl in P. rewrite Ft, Nat.eqb_refl, Tm in P. exact P.
  - intros a v ts Hn Hw. simpl in *. rewrite T8, T7. unfold want_idx in Hw. unfold write_ft.
    destruct (ft f) as [fr|] eqn:Ft; [|discriminate].
    destruct (Nat.eqb (f_z fr) a) eqn:Ea; [|discriminate]. apply Nat.eqb_eq in Ea. subst a.
    rewrite Hn. destruct (f_terms fr) as [|t tr] eqn:Tm; [discriminate|]. inversion Hw; subst. simpl. left. reflexivity.
Qed.

(* ================================================================ Part 3 *)
Definition allw (os : list fout) (fs : list field) : list (nat * option (list nat)) :=
  concat (map (fun p => owner_terms (fst p) (snd p)) (combine os fs)).

Lemma FreeInv_st0 : FreeInv st0.
Proof. intros e []. Qed.

Lemma W_st0 : W st0.
Proof.
  split.
  - intros v ve N. destruct v; discriminate.
  - constructor.
    + intros p [].
    + intros v ve N. destruct v; discriminate.
Qed.

Definition want_in (st : wst) (f : field) (o : fout) : Prop :=
  forall a v ts, nth a (o_dim o) None = Some v -> want_idx f a = Some ts ->
                 In (v, map (fun j => nth j (o_anc o) 0%nat) ts) (fta st).

Lemma write_fields2 : forall fs st st' os,
  Inv st -> W st -> FreeInv st -> write_fields true fs st = (st', os) ->
  Inv st' /\ W st' /\ FreeInv st' /\ Ext st st' /\ Forall2 (field_ok2 (vt st')) fs os /\
  (forall p, In p (fta st') -> In p (fta st) \/ In (fst p, Some (snd p)) (allw os fs)) /\
  (forall p, In p (fta st) -> In p (fta st')) /\
  Forall2 (want_in st') fs os.
Proof.
  induction fs as [|f r IH]; intros st st' os HI HW HF H; simpl in H.
  - inversion H; subst. splits; auto. apply Ext_refl.
  - destruct (write_field true f st) as [st1 o] eqn:WF.
    destruct (write_fields true r st1) as [st2 os'] eqn:WR. inversion H; subst; clear H.
    destruct (write_field2 _ _ _ _ HI HW HF WF) as (I1 & W1 & F1 & E1 & OK1 & FT1 & WI1).
    destruct (IH _ _ _ I1 W1 F1 WR) as (I2 & W2 & F2 & E2 & OK2 & FT2 & MO2 & WI2).
    assert (MO1 : forall p, In p (fta st) -> In p (fta st1)).
    { intros p Hp. destruct FT1 as [->|(ow & ts & -> & _)]; [exact Hp|right; exact Hp]. }
    splits; auto.
    + eapply Ext_trans; eauto.
    + constructor; [|exact OK2]. eapply field_ok2_ext; eauto.
    + intros p Hp. unfold allw. simpl. fold (allw os' r).
      destruct (FT2 p Hp) as [Hp1|Hp1].
      * destruct FT1 as [E|(ow & ts & E & Hin)]; rewrite E in Hp1.
        -- left. exact Hp1.
        -- destruct Hp1 as [<-|Hp1]; [|left; exact Hp1]. right. apply in_or_app. left. exact Hin.
      * right. apply in_or_app. right. exact Hp1.
    + constructor; [|exact WI2]. intros a v ts Hn Hw. apply MO2. eapply WI1; eauto.
Qed.

Lemma optl_eqb_eq : forall a b : option (list nat), option_eqb (list_eqb Nat.eqb) a b = true -> a = b.
Proof.
  intros [x|] [y|]; simpl; intro H; try discriminate; try reflexivity.
  f_equal. apply (list_eqb_eq Nat.eqb Nat.eqb_eq). exact H.
Qed.

Lemma ft_conflict_false : forall fs st os,
  write_fields true fs st0 = (st, os) -> ft_conflict true fs = false ->
  forall x y, In x (allw os fs) -> In y (allw os fs) -> fst x = fst y -> snd x = snd y.
Proof.
  intros fs st os H G x y Hx Hy E. unfold ft_conflict in G. rewrite H in G. fold (allw os fs) in G.
  destruct (option_eqb (list_eqb Nat.eqb) (snd x) (snd y)) eqn:O; [apply optl_eqb_eq; exact O|].
  exfalso. assert (T : existsb (fun x => existsb (fun y => Nat.eqb (fst x) (fst y) &&
            negb (option_eqb (list_eqb Nat.eqb) (snd x) (snd y))) (allw os fs)) (allw os fs) = true).
  { apply existsb_exists. exists x. split; [exact Hx|]. apply existsb_exists. exists y. split; [exact Hy|].
    rewrite E, Nat.eqb_refl, O. reflexivity. }
  congruence.
Qed.

Lemma Forall2_combine_in {A B} (Q : A -> B -> Prop) : forall l1 l2,
  length l1 = length l2 -> (forall x y, In (y, x) (combine l2 l1) -> Q x y) -> Forall2 Q l1 l2.
Proof.
  induction l1 as [|x r IH]; intros [|y r2] L H; simpl in *; try discriminate; constructor.
  - apply H. left. reflexivity.
  - apply IH; [lia|]. intros. apply H. right. assumption.
Qed.

Lemma Forall2_impl' {A B} (P Q : A -> B -> Prop) : forall l1 l2,
  (forall x y, P x y -> Q x y) -> Forall2 P l1 l2 -> Forall2 Q l1 l2.
Proof. intros l1 l2 I H. induction H; constructor; auto. Qed.

Lemma Forall2_and {A B} (P Q : A -> B -> Prop) : forall l1 l2,
  Forall2 P l1 l2 -> Forall2 Q l1 l2 -> Forall2 (fun x y => P x y /\ Q x y) l1 l2.
Proof.
  intros l1 l2 H. induction H; intro H2; inversion H2; subst; constructor; auto.
Qed.

(* under the guard, when the file is closed every coordinate variable of every
   field carries exactly the formula_terms this field wants on it *)
Definition fta_own (st : wst) (f : field) (o : fout) : Prop :=
  forall a v, nth a (o_dim o) None = Some v -> vfta st v = wantv f (o_anc o) a.

Lemma final_fta : forall fs st os,
  write_fields true fs st0 = (st, os) -> ft_conflict true fs = false -> Forall2 (fta_own st) fs os.
Proof.
  intros fs st os H G.
  destruct (write_fields2 _ _ _ _ Inv_st0 W_st0 FreeInv_st0 H) as (_ & _ & _ & _ & OK & FT & _ & WI).
  pose proof (ft_conflict_false _ _ _ H G) as NC.
  assert (IN : Forall2 (fun f o => incl (owner_terms o f) (allw os fs)) fs os).
  { apply Forall2_combine_in; [eapply Forall2_length'; eauto|].
    intros f o Hin x Hx. unfold allw. apply in_concat. exists (owner_terms o f). split; [|exact Hx].
    apply in_map_iff. exists (o, f). split; [reflexivity|exact Hin]. }
  eapply Forall2_impl'; [|exact (Forall2_and _ _ _ _ WI IN)].
  intros f o [Hw Hi] a v Hn. simpl in *.
  assert (Hall : In (v, wantv f (o_anc o) a) (allw os fs)) by (apply Hi; apply In_owner_terms; exact Hn).
  unfold vfta. destruct (find (fun p => Nat.eqb (fst p) v) (fta st)) as [p|] eqn:Fd.
  - apply find_some in Fd as [Hp Ev]. apply Nat.eqb_eq in Ev.
    destruct (FT p Hp) as [[]|Hp2].
    apply (NC (fst p, Some (snd p)) (v, wantv f (o_anc o) a) Hp2 Hall Ev).
  - unfold wantv. destruct (want_idx f a) as [ts|] eqn:Wi; [|reflexivity].
    exfalso. pose proof (Hw a v ts Hn Wi) as Hin.
    pose proof (find_none _ _ Fd _ Hin) as Hc. simpl in Hc. rewrite Nat.eqb_refl in Hc. discriminate.
Qed.

(* ================================================================ Part 4 *)
Lemma holds_vals : forall st v c nd,
  W st -> holds (vt st) v c nd -> ck c <> KGm -> length nd = length (cshape c) ->
  vtok st v = ctok c /\ vbnd st v = btok (cbt c) /\ vshape st v = cshape c.
Proof.
  intros st v c nd [HV [_ Bn]] (ve & N & C & D & K) G L.
  apply eq_content_iff in C as (T & S & B).
  assert (NG : ck (ve_c ve) <> KGm).
  { destruct K as [K|K]; [congruence|]. intro Hg. destruct (HV v ve N) as [Hgm _].
    destruct (Hgm Hg) as [E1 E2]. rewrite <- D, E1, S, E2 in L. discriminate. }
  splits.
  - unfold vtok. rewrite N. congruence.
  - rewrite (Bn v ve N NG). congruence.
  - unfold vshape. rewrite N. congruence.
Qed.

Lemma rc_holds : forall st role v c nd,
  W st -> holds (vt st) v c nd -> ck c <> KGm -> length nd = length (cshape c) -> rc st role v = rc_of role c.
Proof.
  intros st role v c nd HW Hh G L. destruct (holds_vals st v c nd HW Hh G L) as (A & B & C).
  unfold rc, rc_of. congruence.
Qed.

Lemma len_nd_of : forall k f dims it, length (nd_of dims it) = length (cshape (comp_of k f it)).
Proof. intros. unfold nd_of, comp_of, shape_of. simpl. rewrite !map_length. reflexivity. Qed.

Lemma list_rc : forall st role k f dims l vs,
  W st -> k <> KGm ->
  Forall2 (fun it v => holds (vt st) v (comp_of k f it) (nd_of dims it)) l vs ->
  map (rc st role) vs = map (fun it => rc_of role (comp_of k f it)) l.
Proof.
  intros st role k f dims l vs HW G H. induction H; simpl; [reflexivity|]. f_equal; [|exact IHForall2].
  eapply rc_holds; eauto. apply len_nd_of.
Qed.

Lemma scal_rc : forall st l vs,
  W st -> Forall2 (fun it v => holds (vt st) v (mkC KDim (i_tok it) [] (i_bt it)) []) l vs ->
  map (fun v => (role_dim, vtok st v, vbnd st v, [1])) vs =
  map (fun it => (role_dim, i_tok it, btok (i_bt it), [1])) l.
Proof.
  intros st l vs HW H. induction H; simpl; [reflexivity|]. f_equal; [|exact IHForall2].
  destruct (holds_vals st y _ _ HW H ltac:(simpl; discriminate) eq_refl) as (A & B & _). simpl in *. congruence.
Qed.

Definition dim_ok3 (vtab : list ventry) (f : field) (a : nat) (oc : option citem) (ov : option nat) (d : dimid) : Prop :=
  match oc, ov with
  | Some it, Some v => holds vtab v (dimcomp f a it) [DCoord v] /\ d = DCoord v
  | None, None => exists n, d = DFree n
  | _, _ => False
  end.

Lemma dim_ok3_intro : forall vtab f dcs a dv ds,
  WV vtab -> Forall3i (dim_ok vtab f) a dcs dv ds -> Forall3i free_shape a dcs dv ds ->
  Forall3i (dim_ok3 vtab f) a dcs dv ds.
Proof.
  intros vtab f dcs. induction dcs as [|oc r IH]; intros a [|ov dv] [|d ds] HV F1 F2; simpl in *; try tauto.
  destruct F1 as [A1 B1]. destruct F2 as [A2 B2]. split; [|apply IH; auto].
  destruct oc as [it|], ov as [v|]; simpl in *; try tauto.
  - destruct A1 as (nd & Hh & Hd).
    pose proof (holds_dim_nd _ _ _ _ HV Hh eq_refl eq_refl) as E. subst nd. simpl in Hd. auto.
  - apply A2. reflexivity.
Qed.

Lemma dims_rc : forall st f dcs a dv ds,
  W st -> Forall3i (dim_ok3 (vt st) f) a dcs dv ds -> map (rc st role_dim) (somes dv) = s_dims f dcs a.
Proof.
  intros st f dcs. induction dcs as [|oc r IH]; intros a [|ov dv] [|d ds] HW F; simpl in *; try tauto.
  destruct F as [A B]. destruct oc as [it|], ov as [v|]; simpl in *; try tauto.
  - destruct A as [Hh _]. f_equal; [|apply (IH (S a) dv ds); auto].
    eapply rc_holds; eauto. simpl. discriminate.
  - apply (IH (S a) dv ds); auto.
Qed.

Lemma somes_in : forall vtab f dcs a dv ds v,
  Forall3i (dim_ok3 vtab f) a dcs dv ds -> In v (somes dv) ->
  exists c, In c (dcomps f dcs a) /\ holds vtab v c [DCoord v] /\ ck c = KDim.
Proof.
  intros vtab f dcs. induction dcs as [|oc r IH]; intros a [|ov dv] [|d ds] v F Hin; simpl in *; try tauto.
  destruct F as [A B]. destruct oc as [it|], ov as [w|]; simpl in *; try tauto.
  - destruct Hin as [<-|Hin].
    + exists (dimcomp f a it). destruct A. auto.
    + destruct (IH _ _ _ _ B Hin) as (c & H1 & H2). exists c. auto.
  - apply (IH _ _ _ _ B Hin).
Qed.

Lemma comp_ext : forall a b, ck a = ck b -> eq_content a b = true -> a = b.
Proof.
  intros [k1 t1 s1 b1] [k2 t2 s2 b2] K C. apply eq_content_iff in C as (T & S & B). simpl in *. congruence.
Qed.

Lemma holds_same_var : forall vtab v c1 nd1 c2 nd2,
  holds vtab v c1 nd1 -> holds vtab v c2 nd2 -> eq_content c1 c2 = true /\ nd1 = nd2.
Proof.
  intros vtab v c1 nd1 c2 nd2 (ve1 & N1 & C1 & D1 & _) (ve2 & N2 & C2 & D2 & _).
  rewrite N1 in N2. inversion N2; subst ve2. split; [|congruence].
  eapply eq_content_trans; [exact C1|apply eq_content_sym; exact C2].
Qed.

Lemma dimvars_nodup : forall vtab f dcs a dv ds,
  Forall3i (dim_ok3 vtab f) a dcs dv ds -> NoDup (dcomps f dcs a) -> NoDup (somes dv).
Proof.
  intros vtab f dcs. induction dcs as [|oc r IH]; intros a [|ov dv] [|d ds] F N; simpl in *; try tauto; try constructor.
  destruct F as [A B]. destruct oc as [it|], ov as [v|]; simpl in *; try tauto.
  - inversion N as [|? ? N1 N2]; subst. constructor; [|eapply IH; eauto].
    intro Hin. destruct (somes_in _ _ _ _ _ _ _ B Hin) as (c & Hc & Hh & K).
    destruct A as [Hh0 _]. destruct (holds_same_var _ _ _ _ _ _ Hh0 Hh) as [C _].
    apply N1. rewrite (comp_ext (dimcomp f a it) c); auto.
  - eapply IH; eauto.
Qed.

Lemma dims_nodup : forall vtab f dcs a dv ds,
  Forall3i (dim_ok3 vtab f) a dcs dv ds -> NoDup (somes dv) -> NoDup (frees ds) -> NoDup ds.
Proof.
  intros vtab f dcs. induction dcs as [|oc r IH]; intros a [|ov dv] [|d ds] F N1 N2; simpl in *; try tauto; try constructor.
  - destruct F as [A B]. destruct oc as [it|], ov as [v|]; simpl in *; try tauto.
    + destruct A as [_ ->]. intro Hin. inversion N1 as [|? ? M1 M2]; subst. apply M1.
      clear - B Hin. revert a dv ds B Hin. induction r as [|oc r IH]; intros a [|ov dv] [|d ds] B Hin; simpl in *; try tauto.
      destruct B as [A B]. destruct oc as [it|], ov as [w|]; simpl in *; try tauto.
      * destruct A as [_ ->]. destruct Hin as [E|Hin]; [inversion E; left; reflexivity|right; eapply IH; eauto].
      * destruct A as [n ->]. destruct Hin as [E|Hin]; [discriminate|eapply IH; eauto].
    + destruct A as [n ->]. intro Hin. simpl in N2. inversion N2 as [|? ? M1 M2]; subst. apply M1.
      unfold frees. apply in_flat_map. exists (DFree n). split; [exact Hin|left; reflexivity].
  - destruct F as [A B]. destruct oc as [it|], ov as [v|]; simpl in *; try tauto.
    + destruct A as [_ ->]. simpl in N2. inversion N1; subst. eapply IH; eauto.
    + destruct A as [n ->]. simpl in N2. inversion N2; subst. eapply IH; eauto.
Qed.

Lemma F3_nth : forall vtab f dcs a dv ds a' it,
  Forall3i (dim_ok3 vtab f) a dcs dv ds -> nth a' dcs None = Some it ->
  exists v, nth a' dv None = Some v /\ holds vtab v (dimcomp f (a + a') it) [DCoord v].
Proof.
  intros vtab f dcs. induction dcs as [|oc r IH]; intros a [|ov dv] [|d ds] a' it F H; simpl in *; try tauto.
  - destruct a'; discriminate.
  - destruct F as [A B]. destruct a'.
    + subst oc. destruct ov as [v|]; simpl in A; [|tauto]. exists v. rewrite Nat.add_0_r. tauto.
    + destruct (IH _ _ _ _ _ B H) as (v & E & Hh). exists v. split; [exact E|].
      replace (a + S a')%nat with (S a + a')%nat by lia. exact Hh.
Qed.

Lemma F3_pattern : forall vtab f dcs a dv ds k,
  Forall3i (dim_ok3 vtab f) a dcs dv ds -> nsome (firstn k dv) = nsome (firstn k dcs).
Proof.
  intros vtab f dcs. induction dcs as [|oc r IH]; intros a [|ov dv] [|d ds] k F; simpl in *; try tauto.
  - destruct k; reflexivity.
  - destruct F as [A B]. destruct k; [reflexivity|]. simpl.
    specialize (IH _ _ _ k B). unfold nsome in *.
    destruct oc, ov; simpl in *; try tauto; rewrite IH; reflexivity.
Qed.

Lemma F3_len : forall vtab f dcs a dv ds,
  Forall3i (dim_ok3 vtab f) a dcs dv ds -> length dv = length dcs /\ length ds = length dcs.
Proof.
  intros vtab f dcs. induction dcs as [|oc r IH]; intros a [|ov dv] [|d ds] F; simpl in *; try tauto.
  destruct F as [_ B]. destruct (IH _ _ _ B). split; congruence.
Qed.

Definition kpred (v : nat) (x : option (nat * key)) : bool :=
  match x with Some (w, _) => Nat.eqb w v | None => false end.

Lemma dim_keys_find : forall dv n a v,
  NoDup (somes dv) -> nth a dv None = Some v ->
  find (kpred v) (dim_keys dv n) = Some (Some (v, KD (n + nsome (firstn a dv)))).
Proof.
  induction dv as [|ov dv IH]; intros n a v N H; simpl in *.
  - destruct a; discriminate.
  - destruct ov as [w|]; simpl in *.
    + destruct a.
      * inversion H; subst. simpl. rewrite Nat.eqb_refl. unfold nsome. simpl. rewrite Nat.add_0_r. reflexivity.
      * inversion N as [|? ? N1 N2]; subst.
        assert (Hin : In v (somes dv)).
        { clear - H. revert a H. induction dv as [|o r IHr]; intros a H; [destruct a; discriminate|].
          destruct a; simpl in *; [subst; left; reflexivity|]. destruct o; simpl; [right|]; eapply IHr; eauto. }
        assert (Nat.eqb w v = false) by (apply Nat.eqb_neq; intro; subst; tauto).
        rewrite H0. rewrite (IH (S n) a v N2 H). unfold nsome. simpl. f_equal. f_equal. f_equal. f_equal. lia.
    + destruct a; [discriminate|]. rewrite (IH n a v N H). reflexivity.
Qed.

Lemma dim_keys_find_none : forall dv n v,
  (forall w, In w (somes dv) -> w <> v) -> find (kpred v) (dim_keys dv n) = None.
Proof.
  induction dv as [|ov dv IH]; intros n v H; simpl; [reflexivity|].
  destruct ov as [w|]; simpl in *.
  - assert (Nat.eqb w v = false) by (apply Nat.eqb_neq; apply H; left; reflexivity).
    rewrite H0. apply IH. intros. apply H. right. assumption.
  - apply IH. exact H.
Qed.

Lemma index_of_nodup : forall l v j s,
  NoDup l -> nth_error l j = Some v -> index_of v l s = Some (s + j)%nat.
Proof.
  induction l as [|x r IH]; intros v j s N H; [destruct j; discriminate|].
  inversion N as [|? ? N1 N2]; subst. destruct j; simpl in *.
  - inversion H; subst. rewrite Nat.eqb_refl. f_equal. lia.
  - assert (Nat.eqb x v = false).
    { apply Nat.eqb_neq. intro; subst. apply N1. eapply nth_error_In; eauto. }
    rewrite H0. rewrite (IH v j (S s) N2 H). f_equal. lia.
Qed.

Lemma nd_of_inj : forall (ds : list dimid) ax1 ax2,
  NoDup ds -> (forall a, In a ax1 -> (a < length ds)%nat) -> (forall a, In a ax2 -> (a < length ds)%nat) ->
  map (fun a => nth a ds (DFree 0)) ax1 = map (fun a => nth a ds (DFree 0)) ax2 -> ax1 = ax2.
Proof.
  intros ds ax1. induction ax1 as [|a r IH]; intros [|b r2] N H1 H2 E; simpl in *; try discriminate; [reflexivity|].
  inversion E as [[E1 E2]]. f_equal.
  - apply (proj1 (NoDup_nth ds (DFree 0)) N); auto.
  - apply IH; auto.
Qed.

Lemma Forall2_NoDup_in {A B} (P : A -> B -> Prop) : forall l vs,
  Forall2 P l vs -> (forall x y v, In x l -> In y l -> P x v -> P y v -> x = y) -> NoDup l -> NoDup vs.
Proof.
  intros l vs H. induction H; intros Inj N; [constructor|].
  inversion N as [|? ? N1 N2]; subst. constructor.
  - intro Hin. apply N1.
    assert (G : exists z, In z l /\ P z y).
    { clear - H0 Hin. induction H0 as [|x0 y0 l0 l0' P0 F0 IH0]; simpl in *; [tauto|]. destruct Hin as [<-|Hin].
      - exists x0. auto.
      - destruct (IH0 Hin) as (z & Hz & Pz). exists z. auto. }
    destruct G as (z & Hz & Pz). rewrite (Inj x z y); auto; [left; reflexivity|right; exact Hz].
  - apply IHForall2; auto. intros. eapply Inj; eauto; right; assumption.
Qed.

Definition vF (st : wst) (x : option (nat * key)) : list (key * Z * list nat) :=
  match x with
  | Some (v, k) => match vfta st v with Some ts => [(k, vtok st v, ts)] | None => [] end
  | None => []
  end.

Definition kvF (st : wst) (dk : list (option (nat * key))) (av : list nat) (v : nat) : list (key * Z) :=
  match key_of_var dk av v with Some k => [(k, vtok st v)] | None => [] end.

Definition gmF (st : wst) (dk : list (option (nat * key))) (av : list nat) (g : nat * option (list nat)) :=
  (vtok st (fst g), match nth_error (vt st) (fst g) with Some e => cbt (ve_c e) | None => None end,
   match snd g with None => None | Some vs => Some (flat_map (kvF st dk av) vs) end).

Lemma file_view_unfold : forall st o, file_view st o =
  let vc := flat_map (vF st) (dim_keys (o_dim o) 0) in
  mkFF (map (rc st role_dim) (somes (o_dim o)) ++ map (fun v => (role_dim, vtok st v, vbnd st v, [1])) (o_scal o) ++
        map (rc st role_aux) (o_aux o) ++ flat_map (fun x => map (rc st role_anc) (snd x)) vc ++
        map (rc st role_meas) (o_meas o) ++ map (rc st role_fanc) (o_fanc o))
       (map (fun x => (fst (fst x), snd (fst x), map (vtok st) (snd x))) vc)
       (map (gmF st (dim_keys (o_dim o) 0) (o_aux o)) (o_gm o)).
Proof. reflexivity. Qed.

Lemma vcrs_spec : forall st f ancv dcs a n dv ds,
  W st -> Forall3i (dim_ok3 (vt st) f) a dcs dv ds ->
  (forall a' v, nth a' dv None = Some v -> vfta st v = wantv f ancv (a + a')) ->
  flat_map (vF st) (dim_keys dv n) =
  map (fun x => (fst (fst x), snd (fst x), map (fun j => nth j ancv 0%nat) (snd x))) (s_vcrs f dcs a n).
Proof.
  intros st f ancv dcs. induction dcs as [|oc r IH]; intros a n [|ov dv] [|d ds] HW F H; simpl in *; try tauto.
  destruct F as [A B]. destruct oc as [it|], ov as [v|]; simpl in *; try tauto.
  - destruct A as [Hh _].
    pose proof (H 0%nat v eq_refl) as E0. rewrite Nat.add_0_r in E0. rewrite E0.
    destruct (holds_vals st v _ _ HW Hh ltac:(simpl; discriminate) eq_refl) as (Tk & _). simpl in Tk.
    assert (R : flat_map (vF st) (dim_keys dv (S n)) =
                map (fun x => (fst (fst x), snd (fst x), map (fun j => nth j ancv 0%nat) (snd x))) (s_vcrs f r (S a) (S n))).
    { apply (IH (S a) (S n) dv ds HW B). intros a' w Hn. rewrite (H (S a') w Hn). f_equal. lia. }
    rewrite R, map_app. unfold wantv. destruct (want_idx f a); simpl; [rewrite Tk|]; reflexivity.
  - apply (IH (S a) n dv ds HW B). intros a' w Hn. rewrite (H (S a') w Hn). f_equal. lia.
Qed.

Lemma s_vcrs_terms : forall f dcs a n x,
  In x (s_vcrs f dcs a n) -> exists fr, ft f = Some fr /\ snd x = f_terms fr.
Proof.
  intros f dcs. induction dcs as [|oc r IH]; intros a n x H; simpl in H; [tauto|].
  destruct oc as [it|]; [|eapply IH; eauto].
  apply in_app_or in H as [H|H]; [|eapply IH; eauto].
  unfold want_idx in H. destruct (ft f) as [fr|]; [|destruct H].
  destruct (Nat.eqb (f_z fr) a); [|destruct H]. destruct (f_terms fr) eqn:T; [destruct H|].
  destruct H as [<-|[]]. exists fr. simpl. auto.
Qed.

Lemma flat_map_map {A B C} (f : B -> list C) (g : A -> B) : forall l,
  flat_map f (map g l) = flat_map (fun x => f (g x)) l.
Proof. induction l as [|x r IH]; simpl; [reflexivity|]. rewrite IH. reflexivity. Qed.

Lemma nodupb_NoDup {A} (eqb : A -> A -> bool) : (forall x, eqb x x = true) ->
  forall l, nodupb eqb l = true -> NoDup l.
Proof.
  intros R. induction l as [|x r IH]; simpl; intro H; [constructor|].
  apply andb_true_iff in H as [H1 H2]. constructor; [|auto].
  intro Hin. apply negb_true_iff in H1.
  assert (existsb (eqb x) r = true) by (apply existsb_exists; exists x; auto). congruence.
Qed.

Lemma comp_eqb_refl : forall c, comp_eqb c c = true.
Proof.
  intro c. unfold comp_eqb, eq_comp. simpl. rewrite eq_content_refl.
  assert (kind_eqb (ck c) (ck c) = true) by (apply kind_eqb_eq; reflexivity). rewrite H. reflexivity.
Qed.

Lemma item_eqb_refl : forall x, item_eqb x x = true.
Proof.
  intro x. unfold item_eqb. rewrite Z.eqb_refl.
  assert (A : list_eqb Nat.eqb (i_ax x) (i_ax x) = true) by (apply (list_eqb_eq Nat.eqb Nat.eqb_eq); reflexivity).
  assert (B : option_eqb Z.eqb (i_bt x) (i_bt x) = true) by (apply optz_eqb_eq; reflexivity).
  rewrite A, B. reflexivity.
Qed.

Record wf (f : field) : Prop := mkWF {
  wf_dims : NoDup (dcomps f (dimc f) 0);
  wf_aux : NoDup (aux f);
  wf_auxax : forall it, In it (aux f) -> forall a, In a (i_ax it) -> (a < length (dimc f))%nat;
  wf_gm : forall g, In g (gms f) -> forall x, In x (g_co g) -> co_ok f x = true;
  wf_ft : forall fr, ft f = Some fr -> co_ok f (true, f_z fr) = true /\
                                       forall j, In j (f_terms fr) -> (j < length (anc f))%nat
}.

Lemma wfb_wf : forall f, wfb f = true -> wf f.
Proof.
  intros f H. unfold wfb in H. repeat (apply andb_true_iff in H as [H ?]).
  constructor.
  - eapply nodupb_NoDup; [apply comp_eqb_refl|exact H].
  - eapply nodupb_NoDup; [apply item_eqb_refl|eassumption].
  - intros it Hit a Ha. rewrite forallb_forall in H2. specialize (H2 it Hit). rewrite forallb_forall in H2.
    apply Nat.ltb_lt. apply H2. exact Ha.
  - intros g Hg x Hx. rewrite forallb_forall in H1. specialize (H1 g Hg). rewrite forallb_forall in H1. auto.
  - intros fr Hf. rewrite Hf in H0. apply andb_true_iff in H0 as [A B]. split; [exact A|].
    intros j Hj. rewrite forallb_forall in B. apply Nat.ltb_lt. auto.
Qed.

Lemma wf_gm_list : forall f, wf f -> forall g, In g (gm_list f) -> forall x, In x (g_co g) -> co_ok f x = true.
Proof.
  intros f Hwf g Hg x Hx. unfold gm_list in Hg. destruct (ft f) as [fr|] eqn:Ft; [|eapply wf_gm; eauto].
  destruct (wf_ft f Hwf fr Ft) as [Hz _]. unfold vertical_datum in Hg.
  destruct (f_d fr) as [d|]; [|eapply wf_gm; eauto].
  destruct (Nat.eqb _ 1).
  - apply in_map_iff in Hg as (g0 & <- & Hg0).
    destruct (option_eqb Z.eqb (Some d) (g_d g0)); [|eapply wf_gm; eauto].
    destruct (existsb (co_eqb (true, f_z fr)) (g_co g0)); [eapply wf_gm; eauto|].
    simpl in Hx. apply in_app_or in Hx as [Hx|[<-|[]]]; [eapply wf_gm; eauto|exact Hz].
  - apply in_app_or in Hg as [Hg|[<-|[]]]; [eapply wf_gm; eauto|].
    simpl in Hx. destruct Hx as [<-|[]]. exact Hz.
Qed.

Lemma holds_kind : forall vtab v c nd,
  holds vtab v c nd -> ck c <> KAnc -> exists ve, nth_error vtab v = Some ve /\ ck (ve_c ve) = ck c.
Proof. intros vtab v c nd (ve & N & _ & _ & K) Hk. exists ve. split; [exact N|]. destruct K; congruence. Qed.

Lemma Forall2_flip' {A B} (P : A -> B -> Prop) : forall l1 l2,
  Forall2 (fun x y => P y x) l2 l1 -> Forall2 P l1 l2.
Proof. intros l1 l2 H. induction H; constructor; auto. Qed.

Lemma map_eq_F2 {A B C} (f : A -> C) (g : B -> C) : forall l1 l2,
  map f l1 = map g l2 -> Forall2 (fun x y => f x = g y) l1 l2.
Proof.
  induction l1 as [|x r IH]; intros [|y r2] H; simpl in *; try discriminate; constructor.
  - congruence.
  - apply IH. congruence.
Qed.

Section FileView.
  Variables (st : wst) (f : field) (o : fout).
  Hypothesis HW : W st.
  Hypothesis D3 : Forall3i (dim_ok3 (vt st) f) 0 (dimc f) (o_dim o) (o_dims o).
  Hypothesis NDv : NoDup (somes (o_dim o)).
  Hypothesis NDa : NoDup (o_aux o).
  Hypothesis DA : Forall2 (fun it v => holds (vt st) v (comp_of KAux f it) (nd_of (o_dims o) it)) (aux f) (o_aux o).

  Lemma key_spec : forall x, co_ok f x = true ->
    kvF st (dim_keys (o_dim o) 0) (o_aux o) (co_var (o_dim o) (o_aux o) x) = s_key f x.
  Proof.
    intros [[|] n] Hx; unfold co_ok in Hx; simpl in Hx.
    - destruct (nth n (dimc f) None) as [it|] eqn:Hn; [|discriminate].
      destruct (F3_nth _ _ _ _ _ _ _ _ D3 Hn) as (v & Ev & Hh). simpl in Hh.
      unfold co_var, s_key. simpl. rewrite Ev, Hn. unfold kvF, key_of_var.
      change (fun x : option (nat * key) => match x with Some (w, _) => Nat.eqb w v | None => false end) with (kpred v).
      rewrite (dim_keys_find _ 0 n v NDv Ev). simpl.
      rewrite (F3_pattern _ _ _ _ _ _ n D3).
      destruct (holds_vals st v _ _ HW Hh ltac:(simpl; discriminate) eq_refl) as (Tk & _). simpl in Tk.
      rewrite Tk. reflexivity.
    - apply Nat.ltb_lt in Hx.
      pose proof (Forall2_length' _ _ _ DA) as Len.
      destruct (nth_error (aux f) n) as [it|] eqn:Hn; [|apply nth_error_None in Hn; lia].
      pose proof (Forall2_nth _ _ _ n noitem 0%nat DA Hx) as Hh.
      rewrite (nth_error_nth _ _ noitem Hn) in Hh.
      set (v := nth n (o_aux o) 0%nat) in *.
      assert (Nv : nth_error (o_aux o) n = Some v) by (apply nth_error_nth'; lia).
      unfold co_var, s_key. simpl. fold v. rewrite Hn. unfold kvF, key_of_var.
      change (fun x : option (nat * key) => match x with Some (w, _) => Nat.eqb w v | None => false end) with (kpred v).
      rewrite dim_keys_find_none.
      + rewrite (index_of_nodup _ v n 0 NDa Nv). simpl.
        destruct (holds_vals st v _ _ HW Hh ltac:(simpl; discriminate) (len_nd_of KAux f _ it)) as (Tk & _). simpl in Tk.
        rewrite Tk. reflexivity.
      + intros w Hw E. subst w. destruct (somes_in _ _ _ _ _ _ _ D3 Hw) as (c & _ & Hc & Kc).
        destruct (holds_kind _ _ _ _ Hc ltac:(congruence)) as (ve1 & N1 & K1).
        destruct (holds_kind _ _ _ _ Hh ltac:(simpl; discriminate)) as (ve2 & N2 & K2).
        rewrite N1 in N2. inversion N2; subst. simpl in K2. congruence.
  Qed.
End FileView.

Lemma aux_vars_nodup : forall st f o,
  wf f -> NoDup (o_dims o) -> length (o_dims o) = length (dimc f) ->
  Forall2 (fun it v => holds (vt st) v (comp_of KAux f it) (nd_of (o_dims o) it)) (aux f) (o_aux o) ->
  NoDup (o_aux o).
Proof.
  intros st f o Hwf ND Len DA. eapply Forall2_NoDup_in; [exact DA| |exact (wf_aux f Hwf)].
  intros x y v Hx Hy H1 H2. destruct (holds_same_var _ _ _ _ _ _ H1 H2) as [C E].
  apply eq_content_iff in C as (T & _ & B). simpl in T, B.
  assert (A : i_ax x = i_ax y).
  { apply (nd_of_inj (o_dims o)); auto.
    - intros a Ha. rewrite Len. exact (wf_auxax f Hwf x Hx a Ha).
    - intros a Ha. rewrite Len. exact (wf_auxax f Hwf y Hy a Ha). }
  destruct x, y; simpl in *; congruence.
Qed.

(* what a written field looks like in the final file is the specification view *)
Lemma file_view_spec : forall st f o,
  W st -> field_ok2 (vt st) f o -> wf f -> fta_own st f o -> file_view st o = spec_view f.
Proof.
  intros st f o HW [[D1 D2 DA DN DM DF DG] FS NF GM] Hwf FT.
  pose proof (dim_ok3_intro _ _ _ _ _ _ (proj1 HW) D1 FS) as D3.
  pose proof (dimvars_nodup _ _ _ _ _ _ D3 (wf_dims f Hwf)) as NDv.
  pose proof (dims_nodup _ _ _ _ _ _ D3 NDv NF) as NDd.
  destruct (F3_len _ _ _ _ _ _ D3) as [Ldv Lds].
  pose proof (aux_vars_nodup st f o Hwf NDd Lds DA) as NDa.
  rewrite file_view_unfold. cbv zeta. unfold spec_view.
  rewrite (vcrs_spec st f (o_anc o) (dimc f) 0 0 (o_dim o) (o_dims o) HW D3 FT).
  f_equal.
  - rewrite (dims_rc st f _ _ _ _ HW D3), (scal_rc st _ _ HW D2).
    assert (G1 : KAux <> KGm) by discriminate. assert (G2 : KMeas <> KGm) by discriminate.
    assert (G3 : KFAnc <> KGm) by discriminate.
    rewrite (list_rc st role_aux KAux f _ _ _ HW G1 DA).
    rewrite (list_rc st role_meas KMeas f _ _ _ HW G2 DM).
    rewrite (list_rc st role_fanc KFAnc f _ _ _ HW G3 DF).
    do 3 f_equal. f_equal.
    rewrite flat_map_map. apply flat_map_ext_in. intros x Hx. simpl.
    destruct (s_vcrs_terms _ _ _ _ _ Hx) as (fr & Ft & Tm). rewrite map_map. apply map_ext_in. intros j Hj.
    assert (Lj : (j < length (anc f))%nat) by (apply (proj2 (wf_ft f Hwf fr Ft)); rewrite <- Tm; exact Hj).
    pose proof (Forall2_nth _ _ _ j noitem 0%nat DN Lj) as Hh.
    unfold anc_item.
    apply (rc_holds st role_anc _ (comp_of KAnc f (nth j (anc f) noitem)) _ HW Hh); [simpl; discriminate|apply len_nd_of].
  - rewrite map_map. apply map_ext_in. intros x Hx. simpl. f_equal.
    destruct (s_vcrs_terms _ _ _ _ _ Hx) as (fr & Ft & Tm). rewrite map_map. apply map_ext_in. intros j Hj.
    assert (Lj : (j < length (anc f))%nat) by (apply (proj2 (wf_ft f Hwf fr Ft)); rewrite <- Tm; exact Hj).
    pose proof (Forall2_nth _ _ _ j noitem 0%nat DN Lj) as Hh.
    assert (G4 : ck (comp_of KAnc f (nth j (anc f) noitem)) <> KGm) by (simpl; discriminate).
    destruct (holds_vals st _ _ _ HW Hh G4 (len_nd_of KAnc f _ _)) as (Tk & _). exact Tk.
  - symmetry. apply Forall2_map_eq.
    apply map_eq_F2 in GM.
    assert (GM' : Forall2 (fun g x => snd x = (if Nat.ltb 1 (length (gm_list f))
                       then Some (map (co_var (o_dim o) (o_aux o)) (g_co g)) else None)) (gm_list f) (o_gm o)).
    { apply Forall2_flip'. exact GM. }
    assert (IN : Forall2 (fun g (x : nat * option (list nat)) => In g (gm_list f)) (gm_list f) (o_gm o)).
    { apply Forall2_combine_in; [eapply Forall2_length'; eauto|]. intros g x Hin. apply in_combine_r in Hin. exact Hin. }
    eapply Forall2_impl'; [|exact (Forall2_and _ _ _ _ (Forall2_and _ _ _ _ DG GM') IN)].
    intros g x [[(nd & ve & N & C & _) Sx] Hg]. simpl in *. unfold gmF. rewrite Sx.
    apply eq_content_iff in C as (T & _ & B). simpl in T, B.
    unfold vtok. rewrite N. rewrite <- T, <- B. f_equal.
    destruct (Nat.ltb 1 (length (gm_list f))); [|reflexivity]. f_equal.
    rewrite flat_map_map. apply flat_map_ext_in. intros c Hc. symmetry.
    apply (key_spec st f o HW D3 NDv NDa DA). eapply wf_gm_list; eauto.
Qed.

(* ================================================================ Part 5 *)
Definition wfs (fs : list field) : Prop := Forall (fun f => wfb f = true) fs.

Lemma wfs_F2 : forall fs (os : list fout), wfs fs -> length fs = length os -> Forall2 (fun f _ => wf f) fs os.
Proof.
  intros fs os H L. apply Forall2_combine_in; [exact L|]. intros f o Hin. apply in_combine_r in Hin.
  unfold wfs in H. rewrite Forall_forall in H. apply wfb_wf. auto.
Qed.

(* T: two axes of one field never land on one netCDF dimension (repaired rule) *)
Lemma axes_distinct_dimensions : forall fs st os,
  wfs fs -> write_fields true fs st0 = (st, os) -> Forall2 (fun _ o => NoDup (o_dims o)) fs os.
Proof.
  intros fs st os WF H.
  destruct (write_fields2 _ _ _ _ Inv_st0 W_st0 FreeInv_st0 H) as (_ & HW & _ & _ & OK & _).
  pose proof (wfs_F2 fs os WF (Forall2_length' _ _ _ OK)) as WF2.
  eapply Forall2_impl'; [|exact (Forall2_and _ _ _ _ OK WF2)].
  intros f o [[[D1 _ _ _ _ _ _] FS NF _] Hwf]. simpl in *.
  pose proof (dim_ok3_intro _ _ _ _ _ _ (proj1 HW) D1 FS) as D3.
  eapply dims_nodup; eauto. eapply dimvars_nodup; eauto. apply (wf_dims f Hwf).
Qed.

Lemma files_are_spec_views : forall fs st os,
  wfs fs -> ft_conflict true fs = false -> write_fields true fs st0 = (st, os) ->
  map (file_view st) os = map spec_view fs.
Proof.
  intros fs st os WF G H.
  destruct (write_fields2 _ _ _ _ Inv_st0 W_st0 FreeInv_st0 H) as (_ & HW & _ & _ & OK & _).
  pose proof (final_fta _ _ _ H G) as FT.
  pose proof (wfs_F2 fs os WF (Forall2_length' _ _ _ OK)) as WF2.
  symmetry. apply Forall2_map_eq.
  eapply Forall2_impl'; [|exact (Forall2_and _ _ _ _ (Forall2_and _ _ _ _ OK FT) WF2)].
  intros f o [[A B] C]. simpl in *. symmetry. apply file_view_spec; auto.
Qed.

(* THE COMPOSITION THEOREM *)
Lemma composition : forall fs,
  wfs fs -> ft_conflict true fs = false -> roundtrip true true fs = map expected fs.
Proof.
  intros fs WF G. unfold roundtrip. destruct (write_fields true fs st0) as [st os] eqn:H.
  rewrite read_views_map, (files_are_spec_views fs st os WF G H), map_map. reflexivity.
Qed.

(* a well-formed field alone never conflicts with itself *)
Lemma somes_nth_in {A} : forall (l : list (option A)) a v, nth a l None = Some v -> In v (somes l).
Proof.
  induction l as [|o r IH]; intros a v H; [destruct a; discriminate|].
  destruct a; simpl in *.
  - subst. left. reflexivity.
  - destruct o; simpl; [right|]; eapply IH; eauto.
Qed.

Lemma somes_nth_inj {A} : forall (l : list (option A)) a a' v,
  NoDup (somes l) -> nth a l None = Some v -> nth a' l None = Some v -> a = a'.
Proof.
  induction l as [|o r IH]; intros a a' v N H1 H2; [destruct a; discriminate|].
  destruct o as [w|]; simpl in N.
  - inversion N as [|? ? N1 N2]; subst. destruct a, a'; simpl in *; auto.
    + inversion H1; subst. exfalso. apply N1. eapply somes_nth_in; eauto.
    + inversion H2; subst. exfalso. apply N1. eapply somes_nth_in; eauto.
    + f_equal. eapply IH; eauto.
  - destruct a, a'; simpl in *; try discriminate. f_equal. eapply IH; eauto.
Qed.

Lemma in_combine_seq_inv {A} : forall (l : list (option A)) s a ov,
  In (a, ov) (combine (seq s (length l)) l) -> (s <= a)%nat /\ nth (a - s) l None = ov.
Proof.
  induction l as [|x r IH]; intros s a ov H; simpl in *; [tauto|].
  destruct H as [E|H].
  - inversion E; subst. split; [lia|]. rewrite Nat.sub_diag. reflexivity.
  - destruct (IH _ _ _ H) as [L N]. split; [lia|].
    replace (a - s)%nat with (S (a - S s)) by lia. exact N.
Qed.

Lemma owner_terms_inv : forall o f x,
  In x (owner_terms o f) -> exists a, nth a (o_dim o) None = Some (fst x) /\ snd x = wantv f (o_anc o) a.
Proof.
  intros o f x H. unfold owner_terms in H. apply in_flat_map in H as ([a [v|]] & Hin & Hx); [|destruct Hx].
  destruct Hx as [<-|[]]. apply in_combine_seq_inv in Hin as [_ Hn]. rewrite Nat.sub_0_r in Hn.
  exists a. split; [exact Hn|]. simpl. unfold wantv, want_idx. destruct (ft f) as [fr|]; [|reflexivity].
  destruct (Nat.eqb (f_z fr) a); [|reflexivity]. destruct (f_terms fr); reflexivity.
Qed.

Lemma optl_eqb_refl : forall a : option (list nat), option_eqb (list_eqb Nat.eqb) a a = true.
Proof. intros [l|]; simpl; [|reflexivity]. apply (list_eqb_eq Nat.eqb Nat.eqb_eq). reflexivity. Qed.

Lemma single_no_conflict : forall f, wfb f = true -> ft_conflict true [f] = false.
Proof.
  intros f Hb. pose proof (wfb_wf f Hb) as Hwf. unfold ft_conflict.
  destruct (write_fields true [f] st0) as [st os] eqn:H.
  destruct (write_fields2 _ _ _ _ Inv_st0 W_st0 FreeInv_st0 H) as (_ & HW & _ & _ & OK & _).
  inversion OK as [|? o ? ? OK1 OK2]; subst. inversion OK2; subst. simpl. rewrite app_nil_r.
  destruct OK1 as [[D1 _ _ _ _ _ _] FS NF _].
  pose proof (dim_ok3_intro _ _ _ _ _ _ (proj1 HW) D1 FS) as D3.
  pose proof (dimvars_nodup _ _ _ _ _ _ D3 (wf_dims f Hwf)) as NDv.
  destruct (existsb _ (owner_terms o f)) eqn:E; [|reflexivity]. exfalso.
  apply existsb_exists in E as (x & Hx & E). apply existsb_exists in E as (y & Hy & E).
  apply andb_true_iff in E as [E1 E2]. apply Nat.eqb_eq in E1. apply negb_true_iff in E2.
  destruct (owner_terms_inv _ _ _ Hx) as (a & Na & Sa). destruct (owner_terms_inv _ _ _ Hy) as (b & Nb & Sb).
  rewrite <- E1 in Nb. assert (a = b) by (eapply somes_nth_inj; eauto). subst b.
  rewrite Sa, Sb, optl_eqb_refl in E2. discriminate.
Qed.

(* every field comes back from the shared file exactly as from a file of its own *)
Lemma roundtrip_as_single_files : forall fs,
  wfs fs -> ft_conflict true fs = false ->
  forall i f, nth_error fs i = Some f ->
    nth_error (roundtrip true true fs) i = nth_error (roundtrip true true [f]) 0.
Proof.
  intros fs WF G i f Hn. rewrite (composition fs WF G).
  assert (Hb : wfb f = true).
  { unfold wfs in WF. rewrite Forall_forall in WF. apply WF. eapply nth_error_In; eauto. }
  rewrite (composition [f] (Forall_cons _ Hb (Forall_nil _)) (single_no_conflict f Hb)). simpl.
  rewrite nth_error_map, Hn. reflexivity.
Qed.

Lemma roundtrip_concat_singles : forall fs,
  wfs fs -> ft_conflict true fs = false ->
  roundtrip true true fs = flat_map (fun f => roundtrip true true [f]) fs.
Proof.
  intros fs WF G. rewrite (composition fs WF G). unfold wfs in WF. clear G.
  induction WF as [|f r Hb _ IH]; simpl; [reflexivity|].
  rewrite (composition [f] (Forall_cons _ Hb (Forall_nil _)) (single_no_conflict f Hb)). simpl. rewrite IH. reflexivity.
Qed.

(* order: any permutation of the list gives the same fields, permuted *)
Lemma order_invariance : forall fs fs',
  Permutation fs fs' -> wfs fs -> ft_conflict true fs = false -> ft_conflict true fs' = false ->
  Permutation (roundtrip true true fs) (roundtrip true true fs') /\
  roundtrip true true fs' = map expected fs'.
Proof.
  intros fs fs' P WF G G'.
  assert (WF' : wfs fs') by (unfold wfs in *; eapply Permutation_Forall; eauto).
  rewrite (composition fs WF G), (composition fs' WF' G'). split; [|reflexivity].
  apply Permutation_map. exact P.
Qed.

(* non-vacuity and sharpness of the guards *)
Lemma composition_example :
  wfs [wA; wA; wB] /\ ft_conflict true [wA; wA; wB] = false /\
  (length (vt (fst (write_fields true [wA; wA; wB] st0))) <
   2 * length (vt (fst (write_fields true [wA] st0))) + length (vt (fst (write_fields true [wB] st0))))%nat.
Proof.
  split; [repeat constructor|]. split; [vm_compute; reflexivity|]. apply Nat.ltb_lt. vm_compute. reflexivity.
Qed.

(* two equal dimension coordinates in one field (outside the guard wfb): the
   code before commit a6b4a67 wrote both axes on one netCDF dimension, even in
   a file of its own; the current rule gives two dimensions *)
Definition wH : field :=
  mkField [3; 3] [Some (mkI [] 20 None); Some (mkI [] 20 None)] [] [] [] [] [] None [].

Lemma old_equal_dimcoords_collapse_refuted :
  wfb wH = false /\
  (exists o, In o (snd (write_fields false [wH] st0)) /\ ~ NoDup (o_dims o)) /\
  (forall o, In o (snd (write_fields true [wH] st0)) -> NoDup (o_dims o)).
Proof.
  split; [vm_compute; reflexivity|]. split.
  - exists (mkO [DCoord 0; DCoord 0] [Some 0%nat; Some 0%nat] [] [] [] [] [] []). split.
    + vm_compute. auto.
    + intro H. inversion H as [|? ? N _]; subst. apply N. left. reflexivity.
  - vm_compute. intros o [<-|[]]; simpl. repeat constructor; simpl; intuition discriminate.
Qed.

Lemma roundtrip_singles : forall fs,
  wfs fs -> ft_conflict true fs = false ->
  (roundtrip true true fs = flat_map (fun f => roundtrip true true [f]) fs) /\
  (forall i f, nth_error fs i = Some f ->
     nth_error (roundtrip true true fs) i = nth_error (roundtrip true true [f]) 0%nat).
Proof.
  intros fs WF G. split; [exact (roundtrip_concat_singles fs WF G)|exact (roundtrip_as_single_files fs WF G)].
Qed.

(* ================================================================ Part 6: compression variables *)
Definition cvar_ok (lx : bool) (vtab : list ventry) (cf : cfield) (x : fout * option nat) : Prop :=
  match cf_c cf, snd x with
  | Some cs, Some v => exists nd, holds vtab v (ccomp cs) nd /\ (lx = true -> nd = meaning cs (o_dims (fst x)))
  | None, None => True
  | _, _ => False
  end.

Lemma inv_write_cvar : forall lx c m st st' v,
  Inv st -> ck c <> KAnc -> write_cvar lx c m st = (st', v) ->
  Inv st' /\ Ext st st' /\ exists nd, holds (vt st') v c nd /\ (lx = true -> nd = m).
Proof.
  intros lx c m st st' v HI Hk H. unfold write_cvar in H.
  destruct (lookup false c (if lx then Some m else None) (seen st)) as [e|] eqn:L.
  - inversion H; subst; clear H.
    destruct (inv_add_found false c _ st e HI ltac:(discriminate) L) as [H1 H2].
    apply lookup_some in L as (_ & _ & Hnd). splits; auto.
    + exists []. simpl. rewrite app_nil_r. reflexivity.
    + exists (se_nd e). split; [exact H2|]. intros ->. simpl in Hnd. apply dims_eqb_eq in Hnd. congruence.
  - destruct (inv_new_var _ _ _ _ _ HI H) as (H1 & H2 & H3 & _). splits; auto.
    exists m. auto.
Qed.

Lemma cvar_ok_ext : forall lx st st' cf x, Ext st st' -> cvar_ok lx (vt st) cf x -> cvar_ok lx (vt st') cf x.
Proof.
  intros lx st st' cf x E H. unfold cvar_ok in *. destruct (cf_c cf), (snd x); auto.
  destruct H as (nd & Hh & Hn). exists nd. split; [eapply holds_ext; eauto|exact Hn].
Qed.

Lemma ccomp_kind : forall cs, ck (ccomp cs) <> KAnc.
Proof. intros []; simpl; discriminate. Qed.

Lemma inv_write_cfield : forall lx cf st st' x,
  Inv st -> write_cfield lx cf st = (st', x) -> Inv st' /\ Ext st st' /\ cvar_ok lx (vt st') cf x.
Proof.
  intros lx cf st st' x HI H. unfold write_cfield in H.
  destruct (write_field true (cf_f cf) st) as [st1 o] eqn:WF.
  destruct (inv_write_field _ _ _ _ _ HI WF) as (I1 & E1 & _).
  unfold cvar_ok. destruct (cf_c cf) as [cs|].
  - destruct (write_cvar lx (ccomp cs) (meaning cs (o_dims o)) st1) as [st2 v] eqn:WC.
    inversion H; subst; clear H. simpl.
    destruct (inv_write_cvar _ _ _ _ _ _ I1 (ccomp_kind cs) WC) as (I2 & E2 & Hh).
    splits; auto. eapply Ext_trans; eauto.
  - inversion H; subst; clear H. simpl. auto.
Qed.

Lemma inv_write_cfields : forall lx cfs st st' xs,
  Inv st -> write_cfields lx cfs st = (st', xs) ->
  Inv st' /\ Ext st st' /\ Forall2 (cvar_ok lx (vt st')) cfs xs.
Proof.
  intros lx cfs. induction cfs as [|cf r IH]; intros st st' xs HI H; simpl in H.
  - inversion H; subst. splits; auto. apply Ext_refl.
  - destruct (write_cfield lx cf st) as [st1 x] eqn:W.
    destruct (write_cfields lx r st1) as [st2 xs'] eqn:R. inversion H; subst; clear H.
    destruct (inv_write_cfield _ _ _ _ _ HI W) as (H1 & H2 & H3).
    destruct (IH _ _ _ H1 R) as (H4 & H5 & H6).
    splits; auto.
    + eapply Ext_trans; eauto.
    + constructor; [|exact H6]. eapply cvar_ok_ext; eauto.
Qed.

(* what the file says about a field's compression variable *)
Definition cvar_own (st : wst) (cf : cfield) (x : fout * option nat) : Prop :=
  match cf_c cf, snd x with
  | Some cs, Some v => vtok st v = ctok (ccomp cs) /\ cvar_meaning st v = meaning cs (o_dims (fst x))
  | None, None => True
  | _, _ => False
  end.

(* Repaired rule: the list / count / index variable that a field ends up with
   holds the field's own values and refers to the field's own dimensions,
   whatever else is in the list and in whatever order. *)
Lemma compression_variable_own : forall cfs st xs,
  write_cfields true cfs st0 = (st, xs) -> Forall2 (cvar_own st) cfs xs.
Proof.
  intros cfs st xs H. destruct (inv_write_cfields _ _ _ _ _ Inv_st0 H) as (_ & _ & F).
  eapply Forall2_impl'; [|exact F]. intros cf x Hc. unfold cvar_ok, cvar_own in *.
  destruct (cf_c cf) as [cs|], (snd x) as [v|]; auto.
  destruct Hc as (nd & (ve & N & C & D & _) & Hn). specialize (Hn eq_refl). subst nd.
  apply eq_content_iff in C as (T & _). unfold vtok, cvar_meaning, vnd. rewrite N. split; congruence.
Qed.

(* ... hence a compression variable is shared only between fields for which
   it means the same thing *)
Lemma compression_shared_same_meaning : forall cfs st xs i j cf1 cf2 x1 x2 cs1 cs2 v,
  write_cfields true cfs st0 = (st, xs) ->
  nth_error cfs i = Some cf1 -> nth_error xs i = Some x1 ->
  nth_error cfs j = Some cf2 -> nth_error xs j = Some x2 ->
  cf_c cf1 = Some cs1 -> cf_c cf2 = Some cs2 -> snd x1 = Some v -> snd x2 = Some v ->
  ctok (ccomp cs1) = ctok (ccomp cs2) /\ meaning cs1 (o_dims (fst x1)) = meaning cs2 (o_dims (fst x2)).
Proof.
  intros cfs st xs i j cf1 cf2 x1 x2 cs1 cs2 v H N1 M1 N2 M2 C1 C2 S1 S2.
  pose proof (compression_variable_own _ _ _ H) as F.
  assert (G : forall k cf x, nth_error cfs k = Some cf -> nth_error xs k = Some x -> cvar_own st cf x).
  { clear - F. induction F; intros k cf x' A B; destruct k; simpl in *; try discriminate.
    - inversion A; inversion B; subst; assumption.
    - eapply IHF; eauto. }
  pose proof (G _ _ _ N1 M1) as O1. pose proof (G _ _ _ N2 M2) as O2.
  unfold cvar_own in O1, O2. rewrite C1, S1 in O1. rewrite C2, S2 in O2.
  destruct O1 as [A1 B1]. destruct O2 as [A2 B2]. split; congruence.
Qed.

(* the code before the repair: two gathered fields with equal list values and
   different compressed axes share one list variable, which keeps the first
   field's compress attribute; likewise a count / an index variable is shared
   onto the instance dimension of the earlier field *)
Definition gA : cfield :=
  mkCF (mkField [2; 2; 3] [Some (mkI [] 10 None); Some (mkI [] 14 None); Some (mkI [] 18 None)] [] [] [] [] [] None [])
       (Some (CGath 7 1 2)).
Definition gB : cfield :=
  mkCF (mkField [2; 3; 2] [Some (mkI [] 10 None); Some (mkI [] 22 None); Some (mkI [] 26 None)] [] [] [] [] [] None [])
       (Some (CGath 7 1 2)).
Definition rA (k : cspec) : cfield :=
  mkCF (mkField [3; 3] [None; None] [] [mkI [0%nat] 40 None] [] [] [] None []) (Some k).
Definition rB (k : cspec) : cfield :=
  mkCF (mkField [3; 3] [None; None] [] [mkI [0%nat] 44 None] [] [] [] None []) (Some k).

Definition own_all (lx : bool) (cfs : list cfield) : bool :=
  let '(st, xs) := write_cfields lx cfs st0 in
  forallb (fun p => match cf_c (fst p), snd (snd p) with
                    | Some cs, Some v => dims_eqb (cvar_meaning st v) (meaning cs (o_dims (fst (snd p))))
                    | _, _ => true end) (combine cfs xs).

Lemma old_compression_variable_shared_refuted :
  own_all false [gA; gB] = false /\ own_all false [gB; gA] = false /\
  own_all false [rA (CCont 3); rB (CCont 3)] = false /\ own_all false [rA (CIdx 3); rB (CIdx 3)] = false /\
  own_all true [gA; gB] = true /\ own_all true [gB; gA] = true /\
  own_all true [rA (CCont 3); rB (CCont 3)] = true /\ own_all true [rA (CIdx 3); rB (CIdx 3)] = true /\
  (* sharing remains where it is legitimate *)
  (let '(st, xs) := write_cfields true [gA; gA; rA (CCont 3); rA (CCont 3)] st0 in map snd xs) =
  [Some 3%nat; Some 3%nat; Some 5%nat; Some 5%nat].
Proof. repeat split; vm_compute; reflexivity. Qed.

(* ================================================================ Part 7: per-field writer state *)
(* The variables a field gets do not depend on the mapping left by the fields
   written before it. *)
Lemma cfield2_state_independent : forall cf st s1 s2,
  fst (fst (write_cfield2 true cf st s1)) = fst (fst (write_cfield2 true cf st s2)) /\
  snd (write_cfield2 true cf st s1) = snd (write_cfield2 true cf st s2).
Proof. intros. split; reflexivity. Qed.

Lemma cfields2_state_independent : forall cfs st s1 s2,
  fst (fst (write_cfields2 true cfs st s1)) = fst (fst (write_cfields2 true cfs st s2)) /\
  snd (write_cfields2 true cfs st s1) = snd (write_cfields2 true cfs st s2).
Proof.
  intros [|cf r] st s1 s2; simpl; [split; reflexivity|].
  change (write_cfield2 true cf st s2) with (write_cfield2 true cf st s1).
  split; reflexivity.
Qed.

(* every gathered item of a field - its data, its constructs - uses one list
   on one group of axes (otherwise the field is damaged in a file of its own:
   the second list variable over the same dimensions is never written) *)
Definition data_g (cf : cfield) : list (Z * nat * nat) :=
  match cf_c cf with Some (CGath t p n) => [(t, p, n)] | _ => [] end.
Definition all_g (cf : cfield2) : list (Z * nat * nat) :=
  data_g (c2_f cf) ++ map (fun it => (gi_t it, gi_p it, gi_n it)) (c2_g cf).
Definition g_ok (cf : cfield2) : Prop := forall x y, In x (all_g cf) -> In y (all_g cf) -> x = y.

Definition lcomp (t : Z) : comp := mkC KList t [] None.

Definition SM (vtab : list ventry) (s : smap) (t : Z) (m : list dimid) : Prop :=
  forall e, In e s -> fst e = m /\ holds vtab (snd e) (lcomp t) m.

Lemma SM_ext : forall st st' s t m, Ext st st' -> SM (vt st) s t m -> SM (vt st') s t m.
Proof. intros st st' s t m E H e He. destruct (H e He). split; auto. eapply holds_ext; eauto. Qed.

Lemma write_gitems_ok : forall dims l st s st' s' vs t p n,
  Inv st -> SM (vt st) s t (gdims p n dims) ->
  (forall it, In it l -> (gi_t it, gi_p it, gi_n it) = (t, p, n)) ->
  write_gitems dims l st s = (st', s', vs) ->
  Inv st' /\ Ext st st' /\ length vs = length l /\
  Forall (fun v => holds (vt st') v (lcomp t) (gdims p n dims)) vs.
Proof.
  intros dims l. induction l as [|it r IH]; intros st s st' s' vs t p n HI HS Hall H; simpl in H.
  - inversion H; subst. splits; auto. apply Ext_refl.
  - assert (Eit : (gi_t it, gi_p it, gi_n it) = (t, p, n)) by (apply Hall; left; reflexivity).
    assert (E1 : gi_t it = t) by (inversion Eit; reflexivity).
    assert (E2 : gi_p it = p) by (inversion Eit; reflexivity).
    assert (E3 : gi_n it = n) by (inversion Eit; reflexivity).
    rewrite E1, E2, E3 in H. clear E1 E2 E3 Eit.
    assert (Hr : forall it0, In it0 r -> (gi_t it0, gi_p it0, gi_n it0) = (t, p, n)) by (intros; apply Hall; right; assumption).
    unfold sm_get in H.
    destruct (find (fun e => dims_eqb (gdims p n dims) (fst e)) s) as [e|] eqn:Fd.
    + destruct (write_gitems dims r st s) as [[st2 s2] vs2] eqn:W. inversion H; subst; clear H.
      apply find_some in Fd as [Hin _]. destruct (HS e Hin) as [_ Hh].
      destruct (IH _ _ _ _ _ _ _ _ HI HS Hr W) as (I2 & E2' & L2 & F2).
      splits; auto; [simpl; congruence|]. constructor; [eapply holds_ext; eauto|exact F2].
    + destruct (write_cvar true (mkC KList t [] None) (gdims p n dims) st) as [st1 v] eqn:WC.
      destruct (write_gitems dims r st1 ((gdims p n dims, v) :: s)) as [[st2 s2] vs2] eqn:W. inversion H; subst; clear H.
      assert (NK : ck (mkC KList t [] None) <> KAnc) by (simpl; discriminate).
      destruct (inv_write_cvar _ _ _ _ _ _ HI NK WC) as (I1 & X1 & nd & Hh & Hn).
      specialize (Hn eq_refl). subst nd.
      assert (S1 : SM (vt st1) ((gdims p n dims, v) :: s) t (gdims p n dims)).
      { intros e [<-|He]; simpl; [split; [reflexivity|exact Hh]|]. eapply SM_ext; eauto. }
      destruct (IH _ _ _ _ _ _ _ _ I1 S1 Hr W) as (I2 & E2' & L2 & F2).
      splits; auto; [eapply Ext_trans; eauto|simpl; congruence|].
      constructor; [eapply holds_ext; eauto|exact F2].
Qed.

(* what the file says about the list variables of a field's gathered constructs *)
Definition gitems_own (st : wst) (cf : cfield2) (x : fout * option nat * list nat) : Prop :=
  Forall2 (fun it v => vtok st v = gi_t it /\
                       cvar_meaning st v = gdims (gi_p it) (gi_n it) (o_dims (fst (fst x)))) (c2_g cf) (snd x).

Definition gitems_held (vtab : list ventry) (cf : cfield2) (x : fout * option nat * list nat) : Prop :=
  Forall2 (fun it v => holds vtab v (lcomp (gi_t it)) (gdims (gi_p it) (gi_n it) (o_dims (fst (fst x))))) (c2_g cf) (snd x).

Lemma gitems_held_ext : forall st st' cf x, Ext st st' -> gitems_held (vt st) cf x -> gitems_held (vt st') cf x.
Proof. intros st st' cf x E H. unfold gitems_held in *. induction H; constructor; auto. eapply holds_ext; eauto. Qed.

Lemma inv_write_cfield2 : forall cf st s st' s' x,
  Inv st -> g_ok cf -> write_cfield2 true cf st s = (st', s', x) ->
  Inv st' /\ Ext st st' /\ gitems_held (vt st') cf x.
Proof.
  intros cf st s st' s' x HI G H. unfold write_cfield2 in H.
  destruct (write_cfield true (c2_f cf) st) as [st1 [o ov]] eqn:WF.
  destruct (inv_write_cfield _ _ _ _ _ HI WF) as (I1 & E1 & CV).
  destruct (write_gitems (o_dims o) (c2_g cf) st1 _) as [[st2 s2] vs] eqn:WG in H.
  inversion H; subst; clear H. unfold gitems_held. simpl.
  destruct (c2_g cf) as [|it0 r0] eqn:Eg.
  { simpl in WG. inversion WG; subst. splits; auto. }
  (* the common (t, p, n) *)
  set (t := gi_t it0). set (p := gi_p it0). set (n := gi_n it0).
  assert (Hall : forall it, In it (it0 :: r0) -> (gi_t it, gi_p it, gi_n it) = (t, p, n)).
  { intros it Hit. apply G; unfold all_g; apply in_or_app; right; rewrite Eg; apply in_map_iff.
    - exists it. auto.
    - exists it0. split; [reflexivity|left; reflexivity]. }
  assert (S1 : SM (vt st1) (match cf_c (c2_f cf), ov with
                           | Some (CGath t p n), Some v => (gdims p n (o_dims o), v) :: []
                           | _, _ => [] end) t (gdims p n (o_dims o))).
  { unfold cvar_ok in CV. simpl in CV.
    destruct (cf_c (c2_f cf)) as [cs|] eqn:Ec; [|destruct ov; intros e0 []].
    destruct ov as [v|]; [|destruct cs; intros e0 []].
    destruct cs as [t' p' n'| |]; try (intros e0 []; fail).
    assert (Ed : (t', p', n') = (t, p, n)).
    { apply G; unfold all_g, data_g; apply in_or_app; [left; rewrite Ec; left; reflexivity|].
      right. rewrite Eg. left. reflexivity. }
    inversion Ed; subst t' p' n'.
    destruct CV as (nd & Hh & Hn). specialize (Hn eq_refl). subst nd.
    intros e0 [<-|[]]. simpl. split; [reflexivity|exact Hh]. }
  destruct (write_gitems_ok _ _ _ _ _ _ _ _ _ _ I1 S1 Hall WG) as (I2 & E2 & L2 & F2).
  splits; auto; [eapply Ext_trans; eauto|].
  clear - F2 L2 Hall. revert vs F2 L2. generalize (it0 :: r0) as l, Hall. clear.
  induction l as [|it r IH]; intros Hall vs F L; destruct vs; simpl in *; try discriminate; constructor.
  - inversion F; subst. assert (E : (gi_t it, gi_p it, gi_n it) = (t, p, n)) by (apply Hall; left; reflexivity).
    inversion E as [[A B C]]. rewrite A, B, C. assumption.
  - inversion F; subst. apply IH; auto; intros; apply Hall; right; assumption.
Qed.

Lemma inv_write_cfields2 : forall cfs st s st' s' xs,
  Inv st -> Forall g_ok cfs -> write_cfields2 true cfs st s = (st', s', xs) ->
  Inv st' /\ Ext st st' /\ Forall2 (gitems_held (vt st')) cfs xs.
Proof.
  induction cfs as [|cf r IH]; intros st s st' s' xs HI G H; simpl in H.
  - inversion H; subst. splits; auto. apply Ext_refl.
  - destruct (write_cfield2 true cf st s) as [[st1 s1] x] eqn:W.
    destruct (write_cfields2 true r st1 s1) as [[st2 s2] xs'] eqn:R. inversion H; subst; clear H.
    inversion G; subst.
    destruct (inv_write_cfield2 _ _ _ _ _ _ HI H1 W) as (I1 & E1 & F1).
    destruct (IH _ _ _ _ _ I1 H2 R) as (I2 & E2 & F2).
    splits; auto; [eapply Ext_trans; eauto|]. constructor; [eapply gitems_held_ext; eauto|exact F2].
Qed.

(* With the mapping reset per field, the list variable every gathered
   construct of every field is written on holds the construct's own list and
   refers to the construct's own dimensions, whatever was written before. *)
Lemma gathered_constructs_own : forall cfs st s xs,
  Forall g_ok cfs -> write_cfields2 true cfs st0 [] = (st, s, xs) -> Forall2 (gitems_own st) cfs xs.
Proof.
  intros cfs st s xs G H. destruct (inv_write_cfields2 _ _ _ _ _ _ Inv_st0 G H) as (_ & _ & F).
  eapply Forall2_impl'; [|exact F]. intros cf x Hx. unfold gitems_held, gitems_own in *.
  eapply Forall2_impl'; [|exact Hx]. intros it v (ve & N & C & D & _).
  apply eq_content_iff in C as (T & _). unfold vtok, cvar_meaning, vnd. rewrite N. simpl in T. split; congruence.
Qed.

(* the carried-over variant: a field with gathered data, then a field with
   uncompressed data and a construct gathered over the same dimensions with
   another list of the same length *)
Definition pA : cfield2 :=
  mkCF2 (mkCF (mkField [3; 4] [Some (mkI [] 10 None); Some (mkI [] 14 None)] [] [] [] [] [] None [])
              (Some (CGath 5 0 2))) [].
Definition pB : cfield2 :=
  mkCF2 (mkCF (mkField [3; 4] [Some (mkI [] 10 None); Some (mkI [] 14 None)] [] [] [] [] [] None []) None)
        [mkGI 6 0 2].

Definition gown_all (rs : bool) (cfs : list cfield2) : bool :=
  let '(st, _, xs) := write_cfields2 rs cfs st0 [] in
  forallb (fun q => forallb (fun iv => Z.eqb (vtok st (snd iv)) (gi_t (fst iv)))
                            (combine (c2_g (fst q)) (snd (snd q)))) (combine cfs xs).

Lemma carried_over_mapping_refuted :
  gown_all false [pA; pB] = false /\ gown_all false [pB; pA] = true /\
  gown_all true [pA; pB] = true /\ gown_all true [pB; pA] = true /\
  snd (write_cfields2 false [pA; pB] st0 []) <> snd (write_cfields2 true [pA; pB] st0 []).
Proof. repeat split; try (vm_compute; reflexivity). vm_compute. discriminate. Qed.
