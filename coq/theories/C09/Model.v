(* C09 - executable model of the cross-field sharing logic of cfdm's netCDF
   writer and of the coordinate-reference part of the reader.

   Transcribed from cfdm/read_write/netcdf/netcdfwrite.py
     _already_in_file (1070)            -> lookup
     _write_dimension_coordinate (617)  -> write_dimcoord
     _write_field_or_domain (3125), the axes loop with
        ncdim_size_to_spanning_constructs (3410-3560) -> write_free_axis
     _write_scalar_coordinate / _write_auxiliary_coordinate /
     _write_domain_ancillary / _write_cell_measure / _write_field_ancillary
                                        -> write_generic (+ _write_bounds)
     the formula_terms block (3749-3875) and _create_vertical_datum (4049)
                                        -> write_ft, vertical_datum
     _write_grid_mapping (2478)         -> write_gm
   and from cfdm/read_write/netcdf/netcdfread.py
     _create_field_or_domain, the grid_mapping block (4386-4520) with the
     read_vars['vertical_crs'] registry -> read_field.

   Abstraction.  A construct is represented by its *component descriptor*
   [comp]: construct type, a token standing for (properties, data), the data
   shape and a token for the bounds.  implementation.equal_components holds
   exactly when the descriptors agree (type ignored on request): this is what
   the harness arranges when it builds real constructs from tokens, and what
   the correspondence re-checks on every run through the sharing it observes
   in the written files.  netCDF variables and dimensions are abstract ids
   (names are the business of C08); variable ids are positions in the
   variable table.

   Two flags select the code version:
     fx    = true : the dimension-reuse rule refuses a netCDF dimension already
                    used by another axis of the same field   (C09-fix-2)
     reset = true : the reader clears 'vertical_crs' for every data variable
                                                               (C09-fix-1)
   [false] gives the code as it was at the pinned commit (kept for the
   _refuted witnesses). *)
From CfdmV Require Import Common.Base.
Open Scope Z_scope.

(* ---------------------------------------------------------------- kinds *)
Inductive kind := KDim | KAux | KAnc | KMeas | KFAnc | KBnd | KGm | KList | KCount | KIndex.

Definition kind_eqb (a b : kind) : bool :=
  match a, b with
  | KDim, KDim | KAux, KAux | KAnc, KAnc | KMeas, KMeas | KFAnc, KFAnc
  | KBnd, KBnd | KGm, KGm | KList, KList | KCount, KCount | KIndex, KIndex => true
  | _, _ => false
  end.

(* component descriptor; for a grid mapping: ctok = coordinate conversion,
   cshape = [number of coordinates], cbt = datum *)
Record comp := mkC { ck : kind; ctok : Z; cshape : list Z; cbt : option Z }.

(* construct0.equals(construct1, ignore_type=ign) *)
Definition eq_content (a b : comp) : bool :=
  (ctok a =? ctok b) && list_eqb Z.eqb (cshape a) (cshape b) &&
  option_eqb Z.eqb (cbt a) (cbt b).

Definition eq_comp (ign : bool) (a b : comp) : bool :=
  (ign || kind_eqb (ck a) (ck b)) && eq_content a b.

(* ------------------------------------------------------------ dimensions *)
Inductive dimid := DCoord (v : nat) | DFree (n : nat) | DBnd (size : Z).

Definition dimid_eqb (a b : dimid) : bool :=
  match a, b with
  | DCoord x, DCoord y => Nat.eqb x y
  | DFree x, DFree y => Nat.eqb x y
  | DBnd x, DBnd y => Z.eqb x y
  | _, _ => false
  end.

Definition dims_eqb := list_eqb dimid_eqb.

(* ------------------------------------------------------------ the state *)
(* g['seen'] : insertion ordered *)
Record sentry := mkS { se_c : comp; se_v : nat; se_nd : list dimid }.
(* the variables of the file; the id of a variable is its position *)
Record ventry := mkV { ve_c : comp; ve_nd : list dimid }.
(* one entry of g['ncdim_size_to_spanning_constructs'] *)
Record fdentry := mkD { fd_d : nat; fd_size : Z; fd_cons : list (comp * nat) }.

Record wst := mkW {
  seen  : list sentry;
  vt    : list ventry;
  bnds  : list (nat * nat);          (* g['bounds'] : parent variable -> bounds variable *)
  fta   : list (nat * list nat);     (* formula_terms attribute, newest first *)
  fdims : list fdentry;
  nfree : nat                        (* number of dimensions without coordinate variable *)
}.

Definition st0 : wst := mkW [] [] [] [] [] 0.

(* _already_in_file(variable, ncdims, ignore_type): first entry, in insertion
   order, with the required netCDF dimensions and an equal variable *)
Definition nd_ok (q : option (list dimid)) (nd : list dimid) : bool :=
  match q with None => true | Some l => dims_eqb l nd end.

Definition lookup (ign : bool) (c : comp) (q : option (list dimid)) (s : list sentry)
  : option sentry :=
  find (fun e => nd_ok q (se_nd e) && eq_comp ign c (se_c e)) s.

Definition add_seen (e : sentry) (st : wst) : wst :=
  mkW (seen st ++ [e]) (vt st) (bnds st) (fta st) (fdims st) (nfree st).

(* _write_netcdf_variable: a new variable, registered in 'seen' *)
Definition new_var (c : comp) (nd : list dimid) (st : wst) : wst * nat :=
  let v := length (vt st) in
  (mkW (seen st ++ [mkS c v nd]) (vt st ++ [mkV c nd]) (bnds st) (fta st) (fdims st) (nfree st), v).

Definition set_bnd (v bv : nat) (st : wst) : wst :=
  mkW (seen st) (vt st) (bnds st ++ [(v, bv)]) (fta st) (fdims st) (nfree st).

(* ------------------------------------------------------------ the skeleton *)
Record citem := mkI { i_ax : list nat; i_tok : Z; i_bt : option Z }.
(* coordinates of a coordinate reference: (true, axis) = the dimension
   coordinate of that axis, (false, j) = the j-th auxiliary coordinate *)
Record gmref := mkG { g_cc : Z; g_d : option Z; g_co : list (bool * nat) }.
Record ftref := mkF { f_z : nat; f_d : option Z; f_terms : list nat }.

Record field := mkField {
  sizes : list Z;                    (* the data axes, in order *)
  dimc  : list (option citem);       (* per data axis: its dimension coordinate *)
  scal  : list citem;                (* size-1 axes not spanned by the data, each with a dimension coordinate *)
  aux   : list citem;
  anc   : list citem;
  meas  : list citem;
  fanc  : list citem;
  ft    : option ftref;
  gms   : list gmref
}.

Definition size_of (f : field) (a : nat) : Z := nth a (sizes f) 0.
Definition shape_of (f : field) (it : citem) : list Z := map (size_of f) (i_ax it).

Definition comp_of (k : kind) (f : field) (it : citem) : comp :=
  mkC k (i_tok it) (shape_of f it) (i_bt it).

Definition dimcomp (f : field) (a : nat) (it : citem) : comp :=
  mkC KDim (i_tok it) [size_of f a] (i_bt it).

Definition bcomp (c : comp) (b : Z) : comp := mkC KBnd b (cshape c ++ [2]) None.

(* ------------------------------------------------------------ _write_bounds *)
Definition write_bounds (v : nat) (c : comp) (nd : list dimid) (st : wst) : wst :=
  match cbt c with
  | None => st
  | Some b =>
      let bc := bcomp c b in
      let bnd := nd ++ [DBnd 2] in
      match lookup false bc (Some bnd) (seen st) with
      | Some e => set_bnd v (se_v e) (add_seen (mkS bc (se_v e) (se_nd e)) st)
      | None => let '(st1, bv) := new_var bc bnd st in set_bnd v bv st1
      end
  end.

(* scalar / auxiliary coordinates, domain ancillaries, cell measures, field
   ancillaries: reuse an equal variable on the same netCDF dimensions, else
   create it (with its bounds) *)
Definition write_generic (ign : bool) (c : comp) (nd : list dimid) (st : wst) : wst * nat :=
  match lookup ign c (Some nd) (seen st) with
  | Some e => (add_seen (mkS c (se_v e) (se_nd e)) st, se_v e)
  | None => let '(st1, v) := new_var c nd st in (write_bounds v c nd st1, v)
  end.

Definition dim_used (d : dimid) (used : list dimid) : bool := existsb (dimid_eqb d) used.

(* _write_dimension_coordinate: returns the variable and the dimension.
   [used] = the netCDF dimensions of the axes of this field written so far:
   with fx (commit a6b4a67 of /repo, same rule as C09-fix-2 for dimensions
   without coordinate variable) an equal coordinate variable already in the
   file is not reused when its dimension belongs to another axis of this
   field; a new coordinate variable and dimension are created instead. *)
Definition create_dimcoord (c : comp) (st : wst) : wst * nat * dimid :=
  let v := length (vt st) in
  let '(st1, _) := new_var c [DCoord v] st in
  (write_bounds v c [DCoord v] st1, v, DCoord v).

Definition write_dimcoord (fx : bool) (c : comp) (used : list dimid) (st : wst) : wst * nat * dimid :=
  match lookup false c None (seen st) with
  | Some e =>
      let d := hd (DFree 0) (se_nd e) in
      if fx && dim_used d used then create_dimcoord c st
      else (add_seen (mkS c (se_v e) (se_nd e)) st, se_v e, d)
  | None => create_dimcoord c st
  end.

(* ---------------------------------------- axes without dimension coordinate *)
Fixpoint index_of (a : nat) (l : list nat) (i : nat) : option nat :=
  match l with
  | [] => None
  | x :: r => if Nat.eqb x a then Some i else index_of a r (S i)
  end.

Definition spanning_of (k : kind) (f : field) (a : nat) (l : list citem) : list (comp * nat) :=
  flat_map (fun it => match index_of a (i_ax it) 0 with
                      | Some i => [(comp_of k f it, i)]
                      | None => [] end) l.

(* get_constructs(f, axes=[axis]) with the position of the axis *)
Definition spanning (f : field) (a : nat) : list (comp * nat) :=
  spanning_of KAux f a (aux f) ++ spanning_of KAnc f a (anc f) ++
  spanning_of KMeas f a (meas f) ++ spanning_of KFAnc f a (fanc f).

Definition matched (s0 s1 : list (comp * nat)) : bool :=
  existsb (fun x => existsb (fun y => Nat.eqb (snd x) (snd y) && eq_comp false (fst x) (fst y)) s1) s0.

(* the loop over g['ncdim_size_to_spanning_constructs'] *)
Definition reuse_free (fx : bool) (size : Z) (sp : list (comp * nat)) (used : list dimid)
           (l : list fdentry) : option nat :=
  match find (fun e => (fd_size e =? size) && matched sp (fd_cons e) &&
                       negb (fx && dim_used (DFree (fd_d e)) used)) l with
  | Some e => Some (fd_d e)
  | None => None
  end.

(* ------------------------------------------------------------ one field *)
Record fout := mkO {
  o_dims : list dimid;               (* netCDF dimension of every data axis *)
  o_dim  : list (option nat);        (* variable of every axis' dimension coordinate *)
  o_scal : list nat;
  o_aux  : list nat;
  o_anc  : list nat;
  o_meas : list nat;
  o_fanc : list nat;
  o_gm   : list (nat * option (list nat))   (* grid_mapping attribute: variable, listed coordinate variables *)
}.

(* the axes loop; [a] counts the axes done, [used] their dimensions,
   [loc] the new entries for ncdim_size_to_spanning_constructs *)
Fixpoint write_axes (fx : bool) (f : field) (dcs : list (option citem)) (a : nat)
         (st : wst) (used : list dimid) (dv : list (option nat)) (loc : list fdentry)
  : wst * list dimid * list (option nat) * list fdentry :=
  match dcs with
  | [] => (st, used, dv, loc)
  | Some it :: r =>
      let '(st1, v, d) := write_dimcoord fx (dimcomp f a it) used st in
      write_axes fx f r (S a) st1 (used ++ [d]) (dv ++ [Some v]) loc
  | None :: r =>
      let sp := spanning f a in
      match (match sp with [] => None | _ => reuse_free fx (size_of f a) sp used (fdims st) end) with
      | Some d => write_axes fx f r (S a) st (used ++ [DFree d]) (dv ++ [None]) loc
      | None =>
          let d := nfree st in
          let st1 := mkW (seen st) (vt st) (bnds st) (fta st) (fdims st) (S d) in
          write_axes fx f r (S a) st1 (used ++ [DFree d]) (dv ++ [None])
                     (loc ++ [mkD d (size_of f a) sp])
      end
  end.

Definition nd_of (dims : list dimid) (it : citem) : list dimid :=
  map (fun a => nth a dims (DFree 0)) (i_ax it).

Fixpoint write_list (ign : bool) (k : kind) (f : field) (dims : list dimid) (l : list citem)
         (st : wst) : wst * list nat :=
  match l with
  | [] => (st, [])
  | it :: r =>
      let '(st1, v) := write_generic ign (comp_of k f it) (nd_of dims it) st in
      let '(st2, vs) := write_list ign k f dims r st1 in
      (st2, v :: vs)
  end.

(* scalar coordinate variables: a squeezed dimension coordinate, no dimensions *)
Fixpoint write_scalars (l : list citem) (st : wst) : wst * list nat :=
  match l with
  | [] => (st, [])
  | it :: r =>
      let '(st1, v) := write_generic false (mkC KDim (i_tok it) [] (i_bt it)) [] st in
      let '(st2, vs) := write_scalars r st1 in
      (st2, v :: vs)
  end.

Definition co_eqb (x y : bool * nat) : bool := Bool.eqb (fst x) (fst y) && Nat.eqb (snd x) (snd y).

(* _create_vertical_datum: the field's list of grid mappings after it *)
Definition cc_latlon : Z := -3.

Definition vertical_datum (fr : ftref) (l : list gmref) : list gmref :=
  match f_d fr with
  | None => l
  | Some d =>
      let same := fun g => option_eqb Z.eqb (Some d) (g_d g) in
      if Nat.eqb (length (filter same l)) 1 then
        (* add the vertical coordinate to that grid mapping (a set: no duplicate) *)
        map (fun g => if same g then
                        if existsb (co_eqb (true, f_z fr)) (g_co g) then g
                        else mkG (g_cc g) (g_d g) (g_co g ++ [(true, f_z fr)])
                      else g) l
      else l ++ [mkG cc_latlon (Some d) [(true, f_z fr)]]
  end.

Definition gm_list (f : field) : list gmref :=
  match ft f with Some fr => vertical_datum fr (gms f) | None => gms f end.

Definition co_var (dv : list (option nat)) (av : list nat) (x : bool * nat) : nat :=
  if fst x then match nth (snd x) dv None with Some v => v | None => 0%nat end
  else nth (snd x) av 0%nat.

(* _write_grid_mapping *)
Definition write_gm (multiple : bool) (dv : list (option nat)) (av : list nat) (g : gmref)
           (st : wst) : wst * (nat * option (list nat)) :=
  let c := mkC KGm (g_cc g) [Z.of_nat (length (g_co g))] (g_d g) in
  let '(st1, v) :=
    match lookup false c None (seen st) with
    | Some e => (add_seen (mkS c (se_v e) (se_nd e)) st, se_v e)
    | None => new_var c [] st
    end in
  (st1, (v, if multiple then Some (map (co_var dv av) (g_co g)) else None)).

Fixpoint write_gms (multiple : bool) (dv : list (option nat)) (av : list nat) (l : list gmref)
         (st : wst) : wst * list (nat * option (list nat)) :=
  match l with
  | [] => (st, [])
  | g :: r =>
      let '(st1, x) := write_gm multiple dv av g st in
      let '(st2, xs) := write_gms multiple dv av r st1 in
      (st2, x :: xs)
  end.

(* the formula_terms attribute is (re)set on the owning coordinate variable *)
Definition write_ft (f : field) (dv : list (option nat)) (ancv : list nat) (st : wst) : wst :=
  match ft f with
  | None => st
  | Some fr =>
      match nth (f_z fr) dv None, f_terms fr with
      | Some owner, _ :: _ =>
          mkW (seen st) (vt st) (bnds st)
              ((owner, map (fun j => nth j ancv 0%nat) (f_terms fr)) :: fta st) (fdims st) (nfree st)
      | _, _ => st
      end
  end.

Definition write_field (fx : bool) (f : field) (st : wst) : wst * fout :=
  let '(st1, dims, dv, loc) := write_axes fx f (dimc f) 0 st [] [] [] in
  let '(st2, sv) := write_scalars (scal f) st1 in
  let '(st3, av) := write_list false KAux f dims (aux f) st2 in
  let '(st4, ancv) := write_list true KAnc f dims (anc f) st3 in
  let '(st5, mv) := write_list false KMeas f dims (meas f) st4 in
  let st6 := write_ft f dv ancv st5 in
  let gl := gm_list f in
  let '(st7, gv) := write_gms (Nat.ltb 1 (length gl)) dv av gl st6 in
  let '(st8, fv) := write_list false KFAnc f dims (fanc f) st7 in
  (mkW (seen st8) (vt st8) (bnds st8) (fta st8) (fdims st8 ++ loc) (nfree st8),
   mkO dims dv sv av ancv mv fv gv).

Fixpoint write_fields (fx : bool) (fs : list field) (st : wst) : wst * list fout :=
  match fs with
  | [] => (st, [])
  | f :: r =>
      let '(st1, o) := write_field fx f st in
      let '(st2, os) := write_fields fx r st1 in
      (st2, o :: os)
  end.

(* ================================================================ reading *)
(* what the file says about one data variable, with variable ids resolved to
   the content they hold: (kind by role, token, bounds token, shape, axes) *)
Definition vtok (st : wst) (v : nat) : Z :=
  match nth_error (vt st) v with Some e => ctok (ve_c e) | None => -1 end.
Definition vshape (st : wst) (v : nat) : list Z :=
  match nth_error (vt st) v with Some e => cshape (ve_c e) | None => [] end.
Definition vnd (st : wst) (v : nat) : list dimid :=
  match nth_error (vt st) v with Some e => ve_nd e | None => [] end.
Definition vbnd (st : wst) (v : nat) : Z :=
  match find (fun p => Nat.eqb (fst p) v) (bnds st) with
  | Some p => vtok st (snd p)
  | None => -1
  end.
Definition vfta (st : wst) (v : nat) : option (list nat) :=
  match find (fun p => Nat.eqb (fst p) v) (fta st) with
  | Some p => Some (snd p)
  | None => None
  end.

(* a construct as the reader sees it: role, token, bounds token, shape *)
Definition rcons := (nat * Z * Z * list Z)%type.
Definition role_dim := 0%nat.
Definition role_aux := 2%nat.
Definition role_anc := 3%nat.
Definition role_meas := 4%nat.
Definition role_fanc := 5%nat.

Definition rc (st : wst) (role : nat) (v : nat) : rcons := (role, vtok st v, vbnd st v, vshape st v).

(* construct keys of the reader: dimension coordinates are numbered in the
   order of the data variable's dimensions, then scalar coordinate variables;
   auxiliary coordinates separately *)
Inductive key := KD (n : nat) | KA (n : nat).
Definition key_eqb (a b : key) : bool :=
  match a, b with KD x, KD y | KA x, KA y => Nat.eqb x y | _, _ => false end.

Fixpoint dim_keys (dv : list (option nat)) (n : nat) : list (option (nat * key)) :=
  match dv with
  | [] => []
  | Some v :: r => Some (v, KD n) :: dim_keys r (S n)
  | None :: r => None :: dim_keys r n
  end.

Definition key_of_var (dk : list (option (nat * key))) (av : list nat) (v : nat) : option key :=
  match find (fun x => match x with Some (w, _) => Nat.eqb w v | None => false end) dk with
  | Some (Some (_, k)) => Some k
  | _ => match index_of v av 0 with Some j => Some (KA j) | None => None end
  end.

(* file-level description of one data variable *)
Record ffield := mkFF {
  ff_cons : list rcons;
  ff_vcr  : list (key * Z * list Z);                 (* owner key, owner token, term tokens *)
  ff_gms  : list (Z * option Z * option (list (key * Z)))   (* cc, datum, listed coordinates *)
}.

Definition somes {A} (l : list (option A)) : list A :=
  flat_map (fun x => match x with Some a => [a] | None => [] end) l.

Definition file_view (st : wst) (o : fout) : ffield :=
  let dk := dim_keys (o_dim o) 0 in
  let dvs := somes (o_dim o) in
  (* domain ancillaries exist for the reader only through formula_terms *)
  let vcrs := flat_map (fun x => match x with
                | Some (v, k) => match vfta st v with
                                 | Some ts => [(k, vtok st v, ts)]
                                 | None => [] end
                | None => [] end) dk in
  (* a scalar coordinate variable is read as a dimension coordinate of a new size-1 axis *)
  mkFF (map (rc st role_dim) dvs ++
        map (fun v => (role_dim, vtok st v, vbnd st v, [1])) (o_scal o) ++
        map (rc st role_aux) (o_aux o) ++
        flat_map (fun x => map (rc st role_anc) (snd x)) vcrs ++
        map (rc st role_meas) (o_meas o) ++ map (rc st role_fanc) (o_fanc o))
       (map (fun x => (fst (fst x), snd (fst x), map (vtok st) (snd x))) vcrs)
       (map (fun g => (vtok st (fst g), match nth_error (vt st) (fst g) with
                                        | Some e => cbt (ve_c e) | None => None end,
                       match snd g with
                       | None => None
                       | Some vs => Some (flat_map (fun v => match key_of_var dk (o_aux o) v with
                                                             | Some k => [(k, vtok st v)]
                                                             | None => [] end) vs)
                       end)) (o_gm o)).

(* the reader's state across data variables: read_vars['vertical_crs'] maps a
   construct key to a vertical coordinate reference (here: the index of the
   field that owns it); [dat] records every set_datum on such a reference,
   newest first *)
Record rst := mkR { vcrs : list (key * nat); dat : list (nat * key * option Z) }.

Fixpoint set_key (k : key) (i : nat) (l : list (key * nat)) : list (key * nat) :=
  match l with
  | [] => [(k, i)]
  | (k', j) :: r => if key_eqb k k' then (k, i) :: r else (k', j) :: set_key k i r
  end.

(* a grid mapping as read: cc, datum, coordinate tokens *)
Definition rgm := (Z * option Z * list Z)%type.

(* one element of the parsed grid_mapping attribute *)
Definition read_gm (g : Z * option Z * option (list (key * Z))) (s : rst) : rst * list rgm :=
  let '(cc, d, co) := g in
  match co with
  | None =>
      (* no coordinates listed: the datum goes to every registered vertical reference *)
      (mkR (vcrs s) (map (fun x => (snd x, fst x, d)) (vcrs s) ++ dat s), [(cc, d, [])])
  | Some l =>
      let hit := filter (fun x => existsb (fun c => key_eqb (fst c) (fst x)) l) (vcrs s) in
      let l' := filter (fun c => negb (existsb (fun x => key_eqb (fst c) (fst x)) (vcrs s))) l in
      (mkR (vcrs s) (map (fun x => (snd x, fst x, d)) hit ++ dat s),
       match hit, l' with
       | _ :: _, [] => []               (* create_new = bool(coordinates) *)
       | _, _ => [(cc, d, map snd l')]
       end)
  end.

Fixpoint read_gms (l : list (Z * option Z * option (list (key * Z)))) (s : rst) : rst * list rgm :=
  match l with
  | [] => (s, [])
  | g :: r => let '(s1, x) := read_gm g s in
              let '(s2, xs) := read_gms r s1 in (s2, x ++ xs)
  end.

(* per field: constructs, its vertical references (key, owner token, terms), grid mappings *)
Record rfield0 := mkRF0 { r0_cons : list rcons; r0_vcr : list (key * Z * list Z); r0_gms : list rgm }.

Definition read_field (reset : bool) (i : nat) (ff : ffield) (s : rst) : rst * rfield0 :=
  let s0 := if reset then mkR [] (dat s) else s in
  let s1 := mkR (fold_left (fun acc x => set_key (fst (fst x)) i acc) (ff_vcr ff) (vcrs s0)) (dat s0) in
  let '(s2, gl) := read_gms (ff_gms ff) s1 in
  (s2, mkRF0 (ff_cons ff) (ff_vcr ff) gl).

Fixpoint read_fields (reset : bool) (i : nat) (l : list ffield) (s : rst) : rst * list rfield0 :=
  match l with
  | [] => (s, [])
  | ff :: r => let '(s1, x) := read_field reset i ff s in
               let '(s2, xs) := read_fields reset (S i) r s1 in (s2, x :: xs)
  end.

(* final datum of the vertical reference (i, k): the newest set_datum *)
Definition final_datum (s : rst) (i : nat) (k : key) : option Z :=
  match find (fun x => Nat.eqb (fst (fst x)) i && key_eqb (snd (fst x)) k) (dat s) with
  | Some x => snd x
  | None => None
  end.

(* a field as read back: constructs; vertical references as (datum, owner
   token, term tokens); grid mappings *)
Record rfield := mkRF { r_cons : list rcons; r_vcr : list (option Z * Z * list Z); r_gms : list rgm }.

Definition finish (s : rst) (i : nat) (x : rfield0) : rfield :=
  mkRF (r0_cons x)
       (map (fun v => (final_datum s i (fst (fst v)), snd (fst v), snd v)) (r0_vcr x))
       (r0_gms x).

Fixpoint finish_all (s : rst) (i : nat) (l : list rfield0) : list rfield :=
  match l with
  | [] => []
  | x :: r => finish s i x :: finish_all s (S i) r
  end.

Definition read_views (reset : bool) (l : list ffield) : list rfield :=
  let '(s, xs) := read_fields reset 0 l (mkR [] []) in finish_all s 0 xs.

(* write the fields to one file and read it back *)
Definition roundtrip (fx reset : bool) (fs : list field) : list rfield :=
  let '(st, os) := write_fields fx fs st0 in
  read_views reset (map (file_view st) os).

(* ------------------------------------------------------------------ guard *)
(* Do two fields of the list hold the same dimension-coordinate variable while
   wanting different formula_terms attributes on it (one of them possibly
   none)?  F09d / F09e; also used by the harness to classify failures. *)
Definition owner_terms (o : fout) (f : field) : list (nat * option (list nat)) :=
  (* every dimension-coordinate variable of the field with the terms this field wants on it *)
  flat_map (fun x => match x with
     | (a, Some v) =>
         [(v, match ft f with
              | Some fr => if Nat.eqb (f_z fr) a then
                             match f_terms fr with
                             | [] => None
                             | _ => Some (map (fun j => nth j (o_anc o) 0%nat) (f_terms fr))
                             end
                           else None
              | None => None end)]
     | (_, None) => [] end)
    (combine (seq 0 (length (o_dim o))) (o_dim o)).

Definition ft_conflict (fx : bool) (fs : list field) : bool :=
  let '(st, os) := write_fields fx fs st0 in
  let all := concat (map (fun p => owner_terms (fst p) (snd p)) (combine os fs)) in
  existsb (fun x => existsb (fun y => Nat.eqb (fst x) (fst y) &&
                                      negb (option_eqb (list_eqb Nat.eqb) (snd x) (snd y))) all) all.

(* ================================================================ compression variables *)
(* A field may be stored compressed: by gathering (a list variable, whose
   compress attribute names the netCDF dimensions of the compressed axes), as a
   contiguous ragged array (a count variable spanning the instance dimension)
   or as an indexed ragged array (an index variable whose instance_dimension
   attribute names the instance dimension).  The writer reuses an equal list /
   count / index variable of an earlier field (_write_list_variable,
   _write_count_variable, _write_index_variable).  What such a variable MEANS
   is the list of netCDF dimensions it refers to; in the model the nd column
   of a compression variable holds exactly that list (for a count variable it
   is its real dimension, for a list / index variable the dimensions named by
   its compress / instance_dimension attribute, their own dimension being
   private to them).

     lx = true  : an equal variable is reused only when it refers to the same
                  dimensions   (handoff/C09-fix3-1,2,3.diff)
     lx = false : the code before: any equal variable is reused. *)
Inductive cspec :=
| CGath (t : Z) (p n : nat)     (* list variable token; the n data axes from position p are gathered *)
| CCont (t : Z)                 (* count variable token; axis 0 = instances *)
| CIdx (t : Z).                 (* index variable token; axis 0 = instances *)

Record cfield := mkCF { cf_f : field; cf_c : option cspec }.

Definition ccomp (cs : cspec) : comp :=
  match cs with
  | CGath t _ _ => mkC KList t [] None
  | CCont t => mkC KCount t [] None
  | CIdx t => mkC KIndex t [] None
  end.

Definition meaning (cs : cspec) (dims : list dimid) : list dimid :=
  match cs with
  | CGath _ p n => firstn n (skipn p dims)
  | CCont _ | CIdx _ => firstn 1 dims
  end.

Definition write_cvar (lx : bool) (c : comp) (m : list dimid) (st : wst) : wst * nat :=
  match lookup false c (if lx then Some m else None) (seen st) with
  | Some e => (add_seen (mkS c (se_v e) (se_nd e)) st, se_v e)
  | None => new_var c m st
  end.

Definition write_cfield (lx : bool) (cf : cfield) (st : wst) : wst * (fout * option nat) :=
  let '(st1, o) := write_field true (cf_f cf) st in
  match cf_c cf with
  | None => (st1, (o, None))
  | Some cs => let '(st2, v) := write_cvar lx (ccomp cs) (meaning cs (o_dims o)) st1 in (st2, (o, Some v))
  end.

Fixpoint write_cfields (lx : bool) (cfs : list cfield) (st : wst) : wst * list (fout * option nat) :=
  match cfs with
  | [] => (st, [])
  | cf :: r =>
      let '(st1, o) := write_cfield lx cf st in
      let '(st2, os) := write_cfields lx r st1 in
      (st2, o :: os)
  end.

(* the dimensions a compression variable of the file refers to *)
Definition cvar_meaning (st : wst) (v : nat) : list dimid := vnd st v.

(* ================================================================ per-field writer state *)
(* g['sample_ncdim'] maps the netCDF dimensions that are compressed to the
   sample dimension (for gathering: the list variable) already written for
   them.  It is consulted by _netcdf_dimensions for every metadata construct
   whose own data are compressed: when the entry exists the construct is
   written on that sample dimension and its own list variable is NOT written;
   otherwise the list variable is written (_write_list_variable) and entered.
   The mapping is PER FIELD: _write_field_or_domain starts with an empty one
   (as it does for axis_to_ncdim, key_to_ncvar, ...), whereas 'seen', the
   spanning-construct table and the count / index tables live per file.

     rs = true  : reset at the start of every field (the code)
     rs = false : initialised once per file, carried over (refuted variant). *)
Record gitem := mkGI { gi_t : Z; gi_p : nat; gi_n : nat }.   (* list token; the construct spans the n axes from p, gathered *)
Record cfield2 := mkCF2 { c2_f : cfield; c2_g : list gitem }.

Definition smap := list (list dimid * nat).

Definition sm_get (m : list dimid) (s : smap) : option nat :=
  match find (fun e => dims_eqb m (fst e)) s with Some e => Some (snd e) | None => None end.

Definition gdims (p n : nat) (dims : list dimid) : list dimid := firstn n (skipn p dims).

Fixpoint write_gitems (dims : list dimid) (l : list gitem) (st : wst) (s : smap) : wst * smap * list nat :=
  match l with
  | [] => (st, s, [])
  | it :: r =>
      let m := gdims (gi_p it) (gi_n it) dims in
      match sm_get m s with
      | Some v => let '(st2, s2, vs) := write_gitems dims r st s in (st2, s2, v :: vs)
      | None =>
          let '(st1, v) := write_cvar true (mkC KList (gi_t it) [] None) m st in
          let '(st2, s2, vs) := write_gitems dims r st1 ((m, v) :: s) in (st2, s2, v :: vs)
      end
  end.

Definition write_cfield2 (rs : bool) (cf : cfield2) (st : wst) (s : smap)
  : wst * smap * (fout * option nat * list nat) :=
  let s0 := if rs then [] else s in
  let '(st1, (o, ov)) := write_cfield true (c2_f cf) st in
  let s1 := match cf_c (c2_f cf), ov with
            | Some (CGath t p n), Some v => (gdims p n (o_dims o), v) :: s0
            | _, _ => s0
            end in
  let '(st2, s2, vs) := write_gitems (o_dims o) (c2_g cf) st1 s1 in
  (st2, s2, (o, ov, vs)).

Fixpoint write_cfields2 (rs : bool) (cfs : list cfield2) (st : wst) (s : smap)
  : wst * smap * list (fout * option nat * list nat) :=
  match cfs with
  | [] => (st, s, [])
  | cf :: r =>
      let '(st1, s1, x) := write_cfield2 rs cf st s in
      let '(st2, s2, xs) := write_cfields2 rs r st1 s1 in
      (st2, s2, x :: xs)
  end.
