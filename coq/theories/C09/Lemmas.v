(* C09 - proofs about the sharing model. *)
From Coq Require Import Permutation.
From CfdmV Require Import Common.Base C09.Model.
Open Scope Z_scope.

Ltac splits := repeat match goal with |- _ /\ _ => split end.

(* ------------------------------------------------------------ equalities *)
Lemma optz_eqb_eq : forall a b : option Z, option_eqb Z.eqb a b = true <-> a = b.
Proof.
  intros [x|] [y|]; simpl; split; intro H; try discriminate; try reflexivity.
  - apply Z.eqb_eq in H. congruence.
  - inversion H. apply Z.eqb_refl.
Qed.

Lemma zlist_eqb_eq : forall a b : list Z, list_eqb Z.eqb a b = true <-> a = b.
Proof. apply list_eqb_eq. intros; apply Z.eqb_eq. Qed.

Lemma eq_content_iff : forall a b,
  eq_content a b = true <-> ctok a = ctok b /\ cshape a = cshape b /\ cbt a = cbt b.
Proof.
  intros a b. unfold eq_content. rewrite !andb_true_iff, Z.eqb_eq, zlist_eqb_eq, optz_eqb_eq. tauto.
Qed.

Lemma eq_content_refl : forall a, eq_content a a = true.
Proof. intro a. apply eq_content_iff. auto. Qed.

Lemma eq_content_sym : forall a b, eq_content a b = true -> eq_content b a = true.
Proof. intros a b H. apply eq_content_iff in H. apply eq_content_iff. intuition congruence. Qed.

Lemma eq_content_trans : forall a b c,
  eq_content a b = true -> eq_content b c = true -> eq_content a c = true.
Proof.
  intros a b c H1 H2. apply eq_content_iff in H1. apply eq_content_iff in H2.
  apply eq_content_iff. intuition congruence.
Qed.

Lemma kind_eqb_eq : forall a b, kind_eqb a b = true <-> a = b.
Proof. intros [] []; simpl; split; intro H; try discriminate; reflexivity. Qed.

Lemma eq_comp_content : forall ign a b, eq_comp ign a b = true -> eq_content a b = true.
Proof. intros ign a b H. unfold eq_comp in H. apply andb_true_iff in H. tauto. Qed.

Lemma eq_comp_kind : forall a b, eq_comp false a b = true -> ck a = ck b.
Proof.
  intros a b H. unfold eq_comp in H. apply andb_true_iff in H as [H _]. simpl in H.
  apply kind_eqb_eq. exact H.
Qed.

Lemma dimid_eqb_eq : forall a b, dimid_eqb a b = true <-> a = b.
Proof.
  intros [x|x|x] [y|y|y]; simpl; split; intro H; try discriminate;
    try (apply Nat.eqb_eq in H; congruence); try (apply Z.eqb_eq in H; congruence);
    inversion H; subst; try apply Nat.eqb_refl; apply Z.eqb_refl.
Qed.

Lemma dims_eqb_eq : forall a b, dims_eqb a b = true <-> a = b.
Proof. apply list_eqb_eq. apply dimid_eqb_eq. Qed.

(* ------------------------------------------------------------ the invariant *)
(* variable [v] of the file holds content equal to [c] on dimensions [nd];
   its construct type is that of [c] unless [c] is a domain ancillary (which
   the writer lets share a variable of any type) *)
Definition holds (vtab : list ventry) (v : nat) (c : comp) (nd : list dimid) : Prop :=
  exists ve, nth_error vtab v = Some ve /\ eq_content c (ve_c ve) = true /\ ve_nd ve = nd /\
             (ck c = ck (ve_c ve) \/ ck c = KAnc).

Definition entry_ok (vtab : list ventry) (e : sentry) : Prop := holds vtab (se_v e) (se_c e) (se_nd e).

Definition Inv (st : wst) : Prop := Forall (entry_ok (vt st)) (seen st).

(* [st'] extends [st]: the variable table only grows at the end *)
Definition Ext (st st' : wst) : Prop := exists l, vt st' = vt st ++ l.

Lemma Ext_refl : forall st, Ext st st.
Proof. intro st. exists []. rewrite app_nil_r. reflexivity. Qed.

Lemma Ext_trans : forall a b c, Ext a b -> Ext b c -> Ext a c.
Proof. intros a b c [l1 H1] [l2 H2]. exists (l1 ++ l2). rewrite H2, H1, app_assoc. reflexivity. Qed.

Lemma holds_app : forall vtab l v c nd, holds vtab v c nd -> holds (vtab ++ l) v c nd.
Proof.
  intros vtab l v c nd (ve & H1 & H2). exists ve. split; [|exact H2].
  rewrite nth_error_app1; [exact H1|]. apply nth_error_Some. congruence.
Qed.

Lemma holds_ext : forall st st' v c nd, Ext st st' -> holds (vt st) v c nd -> holds (vt st') v c nd.
Proof. intros st st' v c nd [l E] H. rewrite E. apply holds_app. exact H. Qed.

Lemma lookup_some : forall ign c q s e,
  lookup ign c q s = Some e -> In e s /\ eq_comp ign c (se_c e) = true /\ nd_ok q (se_nd e) = true.
Proof.
  intros ign c q s e H. unfold lookup in H. apply find_some in H as [H1 H2].
  apply andb_true_iff in H2. tauto.
Qed.

Lemma nok : forall c : comp, false = true -> ck c = KAnc.
Proof. discriminate. Qed.
Lemma nokk : forall k : kind, false = true -> k = KAnc.
Proof. discriminate. Qed.

(* registering a construct under the variable of an equal entry *)
Lemma inv_add_found : forall ign c q st e,
  Inv st -> (ign = true -> ck c = KAnc) -> lookup ign c q (seen st) = Some e ->
  Inv (add_seen (mkS c (se_v e) (se_nd e)) st) /\ holds (vt st) (se_v e) c (se_nd e).
Proof.
  intros ign c q st e HI Hk HL. apply lookup_some in HL as (Hin & Heq & _).
  assert (Hh : holds (vt st) (se_v e) c (se_nd e)).
  { unfold Inv in HI. rewrite Forall_forall in HI. destruct (HI e Hin) as (ve & N & C & D & K).
    exists ve. splits; auto.
    - eapply eq_content_trans; [eapply eq_comp_content; exact Heq|exact C].
    - destruct ign.
      + right. auto.
      + apply eq_comp_kind in Heq. rewrite Heq. exact K. }
  split; [|exact Hh]. unfold Inv, add_seen; simpl. apply Forall_app. split; [exact HI|].
  constructor; [|constructor]. exact Hh.
Qed.

Lemma inv_new_var : forall c nd st st' v,
  Inv st -> new_var c nd st = (st', v) ->
  Inv st' /\ Ext st st' /\ holds (vt st') v c nd /\ v = length (vt st) /\
  bnds st' = bnds st /\ fta st' = fta st /\ fdims st' = fdims st /\ nfree st' = nfree st.
Proof.
  intros c nd st st' v HI H. unfold new_var in H. inversion H; subst; clear H. simpl.
  assert (Hh : holds (vt st ++ [mkV c nd]) (length (vt st)) c nd).
  { exists (mkV c nd). splits; simpl; auto.
    - rewrite nth_error_app2 by lia. rewrite Nat.sub_diag. reflexivity.
    - apply eq_content_refl. }
  splits; auto.
  - unfold Inv; simpl. apply Forall_app. split.
    + unfold Inv in HI. eapply Forall_impl; [|exact HI]. intros e He. apply holds_app. exact He.
    + constructor; [|constructor]. exact Hh.
  - exists [mkV c nd]. reflexivity.
Qed.

Lemma inv_set_bnd : forall v bv st, Inv st -> Inv (set_bnd v bv st).
Proof. intros. exact H. Qed.

Lemma inv_write_bounds : forall v c nd st,
  Inv st -> Inv (write_bounds v c nd st) /\ Ext st (write_bounds v c nd st) /\
            fta (write_bounds v c nd st) = fta st /\ fdims (write_bounds v c nd st) = fdims st /\
            nfree (write_bounds v c nd st) = nfree st.
Proof.
  intros v c nd st HI. unfold write_bounds. destruct (cbt c) as [b|].
  2:{ splits; auto. apply Ext_refl. }
  destruct (lookup false (bcomp c b) (Some (nd ++ [DBnd 2])) (seen st)) as [e|] eqn:L.
  - destruct (inv_add_found false _ _ st e HI ltac:(discriminate) L) as [H1 _].
    split; [exact H1|]. split; [exists []; simpl; rewrite app_nil_r; reflexivity|].
    splits; reflexivity.
  - destruct (new_var (bcomp c b) (nd ++ [DBnd 2]) st) as [st1 bv] eqn:N.
    destruct (inv_new_var _ _ _ _ _ HI N) as (H1 & H2 & _ & _ & _ & F & D & NF).
    split; [exact H1|]. split; [destruct H2 as [l E]; exists l; exact E|].
    splits; simpl; assumption.
Qed.

Lemma inv_write_generic : forall ign c nd st st' v,
  Inv st -> (ign = true -> ck c = KAnc) -> write_generic ign c nd st = (st', v) ->
  Inv st' /\ Ext st st' /\ holds (vt st') v c nd /\
  fta st' = fta st /\ fdims st' = fdims st /\ nfree st' = nfree st.
Proof.
  intros ign c nd st st' v HI Hk H. unfold write_generic in H.
  destruct (lookup ign c (Some nd) (seen st)) as [e|] eqn:L.
  - inversion H; subst; clear H.
    destruct (inv_add_found ign c _ st e HI Hk L) as [H1 H2].
    apply lookup_some in L as (_ & _ & Hnd). simpl in Hnd. apply dims_eqb_eq in Hnd.
    splits; auto.
    + exists []. simpl. rewrite app_nil_r. reflexivity.
    + simpl. rewrite Hnd. exact H2.
  - destruct (new_var c nd st) as [st1 v1] eqn:N. inversion H; subst; clear H.
    destruct (inv_new_var _ _ _ _ _ HI N) as (H1 & H2 & H3 & _ & _ & F & D & NF).
    destruct (inv_write_bounds v c nd st1 H1) as (H4 & H5 & F2 & D2 & NF2).
    splits; auto; try congruence.
    + eapply Ext_trans; eauto.
    + eapply holds_ext; eauto.
Qed.

Lemma inv_create_dimcoord : forall c st st' v d,
  Inv st -> create_dimcoord c st = (st', v, d) ->
  Inv st' /\ Ext st st' /\ (exists nd, holds (vt st') v c nd /\ d = hd (DFree 0) nd) /\
  fta st' = fta st /\ fdims st' = fdims st /\ nfree st' = nfree st.
Proof.
  intros c st st' v d HI H. unfold create_dimcoord in H.
  destruct (new_var c [DCoord (length (vt st))] st) as [st1 v1] eqn:N. inversion H; subst; clear H.
  destruct (inv_new_var _ _ _ _ _ HI N) as (H1 & H2 & H3 & Hv & _ & F & D & NF).
  destruct (inv_write_bounds (length (vt st)) c [DCoord (length (vt st))] st1 H1) as (H4 & H5 & F2 & D2 & NF2).
  splits; auto; try congruence.
  + eapply Ext_trans; eauto.
  + exists [DCoord (length (vt st))]. split; [|reflexivity]. subst v1. eapply holds_ext; eauto.
Qed.

Lemma inv_write_dimcoord : forall fx c used st st' v d,
  Inv st -> write_dimcoord fx c used st = (st', v, d) ->
  Inv st' /\ Ext st st' /\ (exists nd, holds (vt st') v c nd /\ d = hd (DFree 0) nd) /\
  fta st' = fta st /\ fdims st' = fdims st /\ nfree st' = nfree st.
Proof.
  intros fx c used st st' v d HI H. unfold write_dimcoord in H.
  destruct (lookup false c None (seen st)) as [e|] eqn:L; [|eapply inv_create_dimcoord; eauto].
  destruct (fx && dim_used (hd (DFree 0) (se_nd e)) used); [eapply inv_create_dimcoord; eauto|].
  inversion H; subst; clear H.
  destruct (inv_add_found false c _ st e HI ltac:(discriminate) L) as [H1 H2].
  splits; auto.
  + exists []. simpl. rewrite app_nil_r. reflexivity.
  + exists (se_nd e). split; [exact H2|reflexivity].
Qed.

(* ------------------------------------------------------------ lists of constructs *)
Lemma inv_write_list : forall ign k f dims l st st' vs,
  Inv st -> (ign = true -> k = KAnc) -> write_list ign k f dims l st = (st', vs) ->
  Inv st' /\ Ext st st' /\
  Forall2 (fun it v => holds (vt st') v (comp_of k f it) (nd_of dims it)) l vs /\
  fta st' = fta st /\ fdims st' = fdims st /\ nfree st' = nfree st.
Proof.
  intros ign k f dims l. induction l as [|it r IH]; intros st st' vs HI Hk H; simpl in H.
  - inversion H; subst. splits; auto. apply Ext_refl.
  - destruct (write_generic ign (comp_of k f it) (nd_of dims it) st) as [st1 v] eqn:G.
    destruct (write_list ign k f dims r st1) as [st2 vs'] eqn:W. inversion H; subst; clear H.
    destruct (inv_write_generic ign (comp_of k f it) (nd_of dims it) st st1 v HI (fun e => Hk e) G) as (H1 & H2 & H3 & F & D & NF).
    destruct (IH _ _ _ H1 Hk W) as (H4 & H5 & H6 & F2 & D2 & NF2).
    splits; auto; try congruence.
    + eapply Ext_trans; eauto.
    + constructor; [|exact H6]. eapply holds_ext; eauto.
Qed.

Lemma inv_write_scalars : forall l st st' vs,
  Inv st -> write_scalars l st = (st', vs) ->
  Inv st' /\ Ext st st' /\
  Forall2 (fun it v => holds (vt st') v (mkC KDim (i_tok it) [] (i_bt it)) []) l vs /\
  fta st' = fta st /\ fdims st' = fdims st /\ nfree st' = nfree st.
Proof.
  induction l as [|it r IH]; intros st st' vs HI H; simpl in H.
  - inversion H; subst. splits; auto. apply Ext_refl.
  - destruct (write_generic false (mkC KDim (i_tok it) [] (i_bt it)) [] st) as [st1 v] eqn:G.
    destruct (write_scalars r st1) as [st2 vs'] eqn:W. inversion H; subst; clear H.
    destruct (inv_write_generic _ _ _ _ _ _ HI (nok _) G) as (H1 & H2 & H3 & F & D & NF).
    destruct (IH _ _ _ H1 W) as (H4 & H5 & H6 & F2 & D2 & NF2).
    splits; auto; try congruence.
    + eapply Ext_trans; eauto.
    + constructor; [|exact H6]. eapply holds_ext; eauto.
Qed.

Definition gmcomp (g : gmref) : comp := mkC KGm (g_cc g) [Z.of_nat (length (g_co g))] (g_d g).

Lemma inv_write_gms : forall m dv av l st st' xs,
  Inv st -> write_gms m dv av l st = (st', xs) ->
  Inv st' /\ Ext st st' /\
  Forall2 (fun g x => exists nd, holds (vt st') (fst x) (gmcomp g) nd) l xs /\
  fta st' = fta st /\ fdims st' = fdims st /\ nfree st' = nfree st.
Proof.
  intros m dv av. induction l as [|g r IH]; intros st st' xs HI H; simpl in H.
  - inversion H; subst. splits; auto. apply Ext_refl.
  - destruct (write_gm m dv av g st) as [st1 x] eqn:G.
    destruct (write_gms m dv av r st1) as [st2 xs'] eqn:W. inversion H; subst; clear H.
    unfold write_gm in G. fold (gmcomp g) in G.
    assert (A : Inv st1 /\ Ext st st1 /\ (exists nd, holds (vt st1) (fst x) (gmcomp g) nd) /\
                fta st1 = fta st /\ fdims st1 = fdims st /\ nfree st1 = nfree st).
    { destruct (lookup false (gmcomp g) None (seen st)) as [e|] eqn:L.
      - inversion G; subst; clear G.
        destruct (inv_add_found false _ _ st e HI ltac:(discriminate) L) as [H1 H2].
        splits; auto.
        + exists []. simpl. rewrite app_nil_r. reflexivity.
        + exists (se_nd e). exact H2.
      - destruct (new_var (gmcomp g) [] st) as [st1' v] eqn:N. inversion G; subst; clear G.
        destruct (inv_new_var _ _ _ _ _ HI N) as (H1 & H2 & H3 & _ & _ & F & D & NF).
        splits; auto. exists []. exact H3. }
    destruct A as (H1 & H2 & H3 & F & D & NF).
    destruct (IH _ _ _ H1 W) as (H4 & H5 & H6 & F2 & D2 & NF2).
    splits; auto; try congruence.
    + eapply Ext_trans; eauto.
    + constructor; [|exact H6]. destruct H3 as [nd H3]. exists nd. eapply holds_ext; eauto.
Qed.

(* the axes loop: every dimension coordinate is held by its variable, whose
   (single) dimension is the dimension of the axis *)
Definition dim_ok (vtab : list ventry) (f : field) (a : nat) (oc : option citem) (ov : option nat) (d : dimid) : Prop :=
  match oc, ov with
  | Some it, Some v => exists nd, holds vtab v (dimcomp f a it) nd /\ d = hd (DFree 0) nd
  | None, None => True
  | _, _ => False
  end.

Fixpoint Forall3i {A B C} (P : nat -> A -> B -> C -> Prop) (a : nat) (l1 : list A) (l2 : list B) (l3 : list C) : Prop :=
  match l1, l2, l3 with
  | [], [], [] => True
  | x :: r1, y :: r2, z :: r3 => P a x y z /\ Forall3i P (S a) r1 r2 r3
  | _, _, _ => False
  end.

Lemma Forall3i_impl {A B C} (P Q : nat -> A -> B -> C -> Prop) :
  (forall a x y z, P a x y z -> Q a x y z) ->
  forall l1 a l2 l3, Forall3i P a l1 l2 l3 -> Forall3i Q a l1 l2 l3.
Proof.
  intros H l1. induction l1 as [|x r IH]; intros a [|y r2] [|z r3] F; simpl in *; auto.
  destruct F as [F1 F2]. split; auto.
Qed.

Lemma inv_write_axes : forall fx f dcs a st used dv loc st' used' dv' loc',
  Inv st -> write_axes fx f dcs a st used dv loc = (st', used', dv', loc') ->
  Inv st' /\ Ext st st' /\ fta st' = fta st /\ fdims st' = fdims st /\
  exists ud vd, used' = used ++ ud /\ dv' = dv ++ vd /\
                Forall3i (dim_ok (vt st') f) a dcs vd ud.
Proof.
  intros fx f dcs. induction dcs as [|oc r IH]; intros a st used dv loc st' used' dv' loc' HI H; simpl in H.
  - inversion H; subst. splits; auto; [apply Ext_refl|].
    exists [], []. rewrite !app_nil_r. simpl. auto.
  - destruct oc as [it|].
    + destruct (write_dimcoord fx (dimcomp f a it) used st) as [[st1 v] d] eqn:W.
      destruct (inv_write_dimcoord _ _ _ _ _ _ _ HI W) as (H1 & H2 & H3 & F & D & NF).
      destruct (IH _ _ _ _ _ _ _ _ _ H1 H) as (H4 & H5 & F2 & D2 & ud & vd & E1 & E2 & H6).
      splits; auto; try congruence; [eapply Ext_trans; eauto|].
      exists (d :: ud), (Some v :: vd). rewrite E1, E2, <- !app_assoc. simpl. splits; auto.
      destruct H3 as (nd & Hh & Hd). exists nd. split; [|exact Hd]. eapply holds_ext; eauto.
    + destruct (match spanning f a with
                | [] => None
                | _ :: _ => reuse_free fx (size_of f a) (spanning f a) used (fdims st)
                end) as [d|] eqn:R.
      * destruct (IH _ _ _ _ _ _ _ _ _ HI H) as (H4 & H5 & F2 & D2 & ud & vd & E1 & E2 & H6).
        splits; auto.
        exists (DFree d :: ud), (None :: vd). rewrite E1, E2, <- !app_assoc. simpl. auto.
      * set (st1 := mkW (seen st) (vt st) (bnds st) (fta st) (fdims st) (S (nfree st))) in H.
        assert (HI1 : Inv st1) by exact HI.
        destruct (IH _ _ _ _ _ _ _ _ _ HI1 H) as (H4 & H5 & F2 & D2 & ud & vd & E1 & E2 & H6).
        splits; auto.
        exists (DFree (nfree st) :: ud), (None :: vd). rewrite E1, E2, <- !app_assoc. simpl. auto.
Qed.

Lemma inv_write_ft : forall f dv ancv st, Inv st -> Inv (write_ft f dv ancv st) /\ Ext st (write_ft f dv ancv st).
Proof.
  intros f dv ancv st HI. unfold write_ft. destruct (ft f) as [fr|]; [|split; [exact HI|apply Ext_refl]].
  destruct (nth (f_z fr) dv None); [|split; [exact HI|apply Ext_refl]].
  destruct (f_terms fr); (split; [exact HI|]); try apply Ext_refl.
  exists []. simpl. rewrite app_nil_r. reflexivity.
Qed.

(* what one written field is promised about the final variable table *)
Record field_ok (vtab : list ventry) (f : field) (o : fout) : Prop := mkFOK {
  fo_dims : Forall3i (dim_ok vtab f) 0 (dimc f) (o_dim o) (o_dims o);
  fo_scal : Forall2 (fun it v => holds vtab v (mkC KDim (i_tok it) [] (i_bt it)) []) (scal f) (o_scal o);
  fo_aux  : Forall2 (fun it v => holds vtab v (comp_of KAux f it) (nd_of (o_dims o) it)) (aux f) (o_aux o);
  fo_anc  : Forall2 (fun it v => holds vtab v (comp_of KAnc f it) (nd_of (o_dims o) it)) (anc f) (o_anc o);
  fo_meas : Forall2 (fun it v => holds vtab v (comp_of KMeas f it) (nd_of (o_dims o) it)) (meas f) (o_meas o);
  fo_fanc : Forall2 (fun it v => holds vtab v (comp_of KFAnc f it) (nd_of (o_dims o) it)) (fanc f) (o_fanc o);
  fo_gm   : Forall2 (fun g x => exists nd, holds vtab (fst x) (gmcomp g) nd) (gm_list f) (o_gm o)
}.

Lemma Forall2_holds_ext {A} (P : A -> comp) (Q : A -> list dimid) : forall st st' l vs,
  Ext st st' -> Forall2 (fun it v => holds (vt st) v (P it) (Q it)) l vs ->
  Forall2 (fun it v => holds (vt st') v (P it) (Q it)) l vs.
Proof.
  intros st st' l vs E H. induction H; constructor; auto. eapply holds_ext; eauto.
Qed.

Lemma field_ok_ext : forall st st' f o, Ext st st' -> field_ok (vt st) f o -> field_ok (vt st') f o.
Proof.
  intros st st' f o E [H1 H2 H3 H4 H5 H6 H7]. constructor.
  - eapply Forall3i_impl; [|exact H1]. intros a [it|] [v|] d; simpl; auto.
    intros (nd & Hh & Hd). exists nd. split; auto. eapply holds_ext; eauto.
  - eapply (Forall2_holds_ext (fun it => mkC KDim (i_tok it) [] (i_bt it)) (fun _ => [])); eauto.
  - eapply (Forall2_holds_ext (comp_of KAux f) (nd_of (o_dims o))); eauto.
  - eapply (Forall2_holds_ext (comp_of KAnc f) (nd_of (o_dims o))); eauto.
  - eapply (Forall2_holds_ext (comp_of KMeas f) (nd_of (o_dims o))); eauto.
  - eapply (Forall2_holds_ext (comp_of KFAnc f) (nd_of (o_dims o))); eauto.
  - clear - E H7. induction H7; constructor; auto. destruct H as [nd H]. exists nd. eapply holds_ext; eauto.
Qed.

Lemma inv_write_field : forall fx f st st' o,
  Inv st -> write_field fx f st = (st', o) -> Inv st' /\ Ext st st' /\ field_ok (vt st') f o.
Proof.
  intros fx f st st' o HI H. unfold write_field in H.
  destruct (write_axes fx f (dimc f) 0 st [] [] []) as [[[st1 dims] dv] loc] eqn:A.
  destruct (write_scalars (scal f) st1) as [st2 sv] eqn:S.
  destruct (write_list false KAux f dims (aux f) st2) as [st3 av] eqn:X.
  destruct (write_list true KAnc f dims (anc f) st3) as [st4 ancv] eqn:N.
  destruct (write_list false KMeas f dims (meas f) st4) as [st5 mv] eqn:M.
  destruct (write_gms (Nat.ltb 1 (length (gm_list f))) dv av (gm_list f) (write_ft f dv ancv st5)) as [st7 gv] eqn:G.
  destruct (write_list false KFAnc f dims (fanc f) st7) as [st8 fv] eqn:FA.
  inversion H; subst; clear H.
  destruct (inv_write_axes _ _ _ _ _ _ _ _ _ _ _ _ HI A) as (I1 & E1 & _ & _ & ud & vd & U & V & D1).
  simpl in U, V. subst dims dv.
  destruct (inv_write_scalars _ _ _ _ I1 S) as (I2 & E2 & D2 & _).
  destruct (inv_write_list _ _ _ _ _ _ _ _ I2 (nokk _) X) as (I3 & E3 & D3 & _).
  destruct (inv_write_list _ _ _ _ _ _ _ _ I3 (fun _ => eq_refl) N) as (I4 & E4 & D4 & _).
  destruct (inv_write_list _ _ _ _ _ _ _ _ I4 (nokk _) M) as (I5 & E5 & D5 & _).
  destruct (inv_write_ft f vd ancv st5 I5) as (I6 & E6).
  destruct (inv_write_gms _ _ _ _ _ _ _ I6 G) as (I7 & E7 & D7 & _).
  destruct (inv_write_list _ _ _ _ _ _ _ _ I7 (nokk _) FA) as (I8 & E8 & D8 & _).
  assert (X12 : Ext st1 st8) by (repeat (eapply Ext_trans; [eassumption|]); apply Ext_refl).
  assert (X28 : Ext st2 st8) by (repeat (eapply Ext_trans; [eassumption|]); apply Ext_refl).
  assert (X38 : Ext st3 st8) by (repeat (eapply Ext_trans; [eassumption|]); apply Ext_refl).
  assert (X48 : Ext st4 st8) by (repeat (eapply Ext_trans; [eassumption|]); apply Ext_refl).
  assert (X58 : Ext st5 st8) by (repeat (eapply Ext_trans; [eassumption|]); apply Ext_refl).
  splits.
  - exact I8.
  - simpl. destruct E1 as [l1 E1]. destruct X12 as [l2 X12]. exists (l1 ++ l2).
    simpl. rewrite X12, E1, app_assoc. reflexivity.
  - simpl. constructor; simpl.
    + eapply Forall3i_impl; [|exact D1]. intros a [it|] [v|] d; simpl; auto.
      intros (nd & Hh & Hd). exists nd. split; auto. apply (holds_ext st1 st8); assumption.
    + apply (Forall2_holds_ext (fun it => mkC KDim (i_tok it) [] (i_bt it)) (fun _ => []) st2 st8); assumption.
    + apply (Forall2_holds_ext (comp_of KAux f) (nd_of ud) st3 st8); assumption.
    + apply (Forall2_holds_ext (comp_of KAnc f) (nd_of ud) st4 st8); assumption.
    + apply (Forall2_holds_ext (comp_of KMeas f) (nd_of ud) st5 st8); assumption.
    + exact D8.
    + clear - E8 D7. induction D7; constructor; auto. destruct H as [nd H]. exists nd.
      apply (holds_ext st7 st8); assumption.
Qed.

Lemma inv_write_fields : forall fx fs st st' os,
  Inv st -> write_fields fx fs st = (st', os) ->
  Inv st' /\ Ext st st' /\ Forall2 (field_ok (vt st')) fs os.
Proof.
  intros fx fs. induction fs as [|f r IH]; intros st st' os HI H; simpl in H.
  - inversion H; subst. splits; auto. apply Ext_refl.
  - destruct (write_field fx f st) as [st1 o] eqn:W.
    destruct (write_fields fx r st1) as [st2 os'] eqn:R. inversion H; subst; clear H.
    destruct (inv_write_field _ _ _ _ _ HI W) as (H1 & H2 & H3).
    destruct (IH _ _ _ H1 R) as (H4 & H5 & H6).
    splits; auto.
    + eapply Ext_trans; eauto.
    + constructor; [|exact H6]. eapply field_ok_ext; eauto.
Qed.

Lemma Inv_st0 : Inv st0.
Proof. constructor. Qed.

(* ================================================================ theorems *)
(* Two registered constructs that ended up in one netCDF variable have equal
   content on equal dimensions, and equal types unless one is a domain
   ancillary. *)
Lemma share_only_if_equal : forall fx fs st os,
  write_fields fx fs st0 = (st, os) ->
  forall e1 e2, In e1 (seen st) -> In e2 (seen st) -> se_v e1 = se_v e2 ->
    eq_content (se_c e1) (se_c e2) = true /\ se_nd e1 = se_nd e2 /\
    (ck (se_c e1) = ck (se_c e2) \/ ck (se_c e1) = KAnc \/ ck (se_c e2) = KAnc).
Proof.
  intros fx fs st os H e1 e2 I1 I2 E.
  destruct (inv_write_fields _ _ _ _ _ Inv_st0 H) as (HI & _ & _).
  unfold Inv in HI. rewrite Forall_forall in HI.
  destruct (HI e1 I1) as (v1 & N1 & C1 & D1 & K1). destruct (HI e2 I2) as (v2 & N2 & C2 & D2 & K2).
  rewrite E in N1. rewrite N1 in N2. inversion N2; subst v2. splits.
  - eapply eq_content_trans; [exact C1|apply eq_content_sym; exact C2].
  - congruence.
  - destruct K1 as [K1|K1]; destruct K2 as [K2|K2]; auto. left. congruence.
Qed.

(* Whatever else is in the list, and in whatever order, every construct of
   every field is held by a variable with equal content, on exactly the
   netCDF dimensions of the field's own axes. *)
Lemma content_preserved : forall fx fs st os,
  write_fields fx fs st0 = (st, os) -> Forall2 (field_ok (vt st)) fs os.
Proof.
  intros fx fs st os H. destruct (inv_write_fields _ _ _ _ _ Inv_st0 H) as (_ & _ & H3). exact H3.
Qed.

(* the same for any sub-multiset and any ordering: the promise made to a
   field does not mention the other fields *)
Lemma content_preserved_perm : forall fx fs fs' st os,
  Permutation fs fs' -> write_fields fx fs' st0 = (st, os) ->
  forall f, In f fs -> exists o, In o os /\ field_ok (vt st) f o.
Proof.
  intros fx fs fs' st os P H f Hin.
  assert (Hin' : In f fs') by (eapply Permutation_in; eauto).
  pose proof (content_preserved _ _ _ _ H) as F.
  clear - F Hin'. induction F; simpl in *; [tauto|].
  destruct Hin' as [->|Hin'].
  - exists y. auto.
  - destruct (IHF Hin') as (o & Ho & Hok). exists o. auto.
Qed.

(* ---------------------------------------------------------------- reader *)
(* With the registry cleared for every data variable, what is read for a data
   variable (its constructs, vertical references and grid mappings) is a
   function of that variable's own file-level description. *)
Lemma read_gms_vcrs : forall l s s' x, read_gms l s = (s', x) -> vcrs s' = vcrs s.
Proof.
  induction l as [|g r IH]; intros s s' x H; simpl in H.
  - inversion H; subst. reflexivity.
  - destruct (read_gm g s) as [s1 y] eqn:G. destruct (read_gms r s1) as [s2 ys] eqn:R.
    inversion H; subst; clear H. rewrite (IH _ _ _ R).
    unfold read_gm in G. destruct g as [[cc d] [co|]]; inversion G; reflexivity.
Qed.

Lemma read_gm_indep : forall g s1 s2, vcrs s1 = vcrs s2 ->
  snd (read_gm g s1) = snd (read_gm g s2) /\
  vcrs (fst (read_gm g s1)) = vcrs (fst (read_gm g s2)) /\
  exists n, dat (fst (read_gm g s1)) = n ++ dat s1 /\ dat (fst (read_gm g s2)) = n ++ dat s2.
Proof.
  intros [[cc d] [co|]] s1 s2 E; unfold read_gm; simpl; rewrite E; splits; auto; eexists; split; reflexivity.
Qed.

Lemma read_gms_indep : forall l s1 s2, vcrs s1 = vcrs s2 ->
  snd (read_gms l s1) = snd (read_gms l s2) /\
  exists n, dat (fst (read_gms l s1)) = n ++ dat s1 /\ dat (fst (read_gms l s2)) = n ++ dat s2.
Proof.
  induction l as [|g r IH]; intros s1 s2 E; simpl.
  - split; auto. exists []. auto.
  - destruct (read_gm_indep g s1 s2 E) as (A & B & n & N1 & N2).
    destruct (read_gm g s1) as [t1 y1]. destruct (read_gm g s2) as [t2 y2]. simpl in *.
    destruct (IH t1 t2 B) as (C & m & M1 & M2).
    destruct (read_gms r t1) as [u1 z1]. destruct (read_gms r t2) as [u2 z2]. simpl in *.
    split; [congruence|]. exists (m ++ n). rewrite M1, M2, N1, N2, !app_assoc. auto.
Qed.

(* the per-field result and the set_datum events it adds do not depend on
   the incoming registry when it is reset *)
Lemma read_field_reset_indep : forall i ff s1 s2,
  snd (read_field true i ff s1) = snd (read_field true i ff s2) /\
  exists n, dat (fst (read_field true i ff s1)) = n ++ dat s1 /\
            dat (fst (read_field true i ff s2)) = n ++ dat s2.
Proof.
  intros i ff s1 s2. unfold read_field. simpl.
  set (v := fold_left (fun acc x => set_key (fst (fst x)) i acc) (ff_vcr ff) []).
  destruct (read_gms_indep (ff_gms ff) (mkR v (dat s1)) (mkR v (dat s2)) eq_refl) as (A & n & N1 & N2).
  destruct (read_gms (ff_gms ff) (mkR v (dat s1))) as [t1 g1].
  destruct (read_gms (ff_gms ff) (mkR v (dat s2))) as [t2 g2]. simpl in *.
  split; [congruence|]. exists n. auto.
Qed.

(* ================================================================ witnesses *)
Definition wA : field :=   (* vertical coordinate with formula terms and datum 7, one grid mapping with datum 7 *)
  mkField [3; 2] [Some (mkI [] 20 None); Some (mkI [] 40 (Some 3))] [] [] [mkI [0%nat] 60 None] [] []
          (Some (mkF 0 (Some 7) [0%nat])) [mkG 1 (Some 7) []].
Definition wB : field :=   (* no vertical reference, one grid mapping without datum *)
  mkField [3] [Some (mkI [] 44 None)] [] [] [] [] [] None [mkG 1 None []].

Definition wC : field := mkField [3] [None] [] [mkI [0%nat] 80 None] [] [] [] None [].
Definition wD : field := mkField [3; 3] [None; None] [] [mkI [0%nat] 80 None; mkI [1%nat] 80 None] [] [] [] None [].

Definition wE : field :=   (* vertical coordinate owning formula terms *)
  mkField [3] [Some (mkI [] 20 None)] [] [] [mkI [0%nat] 60 None] [] [] (Some (mkF 0 None [0%nat])) [].
Definition wF : field :=   (* the same coordinate, no formula terms *)
  mkField [3] [Some (mkI [] 20 None)] [] [] [] [] [] None [].
Definition wG : field :=   (* the same coordinate, other terms *)
  mkField [3] [Some (mkI [] 20 None)] [] [] [mkI [0%nat] 61 None] [] [] (Some (mkF 0 None [0%nat])) [].

(* non-vacuity: a list in which variables really are shared and everything is read back as written *)
Lemma sharing_example :
  (length (vt (fst (write_fields true [wA; wA; wB] st0))) <
   2 * length (vt (fst (write_fields true [wA] st0))) + length (vt (fst (write_fields true [wB] st0))))%nat /\
  ft_conflict true [wA; wA; wB] = false /\
  nth_error (roundtrip true true [wA; wA; wB]) 1 = nth_error (roundtrip true true [wA]) 0 /\
  nth_error (roundtrip true true [wB; wA; wA]) 0 = nth_error (roundtrip true true [wB]) 0.
Proof.
  split; [apply Nat.ltb_lt; vm_compute; reflexivity|]. repeat split; vm_compute; reflexivity.
Qed.

(* F09a: with the reader's registry never cleared, a later data variable's
   grid mapping overwrites the datum of an earlier field's vertical reference *)
Lemma old_reader_datum_leak_refuted :
  exists fs f, nth_error fs 0 = Some f /\
    nth_error (roundtrip true false fs) 0 <> nth_error (roundtrip true false [f]) 0 /\
    nth_error (roundtrip true false (rev fs)) 1 = nth_error (roundtrip true false [f]) 0.
Proof.
  exists [wA; wB], wA. split; [reflexivity|]. split; vm_compute; [discriminate|reflexivity].
Qed.

(* the repaired reader on the same witness *)
Lemma new_reader_on_witness :
  nth_error (roundtrip true true [wA; wB]) 0 = nth_error (roundtrip true true [wA]) 0.
Proof. vm_compute. reflexivity. Qed.

(* F09b: the old dimension-reuse rule maps two axes of one field onto one
   netCDF dimension of an earlier field; alone, or first, the field is fine *)
Lemma old_dimension_collapse_refuted :
  exists fs, (exists o, In o (snd (write_fields false fs st0)) /\ ~ NoDup (o_dims o)) /\
             (forall o, In o (snd (write_fields false (rev fs) st0)) -> NoDup (o_dims o)) /\
             (forall o, In o (snd (write_fields true fs st0)) -> NoDup (o_dims o)).
Proof.
  exists [wC; wD]. split; [|split].
  - exists (mkO [DFree 0; DFree 0] [None; None] [] [0%nat; 0%nat] [] [] [] []). split.
    + vm_compute. auto.
    + intro H. inversion H as [|? ? N _]; subst. apply N. left. reflexivity.
  - vm_compute. intros o [<-|[<-|[]]]; simpl; repeat constructor; simpl; intuition discriminate.
  - vm_compute. intros o [<-|[<-|[]]]; simpl; repeat constructor; simpl; intuition discriminate.
Qed.

(* F09d / F09e (open): formula_terms live on the coordinate variable, so fields
   that share the variable share the attribute: a field without formula terms
   acquires them (wF after wE), and of two fields with different terms one
   loses its own, which one depending on the order (wE, wG) *)
Lemma formula_terms_leak_refuted :
  exists fs f, nth_error fs 1 = Some f /\ ft_conflict true fs = true /\
    nth_error (roundtrip true true fs) 1 <> nth_error (roundtrip true true [f]) 0.
Proof.
  exists [wE; wF], wF. split; [reflexivity|]. split; vm_compute; [reflexivity|discriminate].
Qed.

Lemma formula_terms_order_refuted :
  exists f g, ft_conflict true [f; g] = true /\
    nth_error (roundtrip true true [f; g]) 0 <> nth_error (roundtrip true true [g; f]) 1.
Proof. exists wE, wG. split; vm_compute; [reflexivity|discriminate]. Qed.

(* what can be said without the guard: when a field has been written, the
   formula_terms attribute of its owning coordinate variable is its own *)
Lemma ft_written : forall fx f st st' o fr owner,
  Inv st -> write_field fx f st = (st', o) -> ft f = Some fr ->
  nth (f_z fr) (o_dim o) None = Some owner -> f_terms fr <> [] ->
  vfta st' owner = Some (map (fun j => nth j (o_anc o) 0%nat) (f_terms fr)).
Proof.
  intros fx f st st' o fr owner HI H Hft Hown Hne. unfold write_field in H.
  destruct (write_axes fx f (dimc f) 0 st [] [] []) as [[[st1 dims] dv] loc] eqn:A.
  destruct (write_scalars (scal f) st1) as [st2 sv] eqn:S.
  destruct (write_list false KAux f dims (aux f) st2) as [st3 av] eqn:X.
  destruct (write_list true KAnc f dims (anc f) st3) as [st4 ancv] eqn:N.
  destruct (write_list false KMeas f dims (meas f) st4) as [st5 mv] eqn:M.
  destruct (write_gms (Nat.ltb 1 (length (gm_list f))) dv av (gm_list f) (write_ft f dv ancv st5)) as [st7 gv] eqn:G.
  destruct (write_list false KFAnc f dims (fanc f) st7) as [st8 fv] eqn:FA.
  inversion H; subst; clear H. simpl in *.
  destruct (inv_write_axes _ _ _ _ _ _ _ _ _ _ _ _ HI A) as (I1 & _).
  destruct (inv_write_scalars _ _ _ _ I1 S) as (I2 & _).
  destruct (inv_write_list _ _ _ _ _ _ _ _ I2 (nokk _) X) as (I3 & _).
  destruct (inv_write_list _ _ _ _ _ _ _ _ I3 (fun _ => eq_refl) N) as (I4 & _).
  destruct (inv_write_list _ _ _ _ _ _ _ _ I4 (nokk _) M) as (I5 & _).
  destruct (inv_write_ft f dv ancv st5 I5) as (I6 & _).
  destruct (inv_write_gms _ _ _ _ _ _ _ I6 G) as (I7 & _ & _ & F7 & _).
  destruct (inv_write_list _ _ _ _ _ _ _ _ I7 (nokk _) FA) as (_ & _ & _ & F8 & _).
  unfold vfta. simpl. rewrite F8, F7. unfold write_ft. rewrite Hft, Hown.
  destruct (f_terms fr) as [|t ts] eqn:T; [congruence|]. simpl. rewrite Nat.eqb_refl. reflexivity.
Qed.
