(* C09 - evaluation entry points for the correspondence harness. *)
From CfdmV Require Import Common.Base C09.Model.
Open Scope Z_scope.

(* renumber by first occurrence: two lists have equal images iff they induce
   the same partition of positions *)
Fixpoint pos_of {A} (eqb : A -> A -> bool) (x : A) (l : list A) (i : nat) : option nat :=
  match l with
  | [] => None
  | y :: r => if eqb x y then Some i else pos_of eqb x r (S i)
  end.

Fixpoint canon_aux {A} (eqb : A -> A -> bool) (l tbl : list A) : list nat :=
  match l with
  | [] => []
  | x :: r => match pos_of eqb x tbl 0 with
              | Some i => i :: canon_aux eqb r tbl
              | None => length tbl :: canon_aux eqb r (tbl ++ [x])
              end
  end.

Definition canon {A} (eqb : A -> A -> bool) (l : list A) : list nat := canon_aux eqb l [].

(* multiset equality *)
Fixpoint remove1 {A} (eqb : A -> A -> bool) (x : A) (l : list A) : option (list A) :=
  match l with
  | [] => None
  | y :: r => if eqb x y then Some r
              else match remove1 eqb x r with Some r' => Some (y :: r') | None => None end
  end.

Fixpoint ms_eqb {A} (eqb : A -> A -> bool) (l1 l2 : list A) : bool :=
  match l1 with
  | [] => match l2 with [] => true | _ => false end
  | x :: r => match remove1 eqb x l2 with Some l2' => ms_eqb eqb r l2' | None => false end
  end.

Definition rcons_eqb (a b : rcons) : bool :=
  let '(r1, t1, b1, s1) := a in
  let '(r2, t2, b2, s2) := b in
  Nat.eqb r1 r2 && Z.eqb t1 t2 && Z.eqb b1 b2 && list_eqb Z.eqb s1 s2.

Definition vcr_eqb (a b : option Z * Z * list Z) : bool :=
  let '(d1, o1, t1) := a in
  let '(d2, o2, t2) := b in
  option_eqb Z.eqb d1 d2 && Z.eqb o1 o2 && ms_eqb Z.eqb t1 t2.

Definition rgm_eqb (a b : rgm) : bool :=
  let '(c1, d1, l1) := a in
  let '(c2, d2, l2) := b in
  Z.eqb c1 c2 && option_eqb Z.eqb d1 d2 && ms_eqb Z.eqb l1 l2.

Definition rfield_eqb (m : rfield) (o : list rcons * list (option Z * Z * list Z) * list rgm) : bool :=
  let '(c, v, g) := o in
  ms_eqb rcons_eqb (r_cons m) c && ms_eqb vcr_eqb (r_vcr m) v && ms_eqb rgm_eqb (r_gms m) g.

(* the variables that hold a field's constructs, in skeleton order, followed
   by the bounds variables of those constructs that have bounds *)
Definition bvar (st : wst) (v : nat) : list nat :=
  match find (fun p => Nat.eqb (fst p) v) (bnds st) with
  | Some p => [snd p]
  | None => []
  end.

Definition flat_vars (st : wst) (o : fout) : list nat :=
  let cs := somes (o_dim o) ++ o_scal o ++ o_aux o ++ o_anc o in
  cs ++ o_meas o ++ o_fanc o ++ map fst (o_gm o) ++ flat_map (bvar st) cs.

Definition nat_lists_eqb := list_eqb (list_eqb Nat.eqb).

(* split a flat list according to the lengths of a list of lists *)
Fixpoint regroup {A B} (shape : list (list A)) (flat : list B) : list (list B) :=
  match shape with
  | [] => []
  | l :: r => firstn (length l) flat :: regroup r (skipn (length l) flat)
  end.

(* A case: the fields in the order they were written; per field the observed
   netCDF dimension names and variable names (as numbers, equal numbers =
   equal names); per field what cfdm.read returned for it. *)
Definition check_gen (fx reset : bool)
    (cs : list field * list (list nat) * list (list nat) *
          list (list rcons * list (option Z * Z * list Z) * list rgm)) : bool :=
  let '(fs, odims, ovars, oread) := cs in
  let '(st, os) := write_fields fx fs st0 in
  let md := map o_dims os in
  let mv := map (flat_vars st) os in
  nat_lists_eqb (regroup md (canon dimid_eqb (concat md))) (regroup odims (canon Nat.eqb (concat odims))) &&
  nat_lists_eqb (regroup mv (canon Nat.eqb (concat mv))) (regroup ovars (canon Nat.eqb (concat ovars))) &&
  let rs := read_views reset (map (file_view st) os) in
  Nat.eqb (length rs) (length oread) &&
  forallb (fun p => rfield_eqb (fst p) (snd p)) (combine rs oread).

Definition check_case := check_gen true true.

(* the code as it was at the pinned commit *)
Definition check_case_old := check_gen false false.


(* ---- the composition theorem's hypotheses and conclusion on a generated case ----
   [guard_case]: the written list is under the hypotheses of C09.Props.C09_composition
   (every field well-formed, no formula-terms conflict).
   [spec_case]: under those hypotheses, what cfdm.read returned per field is the
   specification view [expected f] of that field alone (Spec.v), no writer state
   involved; outside them nothing is claimed. *)
From CfdmV Require Import C09.Spec.

Definition guard_fields (fs : list field) : bool := forallb wfb fs && negb (ft_conflict true fs).

Definition guard_case
    (cs : list field * list (list nat) * list (list nat) *
          list (list rcons * list (option Z * Z * list Z) * list rgm)) : bool :=
  let '(fs, _, _, _) := cs in guard_fields fs.

Definition spec_case
    (cs : list field * list (list nat) * list (list nat) *
          list (list rcons * list (option Z * Z * list Z) * list rgm)) : bool :=
  let '(fs, _, _, oread) := cs in
  if guard_fields fs then
    Nat.eqb (length fs) (length oread) &&
    forallb (fun p => rfield_eqb (fst p) (snd p)) (combine (map expected fs) oread)
  else true.

(* ---- compression variables (list / count / index) ----
   A case: the compressed fields in writing order; per field the observed
   dimensions the field itself lives on (compressed axes of a gathered field,
   instance dimension of a ragged field), as numbers; per field the observed
   compression variable, as a number. *)
Definition check_ccase_gen (lx : bool) (cs : list cfield * list (list nat) * list nat) : bool :=
  let '(cfs, odims, ovars) := cs in
  let '(st, xs) := write_cfields lx cfs st0 in
  let md := map (fun p => match cf_c (fst p) with
                          | Some c => meaning c (o_dims (fst (snd p)))
                          | None => [] end) (combine cfs xs) in
  let mv := map (fun x : fout * option nat => match snd x with Some v => v | None => 0%nat end) xs in
  nat_lists_eqb (regroup md (canon dimid_eqb (concat md))) (regroup odims (canon Nat.eqb (concat odims))) &&
  list_eqb Nat.eqb (canon Nat.eqb mv) (canon Nat.eqb ovars).

Definition check_ccase := check_ccase_gen true.
Definition check_ccase_old := check_ccase_gen false.

(* ---- gathered metadata constructs and the per-field mapping ----
   A case: the fields in writing order; per field the observed dimensions of
   the gathered axes of each of its gathered items (data first, then
   constructs), as numbers; per field the observed list variables of those
   items, as numbers. *)
Definition check_gcase_gen (rs : bool) (cs : list cfield2 * list (list nat) * list (list nat)) : bool :=
  let '(cfs, odims, ovars) := cs in
  let '(st, _, xs) := write_cfields2 rs cfs st0 [] in
  let md := map (fun q : cfield2 * (fout * option nat * list nat) =>
                   let dims := o_dims (fst (fst (snd q))) in
                   concat (match cf_c (c2_f (fst q)) with
                           | Some (CGath _ p n) => [gdims p n dims]
                           | _ => [] end ++
                           map (fun it => gdims (gi_p it) (gi_n it) dims) (c2_g (fst q)))) (combine cfs xs) in
  let mv := map (fun x : fout * option nat * list nat =>
                   match snd (fst x) with Some v => [v] | None => [] end ++ snd x) xs in
  nat_lists_eqb (regroup md (canon dimid_eqb (concat md))) (regroup odims (canon Nat.eqb (concat odims))) &&
  nat_lists_eqb (regroup mv (canon Nat.eqb (concat mv))) (regroup ovars (canon Nat.eqb (concat ovars))).

Definition check_gcase := check_gcase_gen true.
Definition check_gcase_carried := check_gcase_gen false.
