(* C09 - the code as it stood at the pinned commit does NOT keep fields apart.
   Witnesses about the superseded definitions (flags fx = false, reset = false);
   each was replayed against the implementation before the repair
   (handoff/C09-fix-1.diff = reader, C09-fix-2.diff = dimension rule). *)
From CfdmV Require Import Common.Base C09.Model C09.Lemmas.
Open Scope Z_scope.

(* F09a: read_vars['vertical_crs'] was never cleared: reading [wA; wB], the
   grid mapping of wB (no coordinates listed, no datum) replaces the datum of
   wA's vertical coordinate reference; in the other order wA is read back
   intact. *)
Theorem C09_old_reader_datum_leak_refuted :
  exists fs f, nth_error fs 0 = Some f /\
    nth_error (roundtrip true false fs) 0 <> nth_error (roundtrip true false [f]) 0 /\
    nth_error (roundtrip true false (rev fs)) 1 = nth_error (roundtrip true false [f]) 0.
Proof. exact old_reader_datum_leak_refuted. Qed.

Theorem C09_new_reader_on_witness :
  nth_error (roundtrip true true [wA; wB]) 0 = nth_error (roundtrip true true [wA]) 0.
Proof. exact new_reader_on_witness. Qed.

(* F09b: the dimension-reuse rule mapped two axes of one field onto one netCDF
   dimension created for an earlier field; not in the other order, and not
   with the repaired rule. *)
Theorem C09_old_dimension_collapse_refuted :
  exists fs, (exists o, In o (snd (write_fields false fs st0)) /\ ~ NoDup (o_dims o)) /\
             (forall o, In o (snd (write_fields false (rev fs) st0)) -> NoDup (o_dims o)) /\
             (forall o, In o (snd (write_fields true fs st0)) -> NoDup (o_dims o)).
Proof. exact old_dimension_collapse_refuted. Qed.
