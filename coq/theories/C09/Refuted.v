(* C09 - the code as it stood at the pinned commit does NOT keep fields apart.
   Witnesses about the superseded definitions (flags fx = false, reset = false);
   each was replayed against the implementation before the repair
   (handoff/C09-fix-1.diff = reader, C09-fix-2.diff = dimension rule). *)
From CfdmV Require Import Common.Base C09.Model C09.Spec C09.Lemmas C09.Compose.
Open Scope Z_scope.

(* F09a: read_vars['vertical_crs'] was never cleared: reading [wA; wB], the
   grid mapping of wB (no coordinates listed, no datum) replaces the datum of
   wA's vertical coordinate reference; in the other order wA is read back
   intact. *)
Theorem C09_old_reader_datum_leak_refuted :
  exists fs f, nth_error fs 0 = Some f /\
    nth_error (roundtrip true false fs) 0 <> nth_error (roundtrip true false [f]) 0 /\
    nth_error (roundtrip true false (rev fs)) 1 = nth_error (roundtrip true false [f]) 0.
Proof. exact old_reader_datum_leak_refuted. Qed.

Theorem C09_new_reader_on_witness :
  nth_error (roundtrip true true [wA; wB]) 0 = nth_error (roundtrip true true [wA]) 0.
Proof. exact new_reader_on_witness. Qed.

(* F09b: the dimension-reuse rule mapped two axes of one field onto one netCDF
   dimension created for an earlier field; not in the other order, and not
   with the repaired rule. *)
Theorem C09_old_dimension_collapse_refuted :
  exists fs, (exists o, In o (snd (write_fields false fs st0)) /\ ~ NoDup (o_dims o)) /\
             (forall o, In o (snd (write_fields false (rev fs) st0)) -> NoDup (o_dims o)) /\
             (forall o, In o (snd (write_fields true fs st0)) -> NoDup (o_dims o)).
Proof. exact old_dimension_collapse_refuted. Qed.

(* Two equal dimension coordinates on two axes of one field: before /repo
   commit a6b4a67 both axes were written on one netCDF dimension, even in a
   file of its own; not with the current rule. *)
Theorem C09_old_equal_dimcoords_collapse_refuted :
  wfb wH = false /\
  (exists o, In o (snd (write_fields false [wH] st0)) /\ ~ NoDup (o_dims o)) /\
  (forall o, In o (snd (write_fields true [wH] st0)) -> NoDup (o_dims o)).
Proof. exact old_equal_dimcoords_collapse_refuted. Qed.

(* F09h/i/j (C09-fix3-1,2,3): before the repair an equal list / count / index
   variable of an earlier field was reused whatever dimensions it referred to:
   [gA; gB] (gathered, equal list values, compressed axes (2,3) and (3,2)) share
   one list variable that keeps the first field's compress attribute, in either
   order; [rA; rB] (ragged, equal counts / indices, different instance-level
   coordinates) share the count / index variable of the first field's instance
   dimension.  With the repaired rule each field's variable refers to its own
   dimensions, and equal fields still share. *)
Theorem C09_old_compression_variable_shared_refuted :
  own_all false [gA; gB] = false /\ own_all false [gB; gA] = false /\
  own_all false [rA (CCont 3); rB (CCont 3)] = false /\ own_all false [rA (CIdx 3); rB (CIdx 3)] = false /\
  own_all true [gA; gB] = true /\ own_all true [gB; gA] = true /\
  own_all true [rA (CCont 3); rB (CCont 3)] = true /\ own_all true [rA (CIdx 3); rB (CIdx 3)] = true /\
  (let '(st, xs) := write_cfields true [gA; gA; rA (CCont 3); rA (CCont 3)] st0 in map snd xs) =
  [Some 3%nat; Some 3%nat; Some 5%nat; Some 5%nat].
Proof. exact old_compression_variable_shared_refuted. Qed.

(* Seeded variant s5: g['sample_ncdim'] initialised once per file instead of per
   field.  [pA; pB]: pA's data are gathered over (y, x) with list 5; pB, on the
   same dimensions, has uncompressed data and a construct gathered over (y, x)
   with list 6: with the carried-over mapping pB's construct is written on pA's
   list variable (its own is never written); not in the other order, and not
   with the mapping reset per field. *)
Theorem C09_carried_over_mapping_refuted :
  gown_all false [pA; pB] = false /\ gown_all false [pB; pA] = true /\
  gown_all true [pA; pB] = true /\ gown_all true [pB; pA] = true /\
  snd (write_cfields2 false [pA; pB] st0 []) <> snd (write_cfields2 true [pA; pB] st0 []).
Proof. exact carried_over_mapping_refuted. Qed.
