(* C09 - the property theorems, nothing else.  Each is closed by [exact] of a
   lemma from Lemmas.v and followed by Print Assumptions.

   Full-strength statement aimed at (kept here because only parts of it are
   proved):
     forall fs, ft_conflict true fs = false -> forall i f, nth_error fs i = Some f ->
       nth_error (roundtrip true true fs) i = nth_error (roundtrip true true [f]) 0
   ("every field is read back from the shared file exactly as from a file of
   its own", whence order-blindness).  Proved below: the writer half for every
   list and every order (C09_content_preserved, C09_order_blind_content,
   C09_share_only_if_equal), the reader half per data variable
   (C09_reader_field_independent_partial) and the formula_terms half at the
   time of writing (C09_formula_terms_written_partial).  Not proved: the
   composition through file_view/finish, and that the guard ft_conflict = false
   keeps the attribute until the end.  Without the guard the statement is
   false (C09_formula_terms_leak_refuted, C09_formula_terms_order_refuted:
   open findings F09d/F09e). *)
From Coq Require Import Permutation.
From CfdmV Require Import Common.Base C09.Model C09.Lemmas.
Open Scope Z_scope.

(* Metadata variables are shared only between equal constructs: two
   registered constructs that map to one netCDF variable have equal
   properties+data token, shape and bounds token, sit on the same netCDF
   dimensions, and have the same construct type unless one of them is a domain
   ancillary (which the writer compares with ignore_type).  Any list, any
   order, both versions of the dimension rule. *)
Theorem C09_share_only_if_equal :
  forall fx fs st os, write_fields fx fs st0 = (st, os) ->
  forall e1 e2, In e1 (seen st) -> In e2 (seen st) -> se_v e1 = se_v e2 ->
    eq_content (se_c e1) (se_c e2) = true /\ se_nd e1 = se_nd e2 /\
    (ck (se_c e1) = ck (se_c e2) \/ ck (se_c e1) = KAnc \/ ck (se_c e2) = KAnc).
Proof. exact share_only_if_equal. Qed.
Print Assumptions C09_share_only_if_equal.

(* Sharing never changes a field's metadata: whatever else is in the list,
   every dimension coordinate, scalar coordinate, auxiliary coordinate, domain
   ancillary, cell measure, field ancillary and grid mapping of every field is
   held, in the final file, by a variable with equal content, spanning exactly
   the netCDF dimensions of the field's own axes (field_ok). *)
Theorem C09_content_preserved :
  forall fx fs st os, write_fields fx fs st0 = (st, os) -> Forall2 (field_ok (vt st)) fs os.
Proof. exact content_preserved. Qed.
Print Assumptions C09_content_preserved.

(* ... and this does not depend on the order in which the fields are given. *)
Theorem C09_order_blind_content :
  forall fx fs fs' st os, Permutation fs fs' -> write_fields fx fs' st0 = (st, os) ->
  forall f, In f fs -> exists o, In o os /\ field_ok (vt st) f o.
Proof. exact content_preserved_perm. Qed.
Print Assumptions C09_order_blind_content.

(* Reader (repaired): what is read for a data variable - its constructs, its
   vertical coordinate references, its grid mappings - and the datum
   assignments it causes are the same whatever the registry left behind by the
   data variables read before it.  (_partial: the statement for whole files,
   nth_error (read_views true l) i = read of [ff] alone, needs the bookkeeping
   of the event list and is not proved.) *)
Theorem C09_reader_field_independent_partial :
  forall i ff s1 s2,
  snd (read_field true i ff s1) = snd (read_field true i ff s2) /\
  exists n, dat (fst (read_field true i ff s1)) = n ++ dat s1 /\
            dat (fst (read_field true i ff s2)) = n ++ dat s2.
Proof. exact read_field_reset_indep. Qed.
Print Assumptions C09_reader_field_independent_partial.

(* When a field has been written, the formula_terms attribute of the
   coordinate variable that owns its vertical reference names the field's own
   domain ancillary variables, in any reachable writer state.  (_partial: that
   it stays so until the file is closed needs the guard below.) *)
Theorem C09_formula_terms_written_partial :
  forall fx f st st' o fr owner,
  Inv st -> write_field fx f st = (st', o) -> ft f = Some fr ->
  nth (f_z fr) (o_dim o) None = Some owner -> f_terms fr <> [] ->
  vfta st' owner = Some (map (fun j => nth j (o_anc o) 0%nat) (f_terms fr)).
Proof. exact ft_written. Qed.
Print Assumptions C09_formula_terms_written_partial.

(* Open finding F09d: two fields share a coordinate variable, only one of them
   has formula terms: the other one reads them back as its own. *)
Theorem C09_formula_terms_leak_refuted :
  exists fs f, nth_error fs 1 = Some f /\ ft_conflict true fs = true /\
    nth_error (roundtrip true true fs) 1 <> nth_error (roundtrip true true [f]) 0.
Proof. exact formula_terms_leak_refuted. Qed.
Print Assumptions C09_formula_terms_leak_refuted.

(* Open finding F09e: with different terms on one shared coordinate variable
   the last writer wins, so the outcome depends on the order. *)
Theorem C09_formula_terms_order_refuted :
  exists f g, ft_conflict true [f; g] = true /\
    nth_error (roundtrip true true [f; g]) 0 <> nth_error (roundtrip true true [g; f]) 1.
Proof. exact formula_terms_order_refuted. Qed.
Print Assumptions C09_formula_terms_order_refuted.

(* Non-vacuity: a list that passes the guard, in which variables really are
   shared (fewer variables than the single files have together), and whose
   fields are read back as from files of their own, in two orders. *)
Theorem C09_sharing_example :
  (length (vt (fst (write_fields true [wA; wA; wB] st0))) <
   2 * length (vt (fst (write_fields true [wA] st0))) + length (vt (fst (write_fields true [wB] st0))))%nat /\
  ft_conflict true [wA; wA; wB] = false /\
  nth_error (roundtrip true true [wA; wA; wB]) 1 = nth_error (roundtrip true true [wA]) 0 /\
  nth_error (roundtrip true true [wB; wA; wA]) 0 = nth_error (roundtrip true true [wB]) 0.
Proof. exact sharing_example. Qed.
Print Assumptions C09_sharing_example.
