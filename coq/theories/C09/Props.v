(* C09 - the property theorems, nothing else.  Each is closed by [exact] of a
   lemma from Lemmas.v / Compose.v and followed by Print Assumptions.

   Full-strength statement (now proved, C09_composition and its corollaries):
     forall fs, wfs fs -> ft_conflict true fs = false ->
       roundtrip true true fs = map expected fs
   where [expected f] (Spec.v) is written from the field alone: "writing any
   list of fields to one file and reading it back returns, per field, what the
   field is, the same as from a file of its own, whatever the other fields
   and whatever the order".  The two guards are exact in the following sense:
     - wfs (Spec.wfb per field): the field is writable in a file of its own
       without merging two of its own constructs (pairwise different dimension
       coordinates and auxiliary coordinates, references name existing
       constructs); single-file matter (C01; Refuted.v
       C09_old_equal_dimcoords_collapse_refuted is what the code before
       /repo commit a6b4a67 did to a field outside it);
     - ft_conflict = false: no two fields hold one coordinate variable while
       wanting different formula_terms on it: open finding F09d/F09e,
       C09_formula_terms_leak_refuted, C09_formula_terms_order_refuted. *)
From Coq Require Import Permutation.
From CfdmV Require Import Common.Base C09.Model C09.Spec C09.Lemmas C09.Compose.
Open Scope Z_scope.

(* Metadata variables are shared only between equal constructs: two
   registered constructs that map to one netCDF variable have equal
   properties+data token, shape and bounds token, sit on the same netCDF
   dimensions, and have the same construct type unless one of them is a domain
   ancillary (which the writer compares with ignore_type).  Any list, any
   order, both versions of the dimension rule. *)
Theorem C09_share_only_if_equal :
  forall fx fs st os, write_fields fx fs st0 = (st, os) ->
  forall e1 e2, In e1 (seen st) -> In e2 (seen st) -> se_v e1 = se_v e2 ->
    eq_content (se_c e1) (se_c e2) = true /\ se_nd e1 = se_nd e2 /\
    (ck (se_c e1) = ck (se_c e2) \/ ck (se_c e1) = KAnc \/ ck (se_c e2) = KAnc).
Proof. exact share_only_if_equal. Qed.
Print Assumptions C09_share_only_if_equal.

(* Sharing never changes a field's metadata: whatever else is in the list,
   every dimension coordinate, scalar coordinate, auxiliary coordinate, domain
   ancillary, cell measure, field ancillary and grid mapping of every field is
   held, in the final file, by a variable with equal content, spanning exactly
   the netCDF dimensions of the field's own axes (field_ok). *)
Theorem C09_content_preserved :
  forall fx fs st os, write_fields fx fs st0 = (st, os) -> Forall2 (field_ok (vt st)) fs os.
Proof. exact content_preserved. Qed.
Print Assumptions C09_content_preserved.

(* ... and this does not depend on the order in which the fields are given. *)
Theorem C09_order_blind_content :
  forall fx fs fs' st os, Permutation fs fs' -> write_fields fx fs' st0 = (st, os) ->
  forall f, In f fs -> exists o, In o os /\ field_ok (vt st) f o.
Proof. exact content_preserved_perm. Qed.
Print Assumptions C09_order_blind_content.

(* Reader (repaired), whole files: reading a file with any number of data
   variables gives, position by position, what reading each data variable in a
   file of its own gives (the vertical_crs registry and the datum assignments
   of one data variable never reach another). *)
Theorem C09_reader_whole_file :
  forall l, read_views true l = flat_map (fun ff => read_views true [ff]) l.
Proof. exact reader_whole_file. Qed.
Print Assumptions C09_reader_whole_file.

(* Repaired dimension rule: for well-formed fields, in any list, the data axes
   of one field are written to pairwise different netCDF dimensions. *)
Theorem C09_axes_distinct_dimensions :
  forall fs st os, wfs fs -> write_fields true fs st0 = (st, os) ->
  Forall2 (fun _ o => NoDup (o_dims o)) fs os.
Proof. exact axes_distinct_dimensions. Qed.
Print Assumptions C09_axes_distinct_dimensions.

(* When a field has been written, the formula_terms attribute of the
   coordinate variable that owns its vertical reference names the field's own
   domain ancillary variables, in any reachable writer state ... *)
Theorem C09_formula_terms_written :
  forall fx f st st' o fr owner,
  Inv st -> write_field fx f st = (st', o) -> ft f = Some fr ->
  nth (f_z fr) (o_dim o) None = Some owner -> f_terms fr <> [] ->
  vfta st' owner = Some (map (fun j => nth j (o_anc o) 0%nat) (f_terms fr)).
Proof. exact ft_written. Qed.
Print Assumptions C09_formula_terms_written.

(* ... and under the guard it is still so when the file is closed: every
   coordinate variable of every field carries exactly the formula terms that
   field wants on it (none, if it wants none). *)
Theorem C09_formula_terms_persist :
  forall fs st os, write_fields true fs st0 = (st, os) -> ft_conflict true fs = false ->
  Forall2 (fun f o => forall a v, nth a (o_dim o) None = Some v -> vfta st v = wantv f (o_anc o) a) fs os.
Proof. exact final_fta. Qed.
Print Assumptions C09_formula_terms_persist.

(* What the shared file says about each data variable is the specification
   view of its field. *)
Theorem C09_files_are_spec_views :
  forall fs st os, wfs fs -> ft_conflict true fs = false -> write_fields true fs st0 = (st, os) ->
  map (file_view st) os = map spec_view fs.
Proof. exact files_are_spec_views. Qed.
Print Assumptions C09_files_are_spec_views.

(* THE COMPOSITION: write then read returns, per field, the field's own
   expected view - a function of that field alone. *)
Theorem C09_composition :
  forall fs, wfs fs -> ft_conflict true fs = false -> roundtrip true true fs = map expected fs.
Proof. exact composition. Qed.
Print Assumptions C09_composition.

(* ... which is what a file of its own gives (the guard for a single
   well-formed field holds by C09_single_no_conflict) ... *)
Theorem C09_single_no_conflict : forall f, wfb f = true -> ft_conflict true [f] = false.
Proof. exact single_no_conflict. Qed.
Print Assumptions C09_single_no_conflict.

Theorem C09_roundtrip_as_single_files :
  forall fs, wfs fs -> ft_conflict true fs = false ->
  (roundtrip true true fs = flat_map (fun f => roundtrip true true [f]) fs) /\
  (forall i f, nth_error fs i = Some f ->
     nth_error (roundtrip true true fs) i = nth_error (roundtrip true true [f]) 0%nat).
Proof. exact roundtrip_singles. Qed.
Print Assumptions C09_roundtrip_as_single_files.

(* ... and does not depend on the order: for every permutation that also
   passes the guard the same fields come back, permuted. *)
Theorem C09_order_invariance :
  forall fs fs', Permutation fs fs' -> wfs fs -> ft_conflict true fs = false -> ft_conflict true fs' = false ->
  Permutation (roundtrip true true fs) (roundtrip true true fs') /\
  roundtrip true true fs' = map expected fs'.
Proof. exact order_invariance. Qed.
Print Assumptions C09_order_invariance.

(* Non-vacuity of the two guards (with real sharing). *)
Theorem C09_composition_example :
  wfs [wA; wA; wB] /\ ft_conflict true [wA; wA; wB] = false /\
  (length (vt (fst (write_fields true [wA; wA; wB] st0))) <
   2 * length (vt (fst (write_fields true [wA] st0))) + length (vt (fst (write_fields true [wB] st0))))%nat.
Proof. exact composition_example. Qed.
Print Assumptions C09_composition_example.

(* Compression variables (list variable of a gathered field, count / index
   variable of a ragged field), repaired rule (C09-fix3-1,2,3): for every list
   of fields in every order, the compression variable a field ends up with -
   its own or one shared with an earlier field - holds the field's own values
   and refers to the field's own netCDF dimensions (compress attribute /
   instance dimension). *)
Theorem C09_compression_variable_own :
  forall cfs st xs, write_cfields true cfs st0 = (st, xs) -> Forall2 (cvar_own st) cfs xs.
Proof. exact compression_variable_own. Qed.
Print Assumptions C09_compression_variable_own.

(* ... so such a variable is shared only between fields for which it means
   the same thing: equal values and the same dimensions. *)
Theorem C09_compression_shared_same_meaning :
  forall cfs st xs i j cf1 cf2 x1 x2 cs1 cs2 v,
  write_cfields true cfs st0 = (st, xs) ->
  nth_error cfs i = Some cf1 -> nth_error xs i = Some x1 ->
  nth_error cfs j = Some cf2 -> nth_error xs j = Some x2 ->
  cf_c cf1 = Some cs1 -> cf_c cf2 = Some cs2 -> snd x1 = Some v -> snd x2 = Some v ->
  ctok (ccomp cs1) = ctok (ccomp cs2) /\ meaning cs1 (o_dims (fst x1)) = meaning cs2 (o_dims (fst x2)).
Proof. exact compression_shared_same_meaning. Qed.
Print Assumptions C09_compression_shared_same_meaning.

(* Per-field writer state (g['sample_ncdim'], reset at the start of every
   field): the variables a field gets, and the file after it, do not depend on
   the mapping left behind by the fields written before it ... *)
Theorem C09_per_field_state_independent :
  forall cfs st s1 s2,
  fst (fst (write_cfields2 true cfs st s1)) = fst (fst (write_cfields2 true cfs st s2)) /\
  snd (write_cfields2 true cfs st s1) = snd (write_cfields2 true cfs st s2).
Proof. exact cfields2_state_independent. Qed.
Print Assumptions C09_per_field_state_independent.

(* ... and every metadata construct compressed by gathering, of every field of
   every list (fields whose own gathered items use one list on one group of
   axes, g_ok: anything else is damaged in a file of its own), is written on a
   list variable that holds its own list values and whose compress attribute
   names its own dimensions - never on a list variable left by another field. *)
Theorem C09_gathered_constructs_own :
  forall cfs st s xs,
  Forall g_ok cfs -> write_cfields2 true cfs st0 [] = (st, s, xs) -> Forall2 (gitems_own st) cfs xs.
Proof. exact gathered_constructs_own. Qed.
Print Assumptions C09_gathered_constructs_own.

(* Open finding F09d: two fields share a coordinate variable, only one of them
   has formula terms: the other one reads them back as its own. *)
Theorem C09_formula_terms_leak_refuted :
  exists fs f, nth_error fs 1 = Some f /\ ft_conflict true fs = true /\
    nth_error (roundtrip true true fs) 1 <> nth_error (roundtrip true true [f]) 0.
Proof. exact formula_terms_leak_refuted. Qed.
Print Assumptions C09_formula_terms_leak_refuted.

(* Open finding F09e: with different terms on one shared coordinate variable
   the last writer wins, so the outcome depends on the order. *)
Theorem C09_formula_terms_order_refuted :
  exists f g, ft_conflict true [f; g] = true /\
    nth_error (roundtrip true true [f; g]) 0 <> nth_error (roundtrip true true [g; f]) 1.
Proof. exact formula_terms_order_refuted. Qed.
Print Assumptions C09_formula_terms_order_refuted.

(* Non-vacuity: a list that passes the guard, in which variables really are
   shared (fewer variables than the single files have together), and whose
   fields are read back as from files of their own, in two orders. *)
Theorem C09_sharing_example :
  (length (vt (fst (write_fields true [wA; wA; wB] st0))) <
   2 * length (vt (fst (write_fields true [wA] st0))) + length (vt (fst (write_fields true [wB] st0))))%nat /\
  ft_conflict true [wA; wA; wB] = false /\
  nth_error (roundtrip true true [wA; wA; wB]) 1 = nth_error (roundtrip true true [wA]) 0 /\
  nth_error (roundtrip true true [wB; wA; wA]) 0 = nth_error (roundtrip true true [wB]) 0.
Proof. exact sharing_example. Qed.
Print Assumptions C09_sharing_example.
