(* C13 - the property theorems, nothing else.  Each is closed by [exact] of a
   lemma from Lemmas.v and followed by Print Assumptions.
   Model: C13/Model.v (the reader with the repairs of handoff/C13-fix-1..7.diff and
   handoff/C13-fix2-1..3.diff; the pinned behaviour is kept as *_old, the behaviour
   before the fix2 diffs as *_head, both refuted in C13/Refuted.v). *)
From CfdmV Require Import Common.Base C13.Model C13.Lemmas.
Open Scope string_scope.
Open Scope list_scope.

(* Reading does not raise: for EVERY dataset of the fragment (any variables, any
   dimensions, any attribute strings - not only single faults of valid files) the
   model of cfdm.read returns.  Every d[k], l[0] and l.pop(0) of the anchored code is
   a partial operation in the model, so this proof is the audit of their guards. *)
(* (wf_dims: every variable spans dimensions of the file - true of any netCDF dataset; needed
   since the creation of a domain axis looks the size of its dimension up) *)
Theorem C13_read_total : forall ds, wf_dims ds -> forall e, read_skel ds <> RErr e.
Proof. exact read_total. Qed.
Print Assumptions C13_read_total.

(* The same for one variable turned into a field, and for the two places that
   raised at the pinned commit: the formula_terms check and the cell_methods parser,
   for every attribute string. *)
Theorem C13_field_total : forall ds v, wf_dims ds -> In v (a_vars ds) -> forall e, field_skel false ds v <> RErr e.
Proof. exact field_skel_total. Qed.
Print Assumptions C13_field_total.

Theorem C13_formula_terms_total : forall ds field coord ft z,
  internal ds field = true -> internal ds coord = true ->
  forall e, check_formula_terms false ds field coord ft z <> RErr e.
Proof. exact check_formula_terms_total. Qed.
Print Assumptions C13_formula_terms_total.

Theorem C13_cell_methods_total : forall field s e, parse_cell_methods field s <> RErr e.
Proof. exact parse_cell_methods_total. Qed.
Print Assumptions C13_cell_methods_total.

(* Single-fault tolerance, coordinates attribute (any number of tokens, fault at any
   position): replace one token by a name whose own verdict is "no construct, report
   rep" and the constructs are exactly those of the other tokens, in order - the same
   as if the token had been removed - while the report is the others' report with rep
   inserted. *)
Theorem C13_coordinates_single_fault : forall ds dims l1 bad l2 rep c1 m1 c2 m2,
  aux_one ds dims bad = ROk ([], rep) ->
  aux_pass ds dims l1 = ROk (c1, m1) -> aux_pass ds dims l2 = ROk (c2, m2) ->
  aux_pass ds dims (l1 ++ bad :: l2) = ROk (c1 ++ c2, m1 ++ rep ++ m2) /\
  aux_pass ds dims (l1 ++ l2) = ROk (c1 ++ c2, m1 ++ m2).
Proof. exact coordinates_single_fault. Qed.
Print Assumptions C13_coordinates_single_fault.

(* ... the unfaulted attribute, for comparison: the token's own constructs sit in between *)
Theorem C13_coordinates_unfaulted : forall ds dims l1 good l2 cg mg c1 m1 c2 m2,
  aux_one ds dims good = ROk (cg, mg) ->
  aux_pass ds dims l1 = ROk (c1, m1) -> aux_pass ds dims l2 = ROk (c2, m2) ->
  aux_pass ds dims (l1 ++ good :: l2) = ROk (c1 ++ cg ++ c2, m1 ++ mg ++ m2).
Proof. exact coordinates_unfaulted. Qed.
Print Assumptions C13_coordinates_unfaulted.

(* ... and the two kinds of broken token have exactly that verdict: a name that is not in
   the file, and a variable whose dimensions are not a subset of the parent's *)
Theorem C13_coordinates_missing_name : forall ds dims m,
  internal ds m = false -> mem m dims = false ->
  aux_one ds dims m = ROk ([], [(m, WAux, RMissing); (m, WAux, RMissing)]).
Proof. exact aux_one_missing. Qed.
Print Assumptions C13_coordinates_missing_name.

Theorem C13_coordinates_foreign_dimensions : forall ds dims m d,
  internal ds m = true -> mem m dims = false -> ncdims ds m = ROk d ->
  dims_are_subset ds m d dims = ROk false ->
  aux_one ds dims m = ROk ([], [(m, WAux, RDims)]).
Proof. exact aux_one_foreign. Qed.
Print Assumptions C13_coordinates_foreign_dimensions.

(* non-vacuity of the three theorems above *)
Theorem C13_coordinates_single_fault_example :
  aux_one ds_example ["x"] "nope_missing" = ROk ([], [("nope_missing", WAux, RMissing); ("nope_missing", WAux, RMissing)]) /\
  aux_one ds_example ["x"] "other" = ROk ([], [("other", WAux, RDims)]) /\
  aux_pass ds_example ["x"] ["t"] = ROk ([mkCons CDim "t" None], []) /\
  aux_pass ds_example ["x"] ["lat2"] = ROk ([mkCons CAux "lat2" None], [("nope_missing", WBounds, RMissing)]).
Proof. exact coordinates_single_fault_example. Qed.
Print Assumptions C13_coordinates_single_fault_example.

(* Single-fault tolerance, bounds / climatology attribute: the coordinate (or domain
   ancillary) is created all the same, without bounds, and the report names the variable *)
Theorem C13_bounds_missing : forall ds t n o v b pre,
  get_var ds n = ROk v -> own_bounds_msgs ds n v o = ROk pre ->
  bounds_name v o = Some b -> str_empty b = false -> internal ds b = false ->
  create_bounded ds t n o = ROk (mkCons t n None, pre ++ [(b, WBounds, RMissing)]).
Proof. exact bounds_missing. Qed.
Print Assumptions C13_bounds_missing.

Theorem C13_bounds_foreign_dimensions : forall ds t n o v b dc db pre,
  get_var ds n = ROk v -> own_bounds_msgs ds n v o = ROk pre ->
  bounds_name v o = Some b -> str_empty b = false -> internal ds b = true ->
  ncdims ds n = ROk dc -> ncdims ds b = ROk db ->
  Nat.eqb (length db) (S (length dc)) && list_eqb String.eqb dc (removelast db) = false ->
  create_bounded ds t n o = ROk (mkCons t n None, pre ++ [(b, WBounds, RDims)]).
Proof. exact bounds_foreign. Qed.
Print Assumptions C13_bounds_foreign_dimensions.

(* (pre = [] whenever the bounds are taken from the variable's own attribute) *)
Theorem C13_bounds_own_attribute_no_extra : forall ds n v, own_bounds_msgs ds n v None = ROk [].
Proof. exact own_bounds_msgs_none. Qed.
Print Assumptions C13_bounds_own_attribute_no_extra.

(* A redundant reference (fix3-1): a formula terms variable gets its bounds through the
   formula_terms of the parametric coordinate's bounds variable (b); if it also has a bounds
   attribute of its own naming a variable that is not in the file, nothing is left out - the
   construct is made as b decides - and the report names the missing variable. *)
Theorem C13_redundant_bounds_reported : forall ds t n v b own c ms,
  get_var ds n = ROk v -> attr v "bounds" = Some own -> str_empty own = false ->
  String.eqb own b = false -> internal ds own = false ->
  create_bounded ds t n (Some b) = ROk (c, ms) ->
  In (own, WBounds, RMissing) ms /\
  (internal ds b = true -> str_empty b = false -> forall dc db, ncdims ds n = ROk dc -> ncdims ds b = ROk db ->
     Nat.eqb (length db) (S (length dc)) && list_eqb String.eqb dc (removelast db) = true ->
     c = mkCons t n (Some b)).
Proof. exact redundant_bounds_reported. Qed.
Print Assumptions C13_redundant_bounds_reported.

Theorem C13_redundant_bounds_example :
  option_map (fun f => (f_cons f, f_report f)) (field_of_name (read_skel (ds_own_bounds "ab")) "ta") =
    Some ([mkCons CDim "z" (Some "zb"); mkCons CDomAnc "a" (Some "ab")], []) /\
  option_map (fun f => (f_cons f, f_report f)) (field_of_name (read_skel (ds_own_bounds "nope_missing")) "ta") =
    Some ([mkCons CDim "z" (Some "zb"); mkCons CDomAnc "a" (Some "ab")], [("nope_missing", WBounds, RMissing)]).
Proof. exact redundant_bounds_example. Qed.
Print Assumptions C13_redundant_bounds_example.

Theorem C13_bounds_missing_example :
  exists v, get_var ds_example "lat2" = ROk v /\ bounds_name v None = Some "nope_missing" /\
            str_empty "nope_missing" = false /\ internal ds_example "nope_missing" = false.
Proof. exact bounds_missing_example. Qed.
Print Assumptions C13_bounds_missing_example.

(* THE WHOLE READ, coordinates attribute.  F' = the file whose variable vn has one token of
   its coordinates attribute replaced by a name that cannot be mapped (verdict of the token:
   no construct, report entries rep); F0 = the same file with the token removed.  Then
   read F' and read F0 have the same outcome class (never an exception: C13_read_total), return
   the same list of fields - also the field of the replacement variable itself when that is a
   data variable of the file - every field identical except the one of vn, which has the same
   constructs, coordinate references, cell methods and references, and whose report is that
   of F0 with rep inserted.  Any dataset, any number of tokens, fault at any position. *)
Theorem C13_read_coordinates_single_fault : forall ds vn l1 bad l2 s s' rep,
  split_ws s' = l1 ++ bad :: l2 -> split_ws s = l1 ++ l2 ->
  (forall fdims, ncdims (norm ds) vn = ROk fdims -> aux_one (norm ds) fdims bad = ROk ([], rep)) ->
  res_rel (Forall2 (fun f' f => fault_rel rep f' f \/ f' = f))
    (read_skel (edit ds vn "coordinates" (Some s'))) (read_skel (edit ds vn "coordinates" (Some s))).
Proof. exact read_coordinates_single_fault. Qed.
Print Assumptions C13_read_coordinates_single_fault.

(* ... instantiated for a name that is not in the file *)
Theorem C13_read_coordinates_missing_name : forall ds vn l1 bad l2 s s',
  split_ws s' = l1 ++ bad :: l2 -> split_ws s = l1 ++ l2 ->
  internal ds bad = false ->
  (forall fdims, ncdims (norm ds) vn = ROk fdims -> mem bad fdims = false) ->
  res_rel (Forall2 (fun f' f => fault_rel [(bad, WAux, RMissing); (bad, WAux, RMissing)] f' f \/ f' = f))
    (read_skel (edit ds vn "coordinates" (Some s'))) (read_skel (edit ds vn "coordinates" (Some s))).
Proof. exact read_coordinates_missing_name. Qed.
Print Assumptions C13_read_coordinates_missing_name.

(* non-vacuity; the replacement `other` is itself an unreferenced data variable with foreign
   dimensions: its own field is returned in both reads *)
Theorem C13_read_coordinates_single_fault_example :
  let ds := edit ds_example "q" "coordinates" (Some "t lat2") in
  aux_one (norm ds) ["x"] "other" = ROk ([], [("other", WAux, RDims)]) /\
  ncdims (norm ds) "q" = ROk ["x"] /\
  map f_ncvar (match read_skel (edit ds "q" "coordinates" (Some "t other lat2")) with ROk fs => fs | _ => [] end)
    = ["other"; "q"] /\
  map f_ncvar (match read_skel (edit ds "q" "coordinates" (Some "t lat2")) with ROk fs => fs | _ => [] end)
    = ["other"; "q"].
Proof. exact read_coordinates_single_fault_example. Qed.
Print Assumptions C13_read_coordinates_single_fault_example.

(* The frame behind it: an edit of an attribute that is read on the data variable only
   (coordinates, grid_mapping, cell_measures, cell_methods, ancillary_variables) changes
   nothing of what the reader sees when it follows a reference, so the fields of all
   other variables are computed from the same dataset. *)
Theorem C13_edit_frame : forall ds vn a val, lookup_attr a = false -> norm (edit ds vn a val) = norm ds.
Proof. exact norm_edit. Qed.
Print Assumptions C13_edit_frame.

(* Single-fault tolerance for cell_measures and ancillary_variables (with fix2-1 each entry
   is judged on its own): any number of entries, fault at any position - the constructs are
   exactly those of the other entries, in order, the report has the culprit's entries inserted. *)
Theorem C13_measures_single_fault : forall ds field p1 bad p2 rep c1 m1 c2 m2,
  measure_one ds field bad = ROk ([], rep) ->
  measure_entries ds field p1 = ROk (c1, m1) -> measure_entries ds field p2 = ROk (c2, m2) ->
  measure_entries ds field (p1 ++ bad :: p2) = ROk (c1 ++ c2, m1 ++ rep ++ m2) /\
  measure_entries ds field (p1 ++ p2) = ROk (c1 ++ c2, m1 ++ m2).
Proof. intros ds field. exact (concat_pass_single_fault (measure_one ds field)). Qed.
Print Assumptions C13_measures_single_fault.

Theorem C13_measures_missing_name : forall ds field d k n,
  ncdims ds field = ROk d -> internal ds n = false -> mem n (externals ds) = false ->
  measure_one ds field (k, [n]) = ROk ([], [(n, WMeasure, RMissingExt)]).
Proof. exact measure_one_missing. Qed.
Print Assumptions C13_measures_missing_name.

Theorem C13_measures_foreign_dimensions : forall ds field d k n dn,
  ncdims ds field = ROk d -> internal ds n = true -> mem n (externals ds) = false ->
  ncdims ds n = ROk dn -> dims_are_subset ds n dn d = ROk false ->
  measure_one ds field (k, [n]) = ROk ([], [(n, WMeasure, RDims)]).
Proof. exact measure_one_foreign. Qed.
Print Assumptions C13_measures_foreign_dimensions.

Theorem C13_measures_single_fault_example :
  measure_one ds_two_measures "q" ("area", ["nope_missing"]) = ROk ([], [("nope_missing", WMeasure, RMissingExt)]) /\
  measure_entries ds_two_measures "q" [("area", ["area"])] = ROk ([mkCons CMeasure "area" None], []) /\
  measure_entries ds_two_measures "q" [("volume", ["vol"])] = ROk ([mkCons CMeasure "vol" None], []).
Proof. exact measures_single_fault_example. Qed.
Print Assumptions C13_measures_single_fault_example.

Theorem C13_ancillaries_single_fault : forall ds field l1 bad l2 rep c1 m1 c2 m2,
  anc_one ds field bad = ROk ([], rep) ->
  anc_toks ds field l1 = ROk (c1, m1) -> anc_toks ds field l2 = ROk (c2, m2) ->
  anc_toks ds field (l1 ++ bad :: l2) = ROk (c1 ++ c2, m1 ++ rep ++ m2) /\
  anc_toks ds field (l1 ++ l2) = ROk (c1 ++ c2, m1 ++ m2).
Proof. intros ds field. exact (concat_pass_single_fault (anc_one ds field)). Qed.
Print Assumptions C13_ancillaries_single_fault.

Theorem C13_ancillaries_missing_name : forall ds field d n,
  ncdims ds field = ROk d -> internal ds n = false ->
  anc_one ds field n = ROk ([], [(n, WAnc, RMissing)]).
Proof. exact anc_one_missing. Qed.
Print Assumptions C13_ancillaries_missing_name.

Theorem C13_ancillaries_foreign_dimensions : forall ds field d n dn,
  ncdims ds field = ROk d -> internal ds n = true -> ncdims ds n = ROk dn ->
  dims_are_subset ds n dn d = ROk false ->
  anc_one ds field n = ROk ([], [(n, WAnc, RDims)]).
Proof. exact anc_one_foreign. Qed.
Print Assumptions C13_ancillaries_foreign_dimensions.

(* Single-fault tolerance for formula_terms (fix2-2): the domain ancillaries of a parametric
   coordinate are made term by term; a term whose variable is missing or spans a dimension
   that the data variable does not span gives no construct and stays in the coordinate
   reference without a value; the other terms are unaffected.  Any number of terms. *)
Theorem C13_formula_terms_single_fault : forall ds fd bt t1 term bad t2 rep c1 ts1 m1 c2 ts2 m2,
  ft_ancillaries ds fd bt [(term, bad)] = ROk ([], [(term, None)], rep) ->
  ft_ancillaries ds fd bt t1 = ROk (c1, ts1, m1) -> ft_ancillaries ds fd bt t2 = ROk (c2, ts2, m2) ->
  ft_ancillaries ds fd bt (t1 ++ (term, bad) :: t2) =
    ROk (c1 ++ c2, ts1 ++ (term, None) :: ts2, m1 ++ rep ++ m2).
Proof. exact formula_terms_single_fault. Qed.
Print Assumptions C13_formula_terms_single_fault.

Theorem C13_formula_terms_foreign_dimensions : forall ds fd bt term n d cm,
  ncdims ds n = ROk d ->
  create_bounded ds CDomAnc n
    (match get_term term bt with Some (Some b) => if String.eqb b n then None else Some b | _ => None end) = ROk cm ->
  Nat.eqb (length (filter (fun x => mem x fd) d)) (length d) = false ->
  ft_ancillaries ds fd bt [(term, Some n)] = ROk ([], [(term, None)], snd cm ++ [(n, WFt, RDims)]).
Proof. exact ft_term_foreign. Qed.
Print Assumptions C13_formula_terms_foreign_dimensions.

(* grid_mapping: here the reader is all-or-nothing, and that is the statement: a grid
   mapping variable or a grid mapping coordinate variable that is not in the file, anywhere
   in the attribute, makes the verdict of _check_grid_mapping False (field_rest then makes no
   coordinate reference from the attribute) and is named in the report. *)
Theorem C13_grid_mapping_all_or_nothing : forall ds parsed gm coords,
  In (gm, coords) parsed ->
  (internal ds gm = false -> fst (check_gm_list ds parsed) = false /\
                             In (gm, WGm, RMissing) (snd (check_gm_list ds parsed))) /\
  (forall c, In c coords -> internal ds c = false ->
     fst (check_gm_list ds parsed) = false /\ In (c, WGmCoord, RMissing) (snd (check_gm_list ds parsed))).
Proof. exact check_gm_list_missing. Qed.
Print Assumptions C13_grid_mapping_all_or_nothing.

(* All files are closed: whatever further datasets the body of the read opens, and
   whether it returns or raises (at any point), the trace of cfdm.read is: the opens,
   then every opened dataset closed exactly once. *)
Theorem C13_closed_on_every_path : forall steps e,
  read_trace steps e = EvOpen 0%nat :: map EvOpen (opens steps) ++ map EvClose (0%nat :: opens steps).
Proof. exact read_trace_spec. Qed.
Print Assumptions C13_closed_on_every_path.

Theorem C13_closed_balanced : forall steps e i,
  count_ev (is_close i) (read_trace steps e) = count_ev (is_open i) (read_trace steps e).
Proof. exact read_closed. Qed.
Print Assumptions C13_closed_balanced.

(* ------------------------------------------------------------------ third pass *)

(* All files are closed, external files included (cfdm.read(parent, external=...)): whatever the
   body opens, and for every scan of an external file - successful whether or not the file holds
   a wanted variable, failing before or after it has opened the file - and whether the body then
   returns or raises, every dataset is closed exactly as often as it was opened (fix3-2). *)
Theorem C13_closed_balanced_external : forall steps e i,
  count_ev (is_close i) (xread_trace VFixed steps e) = count_ev (is_open i) (xread_trace VFixed steps e).
Proof. exact xread_closed. Qed.
Print Assumptions C13_closed_balanced_external.

(* _check_compress: the verdict is True exactly when the attribute names at least one dimension
   and EVERY name, in any position, is a dimension of the file *)
Theorem C13_check_compress_sound : forall dims parsed,
  fst (check_compress dims parsed) = true <-> parsed <> [] /\ forall d, In d parsed -> mem d dims = true.
Proof. exact check_compress_sound. Qed.
Print Assumptions C13_check_compress_sound.

(* ... hence no registered gathered compression implies a dimension that is not in the file, and
   the dimensions of every variable, expanded, are dimensions of the file: the size lookups of
   the domain axes cannot fail (this is the step of C13_read_total that the seeded
   _check_compress breaks) *)
Theorem C13_gathered_dimensions_exist : forall ds n d, wf_dims ds -> ncdims ds n = ROk d -> in_dims ds d.
Proof. exact ncdims_in_dims. Qed.
Print Assumptions C13_gathered_dimensions_exist.

Theorem C13_gathered_example :
  option_map f_cons (field_of_name (read_skel (ds_gathered "lat lon")) "gq") =
    Some [mkCons CDim "lat" None; mkCons CDim "lon" None] /\
  option_map f_cons (field_of_name (read_skel (ds_gathered "nope lon")) "gq") =
    Some [mkCons CDim "landpoint" None] /\
  field_of_name (read_skel (ds_gathered "lat lon")) "landpoint" = None /\
  field_of_name (read_skel (ds_gathered "nope lon")) "landpoint" = None.
Proof. exact gathered_example. Qed.
Print Assumptions C13_gathered_example.

(* Grouped datasets (fix3-5): mapping the references back through the flattener's table is total;
   it agrees with the strict lookup whenever every reference was resolved, and a reference that
   was not resolved stays in the list - a name that is not in the file, which the checks of the
   attribute then report like any missing variable (C13_coordinates_missing_name etc.) *)
Theorem C13_group_references_resolved : forall m toks,
  (forall t, In t toks -> assoc t m <> None) -> resolve_head m toks = ROk (resolve m toks).
Proof. exact resolve_head_ok. Qed.
Print Assumptions C13_group_references_resolved.

Theorem C13_group_reference_unresolved_kept : forall m toks t,
  In t toks -> assoc t m = None -> In t (resolve m toks).
Proof. exact resolve_keeps. Qed.
Print Assumptions C13_group_reference_unresolved_kept.

(* The report bookkeeping (fix3-7): a message about the relation between a variable and one
   parent (such as "spans incorrect dimensions") is found in the report of that parent only,
   whatever messages are emitted and whatever constructs are copied from the caches afterwards. *)
Theorem C13_report_no_leak : forall evs p q m, In (p, (q, m, false)) (bk_run false evs [] []) -> p = q.
Proof. intros evs. apply bk_run_ok. split; intros; contradiction. Qed.
Print Assumptions C13_report_no_leak.

(* The cache of auxiliary coordinates (fix3-8): every parent gets the construct that is made
   with its own geometry container, whatever was cached before. *)
Theorem C13_aux_cache_by_geometry : forall reqs cache,
  aux_cache_run true reqs cache = map (fun r => (snd r, fst r)) reqs.
Proof. exact aux_cache_by_geometry. Qed.
Print Assumptions C13_aux_cache_by_geometry.

(* ------------------------------------------------------------------ fourth pass *)
(* fix4-2: a broken compress attribute is recorded in the report of every field built from a
   variable that spans the list variable's dimension (the data it would have uncompressed) *)
Theorem C13_compress_missing_reported : forall ds l c v,
  In l (a_vars ds) -> compress_of l = Some c ->
  fst (check_compress (a_dims ds) (split_ws c)) = false -> mem (v_name l) (v_dims v) = true ->
  exists w r, In (v_name l, w, r) (compress_msgs ds v).
Proof. exact compress_missing_reported. Qed.
Print Assumptions C13_compress_missing_reported.

Theorem C13_compress_reported_example :
  option_map f_report (field_of_name (read_skel (ds_gathered "nope lon")) "gq") =
    Some [("landpoint", WCompress, RMissing)] /\
  option_map f_report (field_of_name (read_skel (ds_gathered "lat lon")) "gq") = Some [].
Proof. exact compress_reported_example. Qed.
Print Assumptions C13_compress_reported_example.
