(* C13 - the property theorems, nothing else.  Each is closed by [exact] of a
   lemma from Lemmas.v and followed by Print Assumptions.
   Model: C13/Model.v (the reader with the repairs of handoff/C13-fix-1..7.diff;
   the pinned behaviour is kept as *_old, refuted in C13/Refuted.v). *)
From CfdmV Require Import Common.Base C13.Model C13.Lemmas.
Open Scope string_scope.
Open Scope list_scope.

(* Reading does not raise: for EVERY dataset of the fragment (any variables, any
   dimensions, any attribute strings - not only single faults of valid files) the
   model of cfdm.read returns.  Every d[k], l[0] and l.pop(0) of the anchored code is
   a partial operation in the model, so this proof is the audit of their guards. *)
Theorem C13_read_total : forall ds e, read_skel ds <> RErr e.
Proof. exact read_total. Qed.
Print Assumptions C13_read_total.

(* The same for one variable turned into a field, and for the two places that
   raised at the pinned commit: the formula_terms check and the cell_methods parser,
   for every attribute string. *)
Theorem C13_field_total : forall ds v, In v (a_vars ds) -> forall e, field_skel false ds v <> RErr e.
Proof. exact field_skel_total. Qed.
Print Assumptions C13_field_total.

Theorem C13_formula_terms_total : forall ds field coord ft z,
  internal ds field = true -> internal ds coord = true ->
  forall e, check_formula_terms false ds field coord ft z <> RErr e.
Proof. exact check_formula_terms_total. Qed.
Print Assumptions C13_formula_terms_total.

Theorem C13_cell_methods_total : forall field s e, parse_cell_methods field s <> RErr e.
Proof. exact parse_cell_methods_total. Qed.
Print Assumptions C13_cell_methods_total.

(* Single-fault tolerance, coordinates attribute (any number of tokens, fault at any
   position): replace one token by a name whose own verdict is "no construct, report
   rep" and the constructs are exactly those of the other tokens, in order - the same
   as if the token had been removed - while the report is the others' report with rep
   inserted. *)
Theorem C13_coordinates_single_fault : forall ds dims l1 bad l2 rep c1 m1 c2 m2,
  aux_one ds dims bad = ROk ([], rep) ->
  aux_pass ds dims l1 = ROk (c1, m1) -> aux_pass ds dims l2 = ROk (c2, m2) ->
  aux_pass ds dims (l1 ++ bad :: l2) = ROk (c1 ++ c2, m1 ++ rep ++ m2) /\
  aux_pass ds dims (l1 ++ l2) = ROk (c1 ++ c2, m1 ++ m2).
Proof. exact coordinates_single_fault. Qed.
Print Assumptions C13_coordinates_single_fault.

(* ... the unfaulted attribute, for comparison: the token's own constructs sit in between *)
Theorem C13_coordinates_unfaulted : forall ds dims l1 good l2 cg mg c1 m1 c2 m2,
  aux_one ds dims good = ROk (cg, mg) ->
  aux_pass ds dims l1 = ROk (c1, m1) -> aux_pass ds dims l2 = ROk (c2, m2) ->
  aux_pass ds dims (l1 ++ good :: l2) = ROk (c1 ++ cg ++ c2, m1 ++ mg ++ m2).
Proof. exact coordinates_unfaulted. Qed.
Print Assumptions C13_coordinates_unfaulted.

(* ... and the two kinds of broken token have exactly that verdict: a name that is not in
   the file, and a variable whose dimensions are not a subset of the parent's *)
Theorem C13_coordinates_missing_name : forall ds dims m,
  internal ds m = false -> mem m dims = false ->
  aux_one ds dims m = ROk ([], [(m, WAux, RMissing); (m, WAux, RMissing)]).
Proof. exact aux_one_missing. Qed.
Print Assumptions C13_coordinates_missing_name.

Theorem C13_coordinates_foreign_dimensions : forall ds dims m d,
  internal ds m = true -> mem m dims = false -> ncdims ds m = ROk d ->
  dims_are_subset ds m d dims = ROk false ->
  aux_one ds dims m = ROk ([], [(m, WAux, RDims)]).
Proof. exact aux_one_foreign. Qed.
Print Assumptions C13_coordinates_foreign_dimensions.

(* non-vacuity of the three theorems above *)
Theorem C13_coordinates_single_fault_example :
  aux_one ds_example ["x"] "nope_missing" = ROk ([], [("nope_missing", WAux, RMissing); ("nope_missing", WAux, RMissing)]) /\
  aux_one ds_example ["x"] "other" = ROk ([], [("other", WAux, RDims)]) /\
  aux_pass ds_example ["x"] ["t"] = ROk ([mkCons CDim "t" None], []) /\
  aux_pass ds_example ["x"] ["lat2"] = ROk ([mkCons CAux "lat2" None], [("nope_missing", WBounds, RMissing)]).
Proof. exact coordinates_single_fault_example. Qed.
Print Assumptions C13_coordinates_single_fault_example.

(* Single-fault tolerance, bounds / climatology attribute: the coordinate (or domain
   ancillary) is created all the same, without bounds, and the report names the variable *)
Theorem C13_bounds_missing : forall ds t n o v b,
  get_var ds n = ROk v -> bounds_name v o = Some b -> str_empty b = false -> internal ds b = false ->
  create_bounded ds t n o = ROk (mkCons t n None, [(b, WBounds, RMissing)]).
Proof. exact bounds_missing. Qed.
Print Assumptions C13_bounds_missing.

Theorem C13_bounds_foreign_dimensions : forall ds t n o v b dc db,
  get_var ds n = ROk v -> bounds_name v o = Some b -> str_empty b = false -> internal ds b = true ->
  ncdims ds n = ROk dc -> ncdims ds b = ROk db ->
  Nat.eqb (length db) (S (length dc)) && list_eqb String.eqb dc (removelast db) = false ->
  create_bounded ds t n o = ROk (mkCons t n None, [(b, WBounds, RDims)]).
Proof. exact bounds_foreign. Qed.
Print Assumptions C13_bounds_foreign_dimensions.

Theorem C13_bounds_missing_example :
  exists v, get_var ds_example "lat2" = ROk v /\ bounds_name v None = Some "nope_missing" /\
            str_empty "nope_missing" = false /\ internal ds_example "nope_missing" = false.
Proof. exact bounds_missing_example. Qed.
Print Assumptions C13_bounds_missing_example.

(* cell_measures (and, by the same code shape, ancillary_variables, grid_mapping and
   formula terms with foreign dimensions): the full statement
       "the other variables named by the attribute are still mapped"
   is FALSE of the faithful model - the reader drops every construct of the attribute
   (open findings with signature sibling-dropped).  What holds is all-or-nothing with a report: *)
Theorem C13_measures_all_or_nothing_partial : forall ds field s k n cs ms,
  In (k, [n]) (parse_x s) -> internal ds n = false -> mem n (externals ds) = false ->
  measure_pass ds field s = ROk (cs, ms) ->
  cs = [] /\ In (n, WMeasure, RMissingExt) ms.
Proof. exact measures_all_or_nothing. Qed.
Print Assumptions C13_measures_all_or_nothing_partial.

Theorem C13_measures_sibling_refuted :
  measure_pass ds_two_measures "q" "area: area volume: vol" =
    ROk ([mkCons CMeasure "area" None; mkCons CMeasure "vol" None], []) /\
  measure_pass ds_two_measures "q" "area: nope_missing volume: vol" =
    ROk ([], [("nope_missing", WMeasure, RMissingExt)]).
Proof. exact measures_sibling_refuted. Qed.
Print Assumptions C13_measures_sibling_refuted.

Theorem C13_ancillaries_sibling_refuted :
  anc_pass ds_two_measures "q" "area vol" =
    ROk ([mkCons CFieldAnc "area" None; mkCons CFieldAnc "vol" None], []) /\
  anc_pass ds_two_measures "q" "nope_missing vol" = ROk ([], [("nope_missing", WAnc, RMissing)]).
Proof. exact ancillaries_sibling_refuted. Qed.
Print Assumptions C13_ancillaries_sibling_refuted.

(* All files are closed: whatever further datasets the body of the read opens, and
   whether it returns or raises (at any point), the trace of cfdm.read is: the opens,
   then every opened dataset closed exactly once. *)
Theorem C13_closed_on_every_path : forall steps e,
  read_trace steps e = EvOpen 0%nat :: map EvOpen (opens steps) ++ map EvClose (0%nat :: opens steps).
Proof. exact read_trace_spec. Qed.
Print Assumptions C13_closed_on_every_path.

Theorem C13_closed_balanced : forall steps e i,
  count_ev (is_close i) (read_trace steps e) = count_ev (is_open i) (read_trace steps e).
Proof. exact read_closed. Qed.
Print Assumptions C13_closed_balanced.
