(* C13 - evaluation entry points for the correspondence harness. *)
From CfdmV Require Import Common.Base C13.Model.
Open Scope string_scope.
Open Scope list_scope.

(* what the harness saw of one field returned by cfdm.read *)
Definition ocons : Type := ctype * string * option string.
Definition ocref : Type := option string * list string * list (string * option string).
Definition ofield : Type :=
  string * list ocons * list ocref * list (nat * option string) * list msg.
(* one case: the raw content of the file, the exception class (if any), the fields *)
Definition case : Type := ads * option errk * list ofield.

Definition set_eqb {A} (eqb : A -> A -> bool) (a b : list A) : bool :=
  forallb (fun x => existsb (eqb x) b) a && forallb (fun y => existsb (eqb y) a) b.

Definition ocons_eqb (a b : ocons) : bool :=
  let '(t1, n1, b1) := a in let '(t2, n2, b2) := b in
  ctype_eqb t1 t2 && String.eqb n1 n2 && option_eqb String.eqb b1 b2.

Definition term_eqb (a b : string * option string) : bool :=
  String.eqb (fst a) (fst b) && option_eqb String.eqb (snd a) (snd b).

(* a model reference against an observed one: the coordinates are compared
   only where the model determines them *)
Definition cref_matches (m : cref) (o : ocref) : bool :=
  let '(nv, coords, ts) := o in
  option_eqb String.eqb (r_ncvar m) nv &&
  match r_coords m with Some l => set_eqb String.eqb l coords | None => true end &&
  set_eqb term_eqb (r_terms m) ts.

Definition method_eqb (m : cmeth) (o : nat * option string) : bool :=
  Nat.eqb (length (m_axes m)) (fst o) && option_eqb String.eqb (m_method m) (snd o).

Fixpoint methods_eqb (ms : list cmeth) (os : list (nat * option string)) : bool :=
  match ms, os with
  | [], [] => true
  | m :: r, o :: s => method_eqb m o && methods_eqb r s
  | _, _ => false
  end.

Definition field_matches (f : fskel) (o : ofield) : bool :=
  let '(n, cs, crs, meths, rep) := o in
  String.eqb (f_ncvar f) n &&
  set_eqb ocons_eqb (map (fun c => (c_type c, c_ncvar c, c_bounds c)) (f_cons f)) cs &&
  forallb (fun m => existsb (cref_matches m) crs) (f_crefs f) &&
  Nat.eqb (length (f_crefs f)) (length crs) &&
  methods_eqb (f_methods f) meths &&
  (* every problem the model reports is in dataset_compliance() *)
  forallb (fun m => existsb (msg_eqb m) rep) (f_report f).

Definition fields_match (fs : list fskel) (os : list ofield) : bool :=
  Nat.eqb (length fs) (length os) &&
  forallb (fun f => existsb (field_matches f) os) fs.

Definition check_gen (strict : bool) (c : case) : bool :=
  let '(ds, exc, os) := c in
  match read_skel_gen strict ds, exc with
  | ROut, _ => true
  | ROk fs, None => fields_match fs os
  | RErr e, Some e' => errk_eqb e e'
  | _, _ => false
  end.

(* against the tree with the proposed repairs / against the pinned tree *)
Definition check_case := check_gen false.
Definition check_case_old := check_gen true.

(* as check_case, but false also when the dataset is outside the fragment *)
Definition check_strict (c : case) : bool :=
  let '(ds, exc, os) := c in
  match read_skel ds, exc with
  | ROk fs, None => fields_match fs os
  | RErr e, Some e' => errk_eqb e e'
  | _, _ => false
  end.

(* is the case inside the modelled fragment (so that check_case says something) *)
Definition in_fragment (c : case) : bool :=
  let '(ds, _, _) := c in
  match read_skel ds with ROut => false | _ => true end.

(* what the model expects, for diagnosis *)
Definition explain (c : case) :=
  let '(ds, _, _) := c in
  match read_skel ds with
  | ROk fs => ROk (map (fun f => (f_ncvar f, map (fun c => (c_type c, c_ncvar c, c_bounds c)) (f_cons f),
                                  map (fun r => (r_ncvar r, r_coords r, r_terms r)) (f_crefs f),
                                  map (fun m => (length (m_axes m), m_method m)) (f_methods f), f_report f)) fs)
  | RErr e => RErr e
  | ROut => ROut
  end.
