(* C13 - the reader as it stood at the pinned commit does NOT satisfy C13_read_total
   nor C13_closed_on_every_path.  Witnesses (each replayed against the implementation
   before the repairs, see handoff/C13.md); beside each, what the repaired model does
   with the same dataset. *)
From CfdmV Require Import Common.Base C13.Model C13.Lemmas.
Open Scope string_scope.
Open Scope list_scope.

(* F13a: bounds attribute of a parametric coordinate names a missing variable -> KeyError;
   repaired: field ta is returned, coordinate z kept without bounds, entry in the report *)
Theorem C13_old_missing_bounds_refuted :
  read_skel_old (ds_f13 "nope_missing" "a: z b: b") = RErr KeyErr /\
  returns_with (read_skel (ds_f13 "nope_missing" "a: z b: b")) "ta"
               ("nope_missing", WBounds, RMissing) (mkCons CDim "z" None) = true.
Proof. exact f13a_old_refuted. Qed.
Print Assumptions C13_old_missing_bounds_refuted.

(* F13b: a formula term names a missing variable -> KeyError(None) *)
Theorem C13_old_missing_formula_term_refuted :
  read_skel_old (ds_f13 "zb" "a: z b: nope_missing") = RErr KeyErr /\
  returns_with (read_skel (ds_f13 "zb" "a: z b: nope_missing")) "ta"
               ("nope_missing", WFt, RMissing) (mkCons CDomAnc "z" (Some "zb")) = true.
Proof. exact f13b_old_refuted. Qed.
Print Assumptions C13_old_missing_formula_term_refuted.

(* F13c: a cell_methods string that ends inside its parentheses -> IndexError *)
Theorem C13_old_cell_methods_refuted :
  let ds := mkAds [ mkVar "q" [] false false [("cell_methods", "time: mean (interval: 0.1 nope_missing")] ] [] in
  read_skel_old ds = RErr IndexErr /\
  read_skel ds = ROk [mkF "q" [] [] [] [("q", WCmAttr, RFormat)] []].
Proof. exact f13c_old_refuted. Qed.
Print Assumptions C13_old_cell_methods_refuted.

Theorem C13_old_cell_methods_parser_refuted :
  exists f s, parse_cell_methods_old f s = RErr IndexErr.
Proof. exact parse_cell_methods_old_refuted. Qed.
Print Assumptions C13_old_cell_methods_parser_refuted.

(* F13f: a scalar coordinate variable with a formula_terms attribute -> IndexError *)
Theorem C13_old_scalar_parametric_refuted :
  read_skel_old ds_f13f = RErr IndexErr /\ exists fs, read_skel ds_f13f = ROk fs.
Proof. exact f13f_old_refuted. Qed.
Print Assumptions C13_old_scalar_parametric_refuted.

(* The reader before handoff/C13-fix2-1..3.diff (definitions ending in _head): "only the element
   that could not be mapped is left out" was false for attributes naming several variables.
   Each witness also shows what the repaired model returns for the same input. *)
Theorem C13_head_measures_all_or_nothing : forall ds field s k n cs ms,
  In (k, [n]) (parse_x s) -> internal ds n = false -> mem n (externals ds) = false ->
  measure_pass_head ds field s = ROk (cs, ms) ->
  cs = [] /\ In (n, WMeasure, RMissingExt) ms.
Proof. exact measures_all_or_nothing_head. Qed.
Print Assumptions C13_head_measures_all_or_nothing.

Theorem C13_head_measures_sibling_refuted :
  measure_pass_head ds_two_measures "q" "area: area volume: vol" =
    ROk ([mkCons CMeasure "area" None; mkCons CMeasure "vol" None], []) /\
  measure_pass_head ds_two_measures "q" "area: nope_missing volume: vol" =
    ROk ([], [("nope_missing", WMeasure, RMissingExt)]) /\
  measure_pass ds_two_measures "q" "area: nope_missing volume: vol" =
    ROk ([mkCons CMeasure "vol" None], [("nope_missing", WMeasure, RMissingExt)]).
Proof. exact measures_sibling_head_refuted. Qed.
Print Assumptions C13_head_measures_sibling_refuted.

Theorem C13_head_ancillaries_sibling_refuted :
  anc_pass_head ds_two_measures "q" "area vol" =
    ROk ([mkCons CFieldAnc "area" None; mkCons CFieldAnc "vol" None], []) /\
  anc_pass_head ds_two_measures "q" "nope_missing vol" = ROk ([], [("nope_missing", WAnc, RMissing)]) /\
  anc_pass ds_two_measures "q" "nope_missing vol" =
    ROk ([mkCons CFieldAnc "vol" None], [("nope_missing", WAnc, RMissing)]).
Proof. exact ancillaries_sibling_head_refuted. Qed.
Print Assumptions C13_head_ancillaries_sibling_refuted.

Theorem C13_head_formula_terms_sibling_refuted :
  ft_ancillaries_head ds_ft ["z"; "x"] [] [("a", Some "a"); ("b", Some "other"); ("orog", Some "orog")] =
    ROk ([mkCons CDomAnc "a" None; mkCons CDomAnc "orog" None], false, [("other", WFt, RDims)]) /\
  ft_ancillaries ds_ft ["z"; "x"] [] [("a", Some "a"); ("b", Some "other"); ("orog", Some "orog")] =
    ROk ([mkCons CDomAnc "a" None; mkCons CDomAnc "orog" None],
         [("a", Some "a"); ("b", None); ("orog", Some "orog")], [("other", WFt, RDims)]) /\
  option_map (fun f => (f_cons f, f_crefs f)) (field_of (read_skel_old ds_ft) "ta") =
    Some ([mkCons CDim "z" None; mkCons CDim "x" None], []) /\
  option_map (fun f => (f_cons f, f_crefs f)) (field_of (read_skel ds_ft) "ta") =
    Some ([mkCons CDim "z" None; mkCons CDim "x" None; mkCons CDomAnc "a" None; mkCons CDomAnc "orog" None],
          [mkCref None (Some ["z"]) [("a", Some "a"); ("b", None); ("orog", Some "orog")]]).
Proof. exact formula_terms_sibling_head_refuted. Qed.
Print Assumptions C13_head_formula_terms_sibling_refuted.

(* file_close only on the success path: a read that raises leaves the dataset open *)
Theorem C13_old_left_open_refuted :
  exists steps e, count_ev (is_close 0%nat) (read_trace_old steps e) <>
                  count_ev (is_open 0%nat) (read_trace_old steps e).
Proof. exact read_closed_old_refuted. Qed.
Print Assumptions C13_old_left_open_refuted.

(* ------------------------------------------------------------------ third pass *)
(* seeded change A (`continue` before datasets.append(nc)): an external file that holds none of
   the wanted variables is opened and never closed *)
Theorem C13_seedA_external_left_open_refuted :
  count_ev (is_open 1%nat) (xread_trace VSeedA [XScan 1%nat (ScanOk false)] Returns) = 1%nat /\
  count_ev (is_close 1%nat) (xread_trace VSeedA [XScan 1%nat (ScanOk false)] Returns) = 0%nat.
Proof. exact xread_seedA_refuted. Qed.
Print Assumptions C13_seedA_external_left_open_refuted.

(* before fix3-2: a scan of an external file that raises (the file does not exist) leaves the
   PARENT dataset open, because self.read_vars is still the nested one when file_close runs *)
Theorem C13_head_failed_scan_left_open_refuted :
  count_ev (is_open 0%nat) (xread_trace VHead [XScan 1%nat ScanFailBefore] Raises) = 1%nat /\
  count_ev (is_close 0%nat) (xread_trace VHead [XScan 1%nat ScanFailBefore] Raises) = 0%nat /\
  xread_trace VFixed [XScan 1%nat ScanFailBefore] Raises = [EvOpen 0%nat; EvClose 0%nat] /\
  xread_trace VFixed [XScan 1%nat ScanFailAfter] Raises = [EvOpen 0%nat; EvOpen 1%nat; EvClose 1%nat; EvClose 0%nat].
Proof. exact xread_head_refuted. Qed.
Print Assumptions C13_head_failed_scan_left_open_refuted.

(* seeded change B (`ok = ncdim in dimensions` at every iteration): a missing dimension in any
   position but the last is accepted, and the bogus dimension makes the read raise KeyError *)
Theorem C13_seedB_check_compress_refuted :
  check_compress_seeded ["lat"; "lon"] ["nope"; "lon"] true = true /\
  fst (check_compress ["lat"; "lon"] ["nope"; "lon"]) = false.
Proof. exact check_compress_seeded_refuted. Qed.
Print Assumptions C13_seedB_check_compress_refuted.

Theorem C13_seedB_read_raises_refuted :
  let ds := mkAds3 [mkVar "gq" ["landpoint"] false false []] [] ["lat"; "lon"; "landpoint"] in
  dim_pass ds (expand [("landpoint", ["nope"; "lon"])] ["landpoint"]) = RErr KeyErr.
Proof. exact seeded_compress_raises. Qed.
Print Assumptions C13_seedB_read_raises_refuted.

(* before fix3-5: an unresolved reference of a grouped dataset raised KeyError *)
Theorem C13_head_group_reference_refuted :
  resolve_head [("lat", "/g/lat")] ["lat"; "REF_NOT_FOUND_nope"] = RErr KeyErr /\
  resolve [("lat", "/g/lat")] ["lat"; "REF_NOT_FOUND_nope"] = ["/g/lat"; "REF_NOT_FOUND_nope"].
Proof. exact resolve_head_refuted. Qed.
Print Assumptions C13_head_group_reference_refuted.

(* before fix3-7: report leakage through _copy_construct *)
Theorem C13_head_report_leak_refuted :
  In ("ta", ("lev", 7%nat, false)) (bk_run true [Emit "lev" "orog" 7%nat false; Copy "ta" "orog"] [] []) /\
  bk_run false [Emit "lev" "orog" 7%nat false; Copy "ta" "orog"] [] [] = [("lev", ("lev", 7%nat, false))].
Proof. exact bk_head_refuted. Qed.
Print Assumptions C13_head_report_leak_refuted.

(* before fix3-8: construct leakage through the cache of auxiliary coordinates *)
Theorem C13_head_aux_cache_refuted :
  aux_cache_run false [(None, "lat"); (Some "geometry1", "lat")] [] = [("lat", None); ("lat", None)] /\
  aux_cache_run true [(None, "lat"); (Some "geometry1", "lat")] [] = [("lat", None); ("lat", Some "geometry1")].
Proof. exact aux_cache_head_refuted. Qed.
Print Assumptions C13_head_aux_cache_refuted.

(* before fix3-3: a char variable with a foreign leading dimension passed the subset test *)
Theorem C13_head_char_foreign_refuted :
  let ds := mkAds [mkVar "label" ["zz"; "strlen"] true false []; mkVar "q" ["lat"] false false []] [] in
  ncdims ds "label" = ROk ["zz"] /\
  dims_are_subset_head ds "label" ["zz"] ["lat"] = ROk true /\
  dims_are_subset ds "label" ["zz"] ["lat"] = ROk false.
Proof. exact dims_are_subset_head_refuted. Qed.
Print Assumptions C13_head_char_foreign_refuted.
