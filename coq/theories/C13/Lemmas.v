(* C13 - proofs about the reader model. *)
From CfdmV Require Import Common.Base C13.Model.
Open Scope string_scope.
Open Scope list_scope.

Ltac splits := repeat match goal with |- _ /\ _ => split end.

(* ------------------------------------------------------------------ no exception *)
Definition noerr {A} (r : res A) : Prop := forall e, r <> RErr e.
(* the only exception is IndexError *)
Definition only_index {A} (r : res A) : Prop := forall e, r = RErr e -> e = IndexErr.

Lemma noerr_ok {A} (a : A) : noerr (ROk a).
Proof. intros e H; discriminate. Qed.
Lemma noerr_out {A} : noerr (@ROut A).
Proof. intros e H; discriminate. Qed.
#[export] Hint Resolve noerr_ok noerr_out : c13.

Lemma noerr_bind {A B} (m : res A) (f : A -> res B) :
  noerr m -> (forall a, m = ROk a -> noerr (f a)) -> noerr (bind m f).
Proof.
  intros Hm Hf. destruct m as [a|e|]; simpl.
  - apply Hf; reflexivity.
  - exfalso; exact (Hm e eq_refl).
  - apply noerr_out.
Qed.

Lemma oi_ok {A} (a : A) : only_index (ROk a).
Proof. intros e H; discriminate. Qed.
Lemma oi_out {A} : only_index (@ROut A).
Proof. intros e H; discriminate. Qed.
Lemma oi_idx {A} : only_index (@RErr A IndexErr).
Proof. intros e H; inversion H; reflexivity. Qed.
#[export] Hint Resolve oi_ok oi_out oi_idx : c13.

Lemma oi_bind {A B} (m : res A) (f : A -> res B) :
  only_index m -> (forall a, only_index (f a)) -> only_index (bind m f).
Proof.
  intros Hm Hf. destruct m as [a|e|]; simpl; auto with c13.
  intros e' H. inversion H; subst. apply Hm; reflexivity.
Qed.

Lemma oi_pop0 l : only_index (pop0 l).
Proof. destruct l; simpl; auto with c13. Qed.
Lemma oi_hd0 l : only_index (hd0 l).
Proof. destruct l; simpl; auto with c13. Qed.
#[export] Hint Resolve oi_pop0 oi_hd0 : c13.

(* ------------------------------------------------------------------ cell_methods parser *)
Lemma oi_take_kws : forall fuel l c, only_index (take_kws fuel l c).
Proof.
  induction fuel as [|f IH]; intros l c; simpl; auto with c13.
  apply oi_bind; auto with c13. intros x.
  destruct (is_climkw x); auto with c13.
  apply oi_bind; auto with c13. intros p.
  apply oi_bind; auto with c13. intros q.
  destruct (snd q); auto with c13.
Qed.

Lemma oi_take_parens : forall fuel l c, only_index (take_parens fuel l c).
Proof.
  induction fuel as [|f IH]; intros l c; simpl; auto with c13.
  apply oi_bind; auto with c13. intros x.
  destruct (String.eqb x ")"); auto with c13.
  apply oi_bind; auto with c13. intros p.
  destruct (String.eqb (drop_last (fst p)) "interval").
  - apply oi_bind; auto with c13. intros q.
    apply oi_bind; auto with c13. intros y.
    apply oi_bind.
    + destruct (String.eqb y ")"); auto with c13.
      apply oi_bind; auto with c13.
    + intros rest. destruct (plain_number (fst q)); auto with c13.
  - destruct (String.eqb (drop_last (fst p)) "comment"); auto with c13.
    destruct (take_comment (snd p)); auto.
Qed.

Lemma oi_parse_one : forall fuel l, only_index (parse_one fuel l).
Proof.
  intros fuel l. unfold parse_one.
  destruct (take_axes l) as [axes l1].
  destruct l1 as [|meth l2]; auto with c13.
  destruct l2 as [|x0 l3]; auto with c13.
  apply oi_bind. { apply oi_take_kws. }
  intros [l4 c]. destruct l4 as [|x r]; auto with c13.
  apply oi_bind.
  - destruct (ends_with lpar x); auto with c13.
    apply oi_bind; auto with c13. intros y.
    apply oi_bind. { apply oi_take_parens. }
    intros [l5 c5]. apply oi_bind; auto with c13.
  - intros [l6 c6]. auto with c13.
Qed.

Lemma oi_parse_cms : forall fuel l, only_index (parse_cms fuel l).
Proof.
  induction fuel as [|f IH]; intros l; simpl; auto with c13.
  destruct l as [|x r]; auto with c13.
  apply oi_bind. { apply oi_parse_one. }
  intros [[rest c] ok]. destruct (negb ok); auto with c13.
  apply oi_bind; auto. intros [cs|]; auto with c13.
Qed.

Lemma oi_parse_cell_methods_old : forall f s, only_index (parse_cell_methods_old f s).
Proof.
  intros f s. unfold parse_cell_methods_old.
  apply oi_bind. { apply oi_parse_cms. }
  intros [cs|]; auto with c13.
Qed.

(* the repaired parser never raises, whatever the string *)
Lemma parse_cell_methods_total : forall f s, noerr (parse_cell_methods f s).
Proof.
  intros f s e. unfold parse_cell_methods.
  pose proof (oi_parse_cell_methods_old f s) as H.
  destruct (parse_cell_methods_old f s) as [a|e0|]; try discriminate.
  rewrite (H e0 eq_refl). discriminate.
Qed.

Lemma parse_cell_methods_old_refuted :
  exists f s, parse_cell_methods_old f s = RErr IndexErr.
Proof. exists "q", "time: mean (interval: 0.1 nope_missing". vm_compute. reflexivity. Qed.

(* ... and what the repaired parser does with that string: nothing mapped, one report entry *)
Lemma parse_cell_methods_reports :
  parse_cell_methods "q" "time: mean (interval: 0.1 nope_missing" = ROk ([], [("q", WCmAttr, RFormat)]).
Proof. vm_compute. reflexivity. Qed.

(* ------------------------------------------------------------------ lookups *)
Lemma internal_get_var ds n : internal ds n = true -> exists v, get_var ds n = ROk v.
Proof.
  unfold internal, get_var. destruct (find_var (a_vars ds) n); intros H; [eauto|discriminate].
Qed.

Lemma internal_ncdims ds n : internal ds n = true -> exists d, ncdims ds n = ROk d.
Proof.
  intros H. destruct (internal_get_var ds n H) as [v Hv]. unfold ncdims. rewrite Hv. simpl. eauto.
Qed.

Lemma internal_var_dims ds n : internal ds n = true -> exists d, var_dims ds n = ROk d.
Proof.
  intros H. destruct (internal_get_var ds n H) as [v Hv]. unfold var_dims. rewrite Hv. simpl. eauto.
Qed.

Lemma noerr_dims_are_subset ds n d p : internal ds n = true -> noerr (dims_are_subset ds n d p).
Proof. intros _. unfold dims_are_subset. auto with c13. Qed.

Local Opaque dims_are_subset.

(* ------------------------------------------------------------------ dimensions of the file *)
(* a netCDF variable spans dimensions of its file *)
Definition in_dims (ds : ads) (l : list string) : Prop := Forall (fun x => mem x (a_dims ds) = true) l.
Definition wf_dims (ds : ads) : Prop := forall v, In v (a_vars ds) -> in_dims ds (v_dims v).

Lemma find_var_In vs n v : find_var vs n = Some v -> In v vs.
Proof.
  induction vs as [|x r IH]; simpl; [discriminate|].
  destruct (String.eqb (v_name x) n); [intros H; inversion H; auto|auto].
Qed.

Lemma Forall_removelast {A} (P : A -> Prop) l : Forall P l -> Forall P (removelast l).
Proof.
  induction 1 as [|x l Hx Hl IH]; simpl; [constructor|]. destruct l; [constructor|]. constructor; assumption.
Qed.

Lemma assoc_In {A} k (l : list (string * A)) x : assoc k l = Some x -> exists k', In (k', x) l.
Proof.
  induction l as [|[k' y] r IH]; simpl; [discriminate|].
  destruct (String.eqb k k'). { intros H; inversion H; subst. eauto. }
  intros H. destruct (IH H) as [k2 Hk]. eauto.
Qed.

(* _check_compress says True exactly when EVERY name is a dimension of the file *)
Lemma check_compress_list_sound dims parsed :
  fst (check_compress_list dims parsed) = true <-> forallb (fun d => mem d dims) parsed = true.
Proof.
  induction parsed as [|d r IH]; simpl; [tauto|].
  destruct (check_compress_list dims r) as [ok k]. simpl in IH. unfold mem at 1.
  destruct (existsb (String.eqb d) dims); simpl; [exact IH|]. split; discriminate.
Qed.

Lemma check_compress_sound dims parsed :
  fst (check_compress dims parsed) = true <->
  parsed <> [] /\ forall d, In d parsed -> mem d dims = true.
Proof.
  unfold check_compress. destruct parsed as [|x r].
  - simpl. split; [discriminate|intros [H _]; congruence].
  - rewrite check_compress_list_sound, forallb_forall. split.
    + intros H. split; [discriminate|exact H].
    + intros [_ H]. exact H.
Qed.

(* the seeded variant accepts a missing dimension in any position but the last *)
Lemma check_compress_seeded_refuted :
  check_compress_seeded ["lat"; "lon"] ["nope"; "lon"] true = true /\
  fst (check_compress ["lat"; "lon"] ["nope"; "lon"]) = false.
Proof. split; vm_compute; reflexivity. Qed.

Lemma gathered_in_dims ds k imp : In (k, imp) (gathered ds) -> in_dims ds imp.
Proof.
  unfold gathered. rewrite in_flat_map. intros [v [_ H]].
  destruct (compress_of v) as [c|]; [|destruct H].
  destruct (fst (check_compress (a_dims ds) (split_ws c))) eqn:E; [|destruct H].
  destruct H as [H|[]]. inversion H; subst.
  apply check_compress_sound in E. destruct E as [_ E]. apply Forall_forall. exact E.
Qed.

Lemma expand_in_dims ds g : (forall k imp, In (k, imp) g -> in_dims ds imp) ->
  forall dims, in_dims ds dims -> in_dims ds (expand g dims).
Proof.
  intros Hg. induction dims as [|d r IH]; simpl; intros H; [constructor|].
  inversion H; subst. destruct (assoc d g) as [imp|] eqn:E.
  - destruct (assoc_In _ _ _ E) as [k Hk]. apply Forall_app. split; [eapply Hg; eauto|assumption].
  - constructor; [assumption|apply IH; assumption].
Qed.

Lemma ncdims_in_dims ds n d : wf_dims ds -> ncdims ds n = ROk d -> in_dims ds d.
Proof.
  intros Hwf. unfold ncdims, get_var. destruct (find_var (a_vars ds) n) as [v|] eqn:E; simpl; [|discriminate].
  intros H; inversion H; subst. apply expand_in_dims. { intros k imp. apply gathered_in_dims. }
  pose proof (Hwf v (find_var_In _ _ _ E)) as Hv.
  destruct (v_char v && negb (Nat.eqb (length (v_dims v)) 0)); [apply Forall_removelast|]; exact Hv.
Qed.

(* with the seeded _check_compress the bogus dimension reaches the creation of the domain axes:
   KeyError, as observed *)
Lemma seeded_compress_raises :
  let ds := mkAds3 [mkVar "gq" ["landpoint"] false false []] [] ["lat"; "lon"; "landpoint"] in
  dim_pass ds (expand [("landpoint", ["nope"; "lon"])] ["landpoint"]) = RErr KeyErr.
Proof. vm_compute. reflexivity. Qed.


Lemma find_var_in vs v : In v vs -> exists w, find_var vs (v_name v) = Some w.
Proof.
  induction vs as [|x r IH]; intros H; [destruct H|].
  simpl. destruct (String.eqb (v_name x) (v_name v)) eqn:E; [eauto|].
  destruct H as [->|H]; [rewrite String.eqb_refl in E; discriminate|auto].
Qed.

Lemma in_internal ds v : In v (a_vars ds) -> internal ds (v_name v) = true.
Proof. intros H. unfold internal. destruct (find_var_in _ _ H) as [w ->]. reflexivity. Qed.

(* ------------------------------------------------------------------ bounds *)
Lemma noerr_check_bounds ds c b : internal ds c = true -> noerr (check_bounds ds c b).
Proof.
  intros Hc. unfold check_bounds. destruct (internal ds b) eqn:Hb; simpl; auto with c13.
  destruct (internal_ncdims ds c Hc) as [dc ->]. destruct (internal_ncdims ds b Hb) as [db ->]. simpl.
  destruct (_ && _); auto with c13.
Qed.

Definition field_of_name (r : res (list fskel)) (n : string) : option fskel :=
  match r with ROk fs => find (fun f => String.eqb (f_ncvar f) n) fs | _ => None end.

Lemma noerr_own_bounds_msgs ds n v o : internal ds n = true -> noerr (own_bounds_msgs ds n v o).
Proof.
  intros Hn. unfold own_bounds_msgs. destruct o as [b|]; auto with c13.
  destruct (attr v "bounds") as [own|]; auto with c13.
  destruct (str_empty own || String.eqb own b); auto with c13.
  apply noerr_bind. { apply noerr_check_bounds; assumption. }
  intros r _. auto with c13.
Qed.

Lemma noerr_create_bounded ds t n o : internal ds n = true -> noerr (create_bounded ds t n o).
Proof.
  intros Hn. unfold create_bounded. destruct (internal_get_var ds n Hn) as [v ->]. simpl.
  apply noerr_bind. { apply noerr_own_bounds_msgs; assumption. }
  intros pre _.
  destruct (bounds_name v o) as [b|]; auto with c13.
  destruct (str_empty b); auto with c13.
  apply noerr_bind. { apply noerr_check_bounds; assumption. }
  intros [ok ms] _. auto with c13.
Qed.

(* created constructs carry the name they were asked for *)
Lemma create_bounded_name ds t n o c ms : create_bounded ds t n o = ROk (c, ms) -> c_ncvar c = n /\ c_type c = t.
Proof.
  unfold create_bounded. destruct (get_var ds n) as [v| |]; simpl; try discriminate.
  destruct (own_bounds_msgs ds n v o) as [pre| |]; simpl; try discriminate.
  destruct (bounds_name v o) as [b|].
  - destruct (str_empty b). { intros H; inversion H; auto. }
    destruct (check_bounds ds n b) as [[ok ms']| |]; simpl; try discriminate.
    intros H; inversion H; auto.
  - intros H; inversion H; auto.
Qed.

(* single fault on a bounds / climatology attribute: the construct is kept, without
   bounds, and the report names the variable that was not found
   (pre = what the check of a redundant own bounds attribute adds; [] without override) *)
Lemma bounds_missing ds t n o v b pre :
  get_var ds n = ROk v -> own_bounds_msgs ds n v o = ROk pre ->
  bounds_name v o = Some b -> str_empty b = false -> internal ds b = false ->
  create_bounded ds t n o = ROk (mkCons t n None, pre ++ [(b, WBounds, RMissing)]).
Proof.
  intros Hv Hp Hb He Hi. unfold create_bounded. rewrite Hv. simpl. rewrite Hp. simpl. rewrite Hb, He.
  unfold check_bounds. rewrite Hi. reflexivity.
Qed.

(* ... and a bounds variable with foreign dimensions likewise *)
Lemma bounds_foreign ds t n o v b dc db pre :
  get_var ds n = ROk v -> own_bounds_msgs ds n v o = ROk pre ->
  bounds_name v o = Some b -> str_empty b = false -> internal ds b = true ->
  ncdims ds n = ROk dc -> ncdims ds b = ROk db ->
  Nat.eqb (length db) (S (length dc)) && list_eqb String.eqb dc (removelast db) = false ->
  create_bounded ds t n o = ROk (mkCons t n None, pre ++ [(b, WBounds, RDims)]).
Proof.
  intros Hv Hp Hb He Hi Hc Hd Hx. unfold create_bounded. rewrite Hv. simpl. rewrite Hp. simpl. rewrite Hb, He.
  unfold check_bounds. rewrite Hi, Hc, Hd. simpl. rewrite Hx. reflexivity.
Qed.

Lemma own_bounds_msgs_none ds n v : own_bounds_msgs ds n v None = ROk [].
Proof. reflexivity. Qed.

(* fix3-1: a formula terms variable whose bounds come from the parametric coordinate's bounds
   (override) and whose OWN bounds attribute names a variable that is not in the file: the
   construct is made exactly as the override decides, and the report names the missing variable *)
Lemma redundant_bounds_reported ds t n v b own c ms :
  get_var ds n = ROk v -> attr v "bounds" = Some own -> str_empty own = false ->
  String.eqb own b = false -> internal ds own = false ->
  create_bounded ds t n (Some b) = ROk (c, ms) ->
  In (own, WBounds, RMissing) ms /\
  (internal ds b = true -> str_empty b = false -> forall dc db, ncdims ds n = ROk dc -> ncdims ds b = ROk db ->
     Nat.eqb (length db) (S (length dc)) && list_eqb String.eqb dc (removelast db) = true ->
     c = mkCons t n (Some b)).
Proof.
  intros Hv Ha He Hne Hi. unfold create_bounded. rewrite Hv. simpl.
  unfold own_bounds_msgs. rewrite Ha, He, Hne. simpl.
  unfold check_bounds at 1. rewrite Hi. simpl.
  destruct (str_empty b) eqn:Eb.
  - intros H; inversion H; subst. split; [left; reflexivity|]. intros _ Hx; discriminate.
  - destruct (check_bounds ds n b) as [[ok ms']| |] eqn:Ec; simpl; try discriminate.
    intros H; inversion H; subst. split; [left; reflexivity|].
    intros Hb _ dc db Hc Hd Hx. unfold check_bounds in Ec. rewrite Hb, Hc, Hd in Ec. simpl in Ec.
    rewrite Hx in Ec. inversion Ec; subst. reflexivity.
Qed.

Definition ds_own_bounds (own : string) : ads :=
  mkAds [ mkVar "z" ["z"] false false [("bounds", "zb"); ("formula_terms", "a: a")];
          mkVar "zb" ["z"; "nv"] false false [("formula_terms", "a: ab")];
          mkVar "a" ["z"] false false [("bounds", own)];
          mkVar "ab" ["z"; "nv"] false false [];
          mkVar "ta" ["z"] false false [] ] [].

Lemma redundant_bounds_example :
  option_map (fun f => (f_cons f, f_report f)) (field_of_name (read_skel (ds_own_bounds "ab")) "ta") =
    Some ([mkCons CDim "z" (Some "zb"); mkCons CDomAnc "a" (Some "ab")], []) /\
  option_map (fun f => (f_cons f, f_report f)) (field_of_name (read_skel (ds_own_bounds "nope_missing")) "ta") =
    Some ([mkCons CDim "z" (Some "zb"); mkCons CDomAnc "a" (Some "ab")], [("nope_missing", WBounds, RMissing)]).
Proof. split; vm_compute; reflexivity. Qed.

(* ------------------------------------------------------------------ coordinates attribute *)
Lemma aux_pass_app ds dims l1 l2 :
  aux_pass ds dims (l1 ++ l2) =
  (a <- aux_pass ds dims l1 ;; b <- aux_pass ds dims l2 ;; ROk (fst a ++ fst b, snd a ++ snd b)).
Proof.
  induction l1 as [|n r IH]; simpl.
  - destruct (aux_pass ds dims l2) as [[c m]| |]; reflexivity.
  - destruct (aux_one ds dims n) as [[c1 m1]| |]; simpl; try reflexivity.
    rewrite IH. destruct (aux_pass ds dims r) as [[c2 m2]| |]; simpl; try reflexivity.
    destruct (aux_pass ds dims l2) as [[c3 m3]| |]; simpl; try reflexivity.
    rewrite !app_assoc. reflexivity.
Qed.

Lemma aux_one_missing ds dims m :
  internal ds m = false -> mem m dims = false ->
  aux_one ds dims m = ROk ([], [(m, WAux, RMissing); (m, WAux, RMissing)]).
Proof. intros Hi Hm. unfold aux_one, check_aux. rewrite Hm, Hi. reflexivity. Qed.

Lemma aux_one_foreign ds dims m d :
  internal ds m = true -> mem m dims = false -> ncdims ds m = ROk d ->
  dims_are_subset ds m d dims = ROk false ->
  aux_one ds dims m = ROk ([], [(m, WAux, RDims)]).
Proof. intros Hi Hm Hd Hs. unfold aux_one, check_aux. rewrite Hm, Hi, Hd. simpl. rewrite Hs. reflexivity. Qed.

(* Single-fault tolerance for the coordinates attribute, any length and any position:
   if one token is replaced by a name `bad` that cannot be mapped (its own verdict is
   "no construct" with the entries `rep`), the constructs are exactly those of the
   attribute with that token removed - in particular those of all other tokens, in
   order - and the report is the other tokens' report with `rep` inserted. *)
Lemma coordinates_single_fault ds dims l1 bad l2 rep c1 m1 c2 m2 :
  aux_one ds dims bad = ROk ([], rep) ->
  aux_pass ds dims l1 = ROk (c1, m1) -> aux_pass ds dims l2 = ROk (c2, m2) ->
  aux_pass ds dims (l1 ++ bad :: l2) = ROk (c1 ++ c2, m1 ++ rep ++ m2) /\
  aux_pass ds dims (l1 ++ l2) = ROk (c1 ++ c2, m1 ++ m2).
Proof.
  intros Hb H1 H2. split.
  - rewrite aux_pass_app, H1. simpl. rewrite Hb, H2. simpl. reflexivity.
  - rewrite aux_pass_app, H1, H2. reflexivity.
Qed.

(* the same with the original token in place: its constructs sit between the others' *)
Lemma coordinates_unfaulted ds dims l1 good l2 cg mg c1 m1 c2 m2 :
  aux_one ds dims good = ROk (cg, mg) ->
  aux_pass ds dims l1 = ROk (c1, m1) -> aux_pass ds dims l2 = ROk (c2, m2) ->
  aux_pass ds dims (l1 ++ good :: l2) = ROk (c1 ++ cg ++ c2, m1 ++ mg ++ m2).
Proof.
  intros Hg H1 H2. rewrite aux_pass_app, H1. simpl. rewrite Hg, H2. simpl. reflexivity.
Qed.

Lemma noerr_check_aux ds dims n : noerr (check_aux ds dims n).
Proof.
  unfold check_aux. destruct (internal ds n) eqn:Hi; simpl; auto with c13.
  destruct (internal_ncdims ds n Hi) as [d ->]. simpl.
  apply noerr_bind. { apply noerr_dims_are_subset; assumption. }
  intros [|] _; auto with c13.
Qed.

Lemma check_aux_ok ds dims n ms : check_aux ds dims n = ROk (true, ms) -> internal ds n = true.
Proof.
  unfold check_aux. destruct (internal ds n); simpl; [reflexivity|]. intros H; inversion H.
Qed.

Lemma noerr_aux_one ds dims n : noerr (aux_one ds dims n).
Proof.
  unfold aux_one. destruct (mem n dims); auto with c13.
  apply noerr_bind. { apply noerr_check_aux. }
  intros [ok ms] E. destruct ok; simpl; auto with c13.
  pose proof (check_aux_ok _ _ _ _ E) as Hi.
  destruct (internal_ncdims ds n Hi) as [d ->]. destruct (internal_get_var ds n Hi) as [v ->]. simpl.
  apply noerr_bind. { apply noerr_create_bounded; assumption. }
  intros cm _. auto with c13.
Qed.

Lemma noerr_aux_pass ds dims l : noerr (aux_pass ds dims l).
Proof.
  induction l as [|n r IH]; simpl; auto with c13.
  apply noerr_bind. { apply noerr_aux_one. }
  intros a _. apply noerr_bind; auto. intros b _. auto with c13.
Qed.

(* every construct made from the coordinates attribute is a variable of the file *)
Lemma aux_one_internal ds dims n cs ms :
  aux_one ds dims n = ROk (cs, ms) -> Forall (fun c => internal ds (c_ncvar c) = true) cs.
Proof.
  unfold aux_one. destruct (mem n dims). { intros H; inversion H; constructor. }
  destruct (check_aux ds dims n) as [[ok ms0]| |] eqn:E; simpl; try discriminate.
  destruct ok; simpl. 2:{ intros H; inversion H; constructor. }
  pose proof (check_aux_ok _ _ _ _ E) as Hi.
  destruct (ncdims ds n) as [d| |]; simpl; try discriminate.
  destruct (get_var ds n) as [v| |]; simpl; try discriminate.
  match goal with |- context [create_bounded ds ?t n None] => destruct (create_bounded ds t n None) as [[c m]| |] eqn:E1 end;
    simpl; try discriminate.
  intros H; inversion H; subst. constructor; [|constructor].
  apply create_bounded_name in E1. destruct E1 as [-> _]. assumption.
Qed.

Lemma aux_pass_internal ds dims l : forall cs ms,
  aux_pass ds dims l = ROk (cs, ms) -> Forall (fun c => internal ds (c_ncvar c) = true) cs.
Proof.
  induction l as [|n r IH]; simpl; intros cs ms H. { inversion H; constructor. }
  destruct (aux_one ds dims n) as [[c1 m1]| |] eqn:E1; simpl in H; try discriminate.
  destruct (aux_pass ds dims r) as [[c2 m2]| |] eqn:E2; simpl in H; try discriminate.
  inversion H; subst. apply Forall_app; split; [eapply aux_one_internal; eauto|eapply IH; eauto].
Qed.

(* ------------------------------------------------------------------ dimension coordinates *)
Lemma coordinate_variable_internal ds d : coordinate_variable ds d = true -> internal ds d = true.
Proof. unfold coordinate_variable, internal. destruct (find_var (a_vars ds) d); [reflexivity|discriminate]. Qed.

Lemma noerr_dim_pass ds dims : in_dims ds dims -> noerr (dim_pass ds dims).
Proof.
  induction dims as [|d r IH]; simpl; intros H; auto with c13.
  inversion H; subst.
  apply noerr_bind; auto. intros rest _.
  destruct (coordinate_variable ds d) eqn:E.
  - apply noerr_bind. { apply noerr_create_bounded, coordinate_variable_internal, E. }
    intros cm _. auto with c13.
  - rewrite H2. auto with c13.
Qed.

Lemma dim_pass_internal ds dims : forall cs ms,
  dim_pass ds dims = ROk (cs, ms) -> Forall (fun c => internal ds (c_ncvar c) = true) cs.
Proof.
  induction dims as [|d r IH]; simpl; intros cs ms H. { inversion H; constructor. }
  destruct (dim_pass ds r) as [[c2 m2]| |] eqn:E2; simpl in H; try discriminate.
  destruct (coordinate_variable ds d) eqn:E.
  - destruct (create_bounded ds CDim d None) as [[c m]| |] eqn:E1; simpl in H; try discriminate.
    inversion H; subst. constructor; [|eapply IH; eauto].
    apply create_bounded_name in E1. destruct E1 as [-> _]. simpl.
    apply coordinate_variable_internal, E.
  - destruct (mem d (a_dims ds)); [|discriminate]. inversion H; subst. eapply IH; eauto.
Qed.

(* ------------------------------------------------------------------ formula terms *)
Definition terms_internal (ds : ads) (l : terms) : Prop :=
  Forall (fun tv => match snd tv with Some n => internal ds n = true | None => True end) l.

Lemma set_term_internal ds t v l :
  terms_internal ds l -> match v with Some n => internal ds n = true | None => True end ->
  terms_internal ds (set_term t v l).
Proof.
  intros Hl Hv. induction l as [|[t' v'] r IH]; simpl.
  - constructor; [exact Hv|constructor].
  - inversion Hl; subst. destruct (String.eqb t t'); constructor; auto.
    apply IH; assumption.
Qed.

Lemma get_term_internal ds t l n : terms_internal ds l -> get_term t l = Some (Some n) -> internal ds n = true.
Proof.
  unfold get_term. induction l as [|[t' v'] r IH]; simpl; intros Hl H; [discriminate|].
  inversion Hl; subst. destruct (String.eqb t t').
  - inversion H; subst. assumption.
  - auto.
Qed.

Lemma ft_coord_terms_internal ds coord parsed : forall acc ms,
  terms_internal ds acc -> terms_internal ds (fst (ft_coord_terms ds coord parsed acc ms)).
Proof.
  induction parsed as [|[term values] r IH]; simpl; intros acc ms Ha; [assumption|].
  assert (H0 : terms_internal ds (set_term term None acc)) by (apply set_term_internal; simpl; auto).
  destruct values as [|n [|? ?]]; try (apply IH; assumption).
  destruct (internal ds n) eqn:Hi; apply IH; [|assumption].
  apply set_term_internal; assumption.
Qed.

(* the repaired loop over the bounds variable's terms never raises *)
Lemma noerr_ft_bounds_terms ds b z cterms parsed : terms_internal ds cterms ->
  forall acc ms, noerr (ft_bounds_terms false ds b z cterms parsed acc ms).
Proof.
  intros Hc. induction parsed as [|[term values] r IH]; simpl; intros acc ms; auto with c13.
  destruct values as [|n [|? ?]]; auto.
  destruct (internal ds n) eqn:Hn; simpl; auto.
  destruct (get_term term cterms) as [[parent|]|] eqn:Hg; auto.
  pose proof (get_term_internal ds term cterms parent Hc Hg) as Hp.
  destruct (internal_var_dims ds parent Hp) as [dn ->]. destruct (internal_var_dims ds n Hn) as [dims ->]. simpl.
  destruct (negb (opt_mem z dn)).
  - destruct (negb (String.eqb n parent)); auto.
  - destruct (negb (Nat.eqb (length dims) (S (length dn)))); auto.
    destruct (negb (list_eqb String.eqb dn (removelast dims))); auto.
Qed.

Local Opaque ft_coord_terms ft_bounds_terms.

(* _check_formula_terms with the repairs never raises, for any attribute string *)
Lemma check_formula_terms_total ds field coord ft z :
  internal ds field = true -> internal ds coord = true ->
  noerr (check_formula_terms false ds field coord ft z).
Proof.
  intros Hf Hc. unfold check_formula_terms.
  destruct (parse_x ft) as [|p ps] eqn:Hp; auto with c13.
  destruct (internal_ncdims ds field Hf) as [d ->]. simpl.
  pose proof (ft_coord_terms_internal ds coord (p :: ps) [] [] (Forall_nil _)) as Hct.
  destruct (ft_coord_terms ds coord (p :: ps) [] []) as [cterms ms] eqn:Ect. simpl in Hct.
  destruct (internal_get_var ds coord Hc) as [cv ->]. simpl.
  destruct (attr cv "bounds") as [b|]; auto with c13.
  simpl. destruct (internal ds b) eqn:Hb; simpl; auto with c13.
  destruct (internal_get_var ds b Hb) as [bv ->]. simpl.
  destruct (attr bv "formula_terms") as [bft|]; auto with c13.
  apply noerr_bind. { apply noerr_ft_bounds_terms; assumption. }
  intros [bterms ms'] _. auto with c13.
Qed.

Lemma check_formula_terms_internal ds field coord ft z ct bt ms :
  check_formula_terms false ds field coord ft z = ROk (ct, bt, ms) -> terms_internal ds ct.
Proof.
  unfold check_formula_terms.
  destruct (parse_x ft) as [|p ps] eqn:Hp. { intros H; inversion H; constructor. }
  destruct (ncdims ds field) as [d| |]; simpl; try discriminate.
  pose proof (ft_coord_terms_internal ds coord (p :: ps) [] [] (Forall_nil _)) as Hct.
  destruct (ft_coord_terms ds coord (p :: ps) [] []) as [cterms ms0]. simpl in Hct.
  destruct (get_var ds coord) as [cv| |]; simpl; try discriminate.
  assert (Hfin : forall X, X = ROk (ct, bt, ms) ->
            X = ROk (cterms, map (fun tv : string * option string => (fst tv, None)) cterms, ms0) ->
            terms_internal ds ct).
  { intros X H1 H2. rewrite H2 in H1. inversion H1; subst; assumption. }
  destruct (attr cv "bounds") as [b|]; [|intros H; eapply Hfin; eauto].
  simpl. destruct (internal ds b); simpl; [|intros H; eapply Hfin; eauto].
  destruct (get_var ds b) as [bv| |]; simpl; try discriminate.
  destruct (attr bv "formula_terms") as [bft|]; try discriminate.
  match goal with |- context [ft_bounds_terms false ds b z cterms (parse_x bft) [] ?M] =>
    destruct (ft_bounds_terms false ds b z cterms (parse_x bft) [] M) as [[bterms ms']| |] end;
    simpl; try discriminate.
  intros H; inversion H; subst; assumption.
Qed.

Local Transparent ft_coord_terms ft_bounds_terms.

(* the pinned code raises on a missing bounds variable (F13a), on a formula term that
   names a missing variable (F13b) and on a scalar parametric coordinate (F13f) *)
Definition ds_f13 (bounds ft : string) : ads :=
  mkAds [ mkVar "zb" ["z"; "bounds2"] false false [("formula_terms", "a: zb b: b_bounds")];
          mkVar "z" ["z"] false false [("bounds", bounds); ("formula_terms", ft)];
          mkVar "b_bounds" ["z"; "bounds2"] false false [];
          mkVar "b" ["z"] false false [];
          mkVar "ta" ["z"] false false [] ] [].

(* a field for variable n is returned, with report entry m and construct c *)
Definition returns_with (r : res (list fskel)) (n : string) (m : msg) (c : cons) : bool :=
  match r with
  | ROk fs => existsb (fun f => String.eqb (f_ncvar f) n && existsb (msg_eqb m) (f_report f) &&
                                existsb (cons_eqb c) (f_cons f)) fs
  | _ => false
  end.

Lemma f13a_old_refuted :
  read_skel_old (ds_f13 "nope_missing" "a: z b: b") = RErr KeyErr /\ returns_with (read_skel (ds_f13 "nope_missing" "a: z b: b")) "ta"
               ("nope_missing", WBounds, RMissing) (mkCons CDim "z" None) = true.
Proof. split; vm_compute; reflexivity. Qed.

Lemma f13b_old_refuted :
  read_skel_old (ds_f13 "zb" "a: z b: nope_missing") = RErr KeyErr /\ returns_with (read_skel (ds_f13 "zb" "a: z b: nope_missing")) "ta"
               ("nope_missing", WFt, RMissing) (mkCons CDomAnc "z" (Some "zb")) = true.
Proof. split; vm_compute; reflexivity. Qed.

Definition ds_f13f : ads :=
  mkAds [ mkVar "lat" ["lat"] false false [];
          mkVar "time" [] false false [("formula_terms", "a: lat")];
          mkVar "q" ["lat"] false false [("coordinates", "time")] ] [].

Lemma f13f_old_refuted :
  read_skel_old ds_f13f = RErr IndexErr /\ exists fs, read_skel ds_f13f = ROk fs.
Proof. split; [vm_compute; reflexivity|]. eexists. vm_compute. reflexivity. Qed.

Lemma f13c_old_refuted :
  let ds := mkAds [ mkVar "q" [] false false [("cell_methods", "time: mean (interval: 0.1 nope_missing")] ] [] in
  read_skel_old ds = RErr IndexErr /\
  read_skel ds = ROk [mkF "q" [] [] [] [("q", WCmAttr, RFormat)] []].
Proof. split; vm_compute; reflexivity. Qed.

(* ------------------------------------------------------------------ cell measures: all or nothing *)
Lemma check_cm_list_singletons ds field parent parsed : forall ms,
  check_cm_list ds field parent parsed = ROk (true, ms) ->
  Forall (fun kv => exists n, snd kv = [n]) parsed.
Proof.
  induction parsed as [|[k values] r IH]; simpl; intros ms H; [constructor|].
  destruct (check_cm_list ds field parent r) as [[ok ms']| |] eqn:E; simpl in H; try discriminate.
  destruct values as [|n [|? ?]]; try (inversion H; fail).
  assert (ok = true /\ True) as [-> _].
  { destruct (negb (mem n (externals ds)) && negb (internal ds n)); [inversion H|].
    destruct (mem n (externals ds)); [inversion H; auto|].
    destruct (ncdims ds n) as [d| |]; simpl in H; try discriminate.
    destruct (dims_are_subset ds n d parent) as [[|]| |]; simpl in H; try discriminate; inversion H; auto. }
  constructor; [simpl; eauto|eapply IH; eauto].
Qed.

Lemma noerr_check_cm_list ds field parent parsed : noerr (check_cm_list ds field parent parsed).
Proof.
  induction parsed as [|[k values] r IH]; simpl; auto with c13.
  apply noerr_bind; auto. intros [ok ms] _.
  destruct values as [|n [|? ?]]; auto with c13.
  destruct (internal ds n) eqn:Hi; simpl.
  - rewrite andb_false_r. destruct (mem n (externals ds)); auto with c13.
    destruct (internal_ncdims ds n Hi) as [d ->]. simpl.
    apply noerr_bind. { apply noerr_dims_are_subset; assumption. }
    intros [|] _; auto with c13.
  - rewrite andb_true_r. destruct (mem n (externals ds)); simpl; auto with c13.
Qed.

Lemma noerr_mapM_measures parsed :
  Forall (fun kv : string * list string => exists n, snd kv = [n]) parsed ->
  noerr (mapM (fun kv : string * list string =>
                 match snd kv with n :: _ => ROk (mkCons CMeasure n None) | [] => RErr IndexErr end) parsed).
Proof.
  induction 1 as [|kv r [n Hn] _ IH]; simpl; auto with c13.
  rewrite Hn. simpl. apply noerr_bind; auto. intros ys _. auto with c13.
Qed.

(* ---- generic: a pass that judges every entry on its own is a list homomorphism *)
Lemma concat_pass_app {A} (one : A -> res (list cons * list msg)) l1 l2 :
  concat_pass one (l1 ++ l2) =
  (a <- concat_pass one l1 ;; b <- concat_pass one l2 ;; ROk (fst a ++ fst b, snd a ++ snd b)).
Proof.
  induction l1 as [|n r IH]; simpl.
  - destruct (concat_pass one l2) as [[c m]| |]; reflexivity.
  - destruct (one n) as [[c1 m1]| |]; simpl; try reflexivity.
    rewrite IH. destruct (concat_pass one r) as [[c2 m2]| |]; simpl; try reflexivity.
    destruct (concat_pass one l2) as [[c3 m3]| |]; simpl; try reflexivity.
    rewrite !app_assoc. reflexivity.
Qed.

(* single fault, any length, any position: an entry whose own verdict is "no construct,
   report rep" leaves exactly the constructs of the other entries, in order *)
Lemma concat_pass_single_fault {A} (one : A -> res (list cons * list msg)) l1 bad l2 rep c1 m1 c2 m2 :
  one bad = ROk ([], rep) ->
  concat_pass one l1 = ROk (c1, m1) -> concat_pass one l2 = ROk (c2, m2) ->
  concat_pass one (l1 ++ bad :: l2) = ROk (c1 ++ c2, m1 ++ rep ++ m2) /\
  concat_pass one (l1 ++ l2) = ROk (c1 ++ c2, m1 ++ m2).
Proof.
  intros Hb H1 H2. split.
  - rewrite concat_pass_app, H1. simpl. rewrite Hb, H2. simpl. reflexivity.
  - rewrite concat_pass_app, H1, H2. reflexivity.
Qed.

Lemma concat_pass_unfaulted {A} (one : A -> res (list cons * list msg)) l1 good l2 cg mg c1 m1 c2 m2 :
  one good = ROk (cg, mg) ->
  concat_pass one l1 = ROk (c1, m1) -> concat_pass one l2 = ROk (c2, m2) ->
  concat_pass one (l1 ++ good :: l2) = ROk (c1 ++ cg ++ c2, m1 ++ mg ++ m2).
Proof.
  intros Hg H1 H2. rewrite concat_pass_app, H1. simpl. rewrite Hg, H2. simpl. reflexivity.
Qed.

Lemma noerr_concat_pass {A} (one : A -> res (list cons * list msg)) l :
  (forall x, noerr (one x)) -> noerr (concat_pass one l).
Proof.
  intros H. induction l as [|n r IH]; simpl; auto with c13.
  apply noerr_bind; auto. intros a _. apply noerr_bind; auto. intros b _. auto with c13.
Qed.

Local Opaque check_cm_list.

Lemma noerr_measure_one ds field kv : internal ds field = true -> noerr (measure_one ds field kv).
Proof.
  intros Hf. unfold measure_one. destruct (internal_ncdims ds field Hf) as [d ->]. simpl.
  apply noerr_bind. { apply noerr_check_cm_list. }
  intros [ok ms] E. destruct ok; auto with c13.
  pose proof (check_cm_list_singletons _ _ _ _ _ E) as Hs. inversion Hs as [|? ? [n Hn] ?]; subst.
  rewrite Hn. auto with c13.
Qed.

Lemma noerr_measure_pass ds field s : internal ds field = true -> noerr (measure_pass ds field s).
Proof.
  intros Hf. unfold measure_pass. destruct (parse_x s) as [|p ps]; auto with c13.
  apply noerr_concat_pass. intros kv. apply noerr_measure_one; assumption.
Qed.

Lemma noerr_measure_pass_head ds field s : internal ds field = true -> noerr (measure_pass_head ds field s).
Proof.
  intros Hf. unfold measure_pass_head. destruct (parse_x s) as [|p ps]; auto with c13.
  remember (p :: ps) as parsed eqn:Epp. clear Epp.
  destruct (internal_ncdims ds field Hf) as [d ->]. simpl.
  apply noerr_bind. { apply noerr_check_cm_list. }
  intros [ok ms] E. destruct ok; auto with c13.
  apply noerr_bind. { apply noerr_mapM_measures. eapply check_cm_list_singletons; eauto. }
  intros cs _. auto with c13.
Qed.

Local Transparent check_cm_list.

(* the verdict of one "measure: variable" entry (fix2-1) *)
Lemma measure_one_missing ds field d k n :
  ncdims ds field = ROk d -> internal ds n = false -> mem n (externals ds) = false ->
  measure_one ds field (k, [n]) = ROk ([], [(n, WMeasure, RMissingExt)]).
Proof.
  intros Hd Hi He. unfold measure_one. rewrite Hd. simpl. rewrite Hi, He. reflexivity.
Qed.

Lemma measure_one_foreign ds field d k n dn :
  ncdims ds field = ROk d -> internal ds n = true -> mem n (externals ds) = false ->
  ncdims ds n = ROk dn -> dims_are_subset ds n dn d = ROk false ->
  measure_one ds field (k, [n]) = ROk ([], [(n, WMeasure, RDims)]).
Proof.
  intros Hd Hi He Hn Hs. unfold measure_one. rewrite Hd. simpl. rewrite Hi, He. simpl.
  rewrite Hn. simpl. rewrite Hs. reflexivity.
Qed.

Lemma measure_one_healthy ds field d k n dn :
  ncdims ds field = ROk d -> internal ds n = true -> mem n (externals ds) = false ->
  ncdims ds n = ROk dn -> dims_are_subset ds n dn d = ROk true ->
  measure_one ds field (k, [n]) = ROk ([mkCons CMeasure n None], []).
Proof.
  intros Hd Hi He Hn Hs. unfold measure_one. rewrite Hd. simpl. rewrite Hi, He. simpl.
  rewrite Hn. simpl. rewrite Hs. reflexivity.
Qed.

(* a name that cannot be found anywhere makes the verdict false and is reported *)
Lemma check_cm_list_missing ds field parent parsed k n :
  In (k, [n]) parsed -> internal ds n = false -> mem n (externals ds) = false ->
  forall ok ms, check_cm_list ds field parent parsed = ROk (ok, ms) ->
  ok = false /\ In (n, WMeasure, RMissingExt) ms.
Proof.
  intros Hin Hi He. induction parsed as [|[k' values] r IH]; [destruct Hin|].
  simpl. intros ok ms H.
  destruct (check_cm_list ds field parent r) as [[ok' ms']| |] eqn:E; simpl in H; try discriminate.
  destruct Hin as [Heq|Hin].
  - inversion Heq; subst. rewrite Hi, He in H. simpl in H. inversion H; subst. split; [reflexivity|left; reflexivity].
  - destruct (IH Hin ok' ms' eq_refl) as [-> Hm].
    destruct values as [|n' [|? ?]].
    + inversion H; subst. split; [reflexivity|right; assumption].
    + destruct (negb (mem n' (externals ds)) && negb (internal ds n')).
      { inversion H; subst. split; [reflexivity|right; assumption]. }
      destruct (mem n' (externals ds)). { inversion H; subst. auto. }
      destruct (ncdims ds n') as [d| |]; simpl in H; try discriminate.
      destruct (dims_are_subset ds n' d parent) as [[|]| |]; simpl in H; try discriminate;
        inversion H; subst; split; auto; right; assumption.
    + inversion H; subst. split; [reflexivity|right; assumption].
Qed.

Local Opaque check_cm_list.

(* The code before fix2-1: one name that cannot be found and NO cell measure at all
   is created (the report names the culprit). *)
Lemma measures_all_or_nothing_head ds field s k n cs ms :
  In (k, [n]) (parse_x s) -> internal ds n = false -> mem n (externals ds) = false ->
  measure_pass_head ds field s = ROk (cs, ms) ->
  cs = [] /\ In (n, WMeasure, RMissingExt) ms.
Proof.
  intros Hin Hi He. unfold measure_pass_head.
  destruct (parse_x s) as [|p ps] eqn:Hp; [destruct Hin|].
  destruct (ncdims ds field) as [d| |]; simpl; try discriminate.
  destruct (check_cm_list ds field d (p :: ps)) as [[ok ms']| |] eqn:E; simpl; try discriminate.
  destruct (check_cm_list_missing ds field d (p :: ps) k n Hin Hi He ok ms' E) as [-> Hm].
  intros H; inversion H; subst. auto.
Qed.

Local Transparent check_cm_list.

(* "only the element that could not be mapped is left out": false of the reader before
   fix2-1 (the healthy sibling is dropped too), true after it *)
Definition ds_two_measures : ads :=
  mkAds [ mkVar "area" ["x"] false false []; mkVar "vol" ["x"] false false [];
          mkVar "q" ["x"] false false [] ] [].

Lemma measures_sibling_head_refuted :
  measure_pass_head ds_two_measures "q" "area: area volume: vol" =
    ROk ([mkCons CMeasure "area" None; mkCons CMeasure "vol" None], []) /\
  measure_pass_head ds_two_measures "q" "area: nope_missing volume: vol" =
    ROk ([], [("nope_missing", WMeasure, RMissingExt)]) /\
  measure_pass ds_two_measures "q" "area: nope_missing volume: vol" =
    ROk ([mkCons CMeasure "vol" None], [("nope_missing", WMeasure, RMissingExt)]).
Proof. splits; vm_compute; reflexivity. Qed.

Lemma ancillaries_sibling_head_refuted :
  anc_pass_head ds_two_measures "q" "area vol" =
    ROk ([mkCons CFieldAnc "area" None; mkCons CFieldAnc "vol" None], []) /\
  anc_pass_head ds_two_measures "q" "nope_missing vol" = ROk ([], [("nope_missing", WAnc, RMissing)]) /\
  anc_pass ds_two_measures "q" "nope_missing vol" =
    ROk ([mkCons CFieldAnc "vol" None], [("nope_missing", WAnc, RMissing)]).
Proof. splits; vm_compute; reflexivity. Qed.

(* non-vacuity of the single-fault statement for cell measures *)
Lemma measures_single_fault_example :
  measure_one ds_two_measures "q" ("area", ["nope_missing"]) = ROk ([], [("nope_missing", WMeasure, RMissingExt)]) /\
  measure_entries ds_two_measures "q" [("area", ["area"])] = ROk ([mkCons CMeasure "area" None], []) /\
  measure_entries ds_two_measures "q" [("volume", ["vol"])] = ROk ([mkCons CMeasure "vol" None], []).
Proof. splits; vm_compute; reflexivity. Qed.

(* ------------------------------------------------------------------ ancillary variables *)
Lemma noerr_check_anc_list ds parent toks : forall ok ms, noerr (check_anc_list ds parent toks ok ms).
Proof.
  induction toks as [|n r IH]; simpl; intros ok ms; auto with c13.
  destruct (internal ds n) eqn:Hi; simpl; auto with c13.
  destruct (internal_ncdims ds n Hi) as [d ->]. simpl.
  apply noerr_bind. { apply noerr_dims_are_subset; assumption. }
  intros [|] _; auto.
Qed.

Local Opaque check_anc_list.

Lemma noerr_anc_one ds field n : internal ds field = true -> noerr (anc_one ds field n).
Proof.
  intros Hf. unfold anc_one. destruct (internal_ncdims ds field Hf) as [d ->]. simpl.
  apply noerr_bind. { apply noerr_check_anc_list. }
  intros [ok ms] _. destruct ok; auto with c13.
Qed.

Lemma noerr_anc_pass ds field s : internal ds field = true -> noerr (anc_pass ds field s).
Proof.
  intros Hf. unfold anc_pass. destruct (split_ws s) as [|t ts]; auto with c13.
  apply noerr_concat_pass. intros n. apply noerr_anc_one; assumption.
Qed.

Lemma noerr_anc_pass_head ds field s : internal ds field = true -> noerr (anc_pass_head ds field s).
Proof.
  intros Hf. unfold anc_pass_head. destruct (split_ws s) as [|t ts]; auto with c13.
  destruct (internal_ncdims ds field Hf) as [d ->]. simpl.
  apply noerr_bind. { apply noerr_check_anc_list. }
  intros [ok ms] _. destruct ok; auto with c13.
Qed.

Local Transparent check_anc_list.

(* the verdict of one name of ancillary_variables (fix2-1) *)
Lemma anc_one_missing ds field d n :
  ncdims ds field = ROk d -> internal ds n = false ->
  anc_one ds field n = ROk ([], [(n, WAnc, RMissing)]).
Proof. intros Hd Hi. unfold anc_one. rewrite Hd. simpl. rewrite Hi. reflexivity. Qed.

Lemma anc_one_foreign ds field d n dn :
  ncdims ds field = ROk d -> internal ds n = true -> ncdims ds n = ROk dn ->
  dims_are_subset ds n dn d = ROk false ->
  anc_one ds field n = ROk ([], [(n, WAnc, RDims)]).
Proof.
  intros Hd Hi Hn Hs. unfold anc_one. rewrite Hd. simpl. rewrite Hi. simpl. rewrite Hn. simpl.
  rewrite Hs. reflexivity.
Qed.

Lemma anc_one_healthy ds field d n dn :
  ncdims ds field = ROk d -> internal ds n = true -> ncdims ds n = ROk dn ->
  dims_are_subset ds n dn d = ROk true ->
  anc_one ds field n = ROk ([mkCons CFieldAnc n None], []).
Proof.
  intros Hd Hi Hn Hs. unfold anc_one. rewrite Hd. simpl. rewrite Hi. simpl. rewrite Hn. simpl.
  rewrite Hs. reflexivity.
Qed.

(* ------------------------------------------------------------------ formula terms: one term at a time *)
Lemma noerr_ft_ancillaries ds fdims bt : forall todo,
  terms_internal ds todo -> noerr (ft_ancillaries ds fdims bt todo).
Proof.
  induction todo as [|[term [n|]] r IH]; simpl; intros Ht; auto with c13.
  - inversion Ht; subst. simpl in *. destruct (internal_ncdims ds n H1) as [d ->]. simpl.
    apply noerr_bind. { apply noerr_create_bounded; assumption. }
    intros cm _. apply noerr_bind. { apply IH; assumption. }
    intros [[cs ts] ms] _. destruct (Nat.eqb _ _); auto with c13.
  - inversion Ht; subst. apply noerr_bind. { apply IH; assumption. }
    intros [[cs ts] ms] _. auto with c13.
Qed.

(* the domain ancillaries of a parametric coordinate are made term by term (fix2-2) *)
Lemma ft_ancillaries_app ds fd bt t1 t2 :
  ft_ancillaries ds fd bt (t1 ++ t2) =
  (a <- ft_ancillaries ds fd bt t1 ;; b <- ft_ancillaries ds fd bt t2 ;;
   ROk (fst (fst a) ++ fst (fst b), snd (fst a) ++ snd (fst b), snd a ++ snd b)).
Proof.
  induction t1 as [|[term [n|]] r IH]; simpl.
  - destruct (ft_ancillaries ds fd bt t2) as [[[c t] m]| |]; reflexivity.
  - destruct (ncdims ds n) as [d| |]; simpl; try reflexivity.
    match goal with |- context [create_bounded ds CDomAnc n ?B] =>
      destruct (create_bounded ds CDomAnc n B) as [[c0 m0]| |] end; simpl; try reflexivity.
    rewrite IH. destruct (ft_ancillaries ds fd bt r) as [[[c1 ts1] m1]| |]; simpl; try reflexivity.
    destruct (ft_ancillaries ds fd bt t2) as [[[c2 ts2] m2]| |]; simpl.
    + destruct (Nat.eqb _ _); simpl; rewrite <- ?app_assoc; reflexivity.
    + destruct (Nat.eqb _ _); reflexivity.
    + destruct (Nat.eqb _ _); reflexivity.
  - rewrite IH. destruct (ft_ancillaries ds fd bt r) as [[[c1 ts1] m1]| |]; simpl; try reflexivity.
    destruct (ft_ancillaries ds fd bt t2) as [[[c2 ts2] m2]| |]; reflexivity.
Qed.

(* a term whose variable spans a dimension that the data variable does not span: no
   construct, the term is kept without value, the report names the variable *)
Lemma ft_term_foreign ds fd bt term n d cm :
  ncdims ds n = ROk d ->
  create_bounded ds CDomAnc n
    (match get_term term bt with Some (Some b) => if String.eqb b n then None else Some b | _ => None end) = ROk cm ->
  Nat.eqb (length (filter (fun x => mem x fd) d)) (length d) = false ->
  ft_ancillaries ds fd bt [(term, Some n)] = ROk ([], [(term, None)], snd cm ++ [(n, WFt, RDims)]).
Proof.
  intros Hd Hc Hl. simpl. rewrite Hd. simpl. rewrite Hc. simpl. rewrite Hl. reflexivity.
Qed.

Lemma ft_term_healthy ds fd bt term n d cm :
  ncdims ds n = ROk d ->
  create_bounded ds CDomAnc n
    (match get_term term bt with Some (Some b) => if String.eqb b n then None else Some b | _ => None end) = ROk cm ->
  Nat.eqb (length (filter (fun x => mem x fd) d)) (length d) = true ->
  ft_ancillaries ds fd bt [(term, Some n)] = ROk ([fst cm], [(term, Some n)], snd cm).
Proof.
  intros Hd Hc Hl. simpl. rewrite Hd. simpl. rewrite Hc. simpl. rewrite Hl. rewrite app_nil_r. reflexivity.
Qed.

(* single fault in formula_terms, any number of terms, any position: the other terms'
   domain ancillaries are created, in order, and stay in the coordinate reference *)
Lemma formula_terms_single_fault ds fd bt t1 term bad t2 rep c1 ts1 m1 c2 ts2 m2 :
  ft_ancillaries ds fd bt [(term, bad)] = ROk ([], [(term, None)], rep) ->
  ft_ancillaries ds fd bt t1 = ROk (c1, ts1, m1) -> ft_ancillaries ds fd bt t2 = ROk (c2, ts2, m2) ->
  ft_ancillaries ds fd bt (t1 ++ (term, bad) :: t2) =
    ROk (c1 ++ c2, ts1 ++ (term, None) :: ts2, m1 ++ rep ++ m2).
Proof.
  intros Hb H1 H2. change ((term, bad) :: t2) with ([(term, bad)] ++ t2).
  rewrite ft_ancillaries_app, H1. cbn [bind]. rewrite ft_ancillaries_app, Hb, H2. reflexivity.
Qed.

Lemma ft_missing_term ds fd bt term : ft_ancillaries ds fd bt [(term, None)] = ROk ([], [(term, None)], []).
Proof. reflexivity. Qed.

Definition field_of (r : res (list fskel)) (n : string) : option fskel :=
  match r with ROk fs => find (fun f => String.eqb (f_ncvar f) n) fs | _ => None end.

Definition ds_ft : ads :=
  mkAds [ mkVar "z" ["z"] false false [("formula_terms", "a: a b: other orog: orog")];
          mkVar "a" ["z"] false false []; mkVar "orog" ["x"] false false [];
          mkVar "other" ["y"] false false []; mkVar "x" ["x"] false false [];
          mkVar "ta" ["z"; "x"] false false [] ] [].

(* before fix2-2 the healthy terms were dropped with the broken one *)
Lemma formula_terms_sibling_head_refuted :
  ft_ancillaries_head ds_ft ["z"; "x"] [] [("a", Some "a"); ("b", Some "other"); ("orog", Some "orog")] =
    ROk ([mkCons CDomAnc "a" None; mkCons CDomAnc "orog" None], false, [("other", WFt, RDims)]) /\
  ft_ancillaries ds_ft ["z"; "x"] [] [("a", Some "a"); ("b", Some "other"); ("orog", Some "orog")] =
    ROk ([mkCons CDomAnc "a" None; mkCons CDomAnc "orog" None],
         [("a", Some "a"); ("b", None); ("orog", Some "orog")], [("other", WFt, RDims)]) /\
  option_map (fun f => (f_cons f, f_crefs f)) (field_of (read_skel_old ds_ft) "ta") =
    Some ([mkCons CDim "z" None; mkCons CDim "x" None], []) /\
  option_map (fun f => (f_cons f, f_crefs f)) (field_of (read_skel ds_ft) "ta") =
    Some ([mkCons CDim "z" None; mkCons CDim "x" None; mkCons CDomAnc "a" None; mkCons CDomAnc "orog" None],
          [mkCref None (Some ["z"]) [("a", Some "a"); ("b", None); ("orog", Some "orog")]]).
Proof. splits; vm_compute; reflexivity. Qed.

(* ------------------------------------------------------------------ grid_mapping: all or nothing *)
Lemma check_gm_coords_missing ds c : forall cs,
  In c cs -> internal ds c = false ->
  fst (check_gm_coords ds cs) = false /\ In (c, WGmCoord, RMissing) (snd (check_gm_coords ds cs)).
Proof.
  induction cs as [|x r IH]; intros Hin Hi; [destruct Hin|]. simpl.
  destruct (check_gm_coords ds r) as [ok ms] eqn:E. destruct Hin as [->|Hin].
  - rewrite Hi. simpl. auto.
  - destruct (IH Hin Hi) as [H1 H2]. simpl in *. subst ok.
    destruct (internal ds x); simpl; auto.
Qed.

(* _check_grid_mapping gives one verdict for the attribute: a grid mapping variable or a
   coordinate variable that is not in the file, anywhere in the attribute, and the verdict is
   False - no coordinate reference is made from the attribute - and the report names it *)
Lemma check_gm_list_missing ds : forall parsed gm coords,
  In (gm, coords) parsed ->
  (internal ds gm = false -> fst (check_gm_list ds parsed) = false /\
                             In (gm, WGm, RMissing) (snd (check_gm_list ds parsed))) /\
  (forall c, In c coords -> internal ds c = false ->
     fst (check_gm_list ds parsed) = false /\ In (c, WGmCoord, RMissing) (snd (check_gm_list ds parsed))).
Proof.
  induction parsed as [|[g cs] r IH]; intros gm coords Hin; [destruct Hin|]. simpl.
  destruct (check_gm_coords ds cs) as [ok2 ms2] eqn:E2.
  destruct (check_gm_list ds r) as [ok3 ms3] eqn:E3.
  destruct Hin as [Heq|Hin].
  - inversion Heq; subst. split.
    + intros Hi. rewrite Hi. simpl. split; [reflexivity|left; reflexivity].
    + intros c Hc Hi. destruct (check_gm_coords_missing ds c coords Hc Hi) as [H1 H2].
      rewrite E2 in H1, H2. simpl in *. subst ok2.
      destruct (internal ds gm); simpl; split; auto using andb_false_r;
        rewrite ?in_app_iff; simpl; auto.
  - destruct (IH gm coords Hin) as [IH1 IH2]. simpl in *. split.
    + intros Hi. destruct (IH1 Hi) as [H1 H2]. subst ok3.
      destruct (internal ds g); simpl; rewrite ?andb_false_r; split; auto;
        rewrite ?in_app_iff; simpl; auto.
    + intros c Hc Hi. destruct (IH2 c Hc Hi) as [H1 H2]. subst ok3.
      destruct (internal ds g); simpl; rewrite ?andb_false_r; split; auto;
        rewrite ?in_app_iff; simpl; auto.
Qed.

(* ------------------------------------------------------------------ the whole field, the whole read *)
Lemma noerr_first_dim ds n : internal ds n = true -> noerr (first_dim false ds n).
Proof.
  intros H. unfold first_dim. destruct (internal_var_dims ds n H) as [d ->]. simpl.
  destruct d; auto with c13.
Qed.

Lemma noerr_ft_pass ds field fdims : internal ds field = true -> forall coords,
  Forall (fun c => internal ds (c_ncvar c) = true) coords ->
  noerr (ft_pass false ds field fdims coords).
Proof.
  intros Hf. induction coords as [|c r IH]; simpl; intros Hc; auto with c13.
  inversion Hc; subst. destruct (internal_get_var ds (c_ncvar c) H1) as [cv ->]. simpl.
  destruct (attr cv "formula_terms") as [ft|]; [|apply IH; assumption].
  apply noerr_bind. { apply noerr_first_dim; assumption. }
  intros z _. apply noerr_bind. { apply check_formula_terms_total; assumption. }
  intros [[ct bt] ms] E. apply noerr_bind.
  { apply noerr_ft_ancillaries. eapply check_formula_terms_internal; eauto. }
  intros [[cs ts] ms2] _. apply noerr_bind. { apply IH; assumption. }
  intros [[cs' crs'] ms'] _. auto with c13.
Qed.

Lemma noerr_opt_pass {A} o (d : A) f : (forall s, noerr (f s)) -> noerr (opt_pass o d f).
Proof. intros H. destruct o; simpl; auto with c13. Qed.

Lemma field_rest_total ds v fdims coords :
  internal ds (v_name v) = true -> Forall (fun c => internal ds (c_ncvar c) = true) coords ->
  noerr (field_rest false ds v fdims coords).
Proof.
  intros Hf Hc. unfold field_rest.
  apply noerr_bind. { apply noerr_ft_pass; assumption. }
  intros [[ancs0 ftrefs] ftms] _. cbv zeta.
  lazymatch goal with |- noerr (match ?X with _ => _ end) => destruct X as [[gmrefs gmvars] gmms] end.
  apply noerr_bind. { apply noerr_opt_pass. intros s. apply noerr_measure_pass; assumption. }
  intros mp _. apply noerr_bind. { apply noerr_opt_pass. intros s. apply parse_cell_methods_total. }
  intros cp _. apply noerr_bind. { apply noerr_opt_pass. intros s. apply noerr_anc_pass; assumption. }
  intros np _. auto with c13.
Qed.

(* _create_field_or_domain with the repairs never raises, for any variable of any dataset *)
Lemma field_skel_total_internal ds v : wf_dims ds -> internal ds (v_name v) = true -> noerr (field_skel false ds v).
Proof.
  intros Hwf Hf. unfold field_skel.
  destruct (attr v "dimensions"); auto with c13.
  destruct (internal_ncdims ds (v_name v) Hf) as [fdims Efd]. rewrite Efd. simpl.
  apply noerr_bind. { apply noerr_dim_pass. eapply ncdims_in_dims; eauto. }
  intros [dc dm] Ed. apply noerr_bind.
  { apply noerr_opt_pass. intros s. apply noerr_aux_pass. }
  intros [ac am] Ea. simpl.
  apply noerr_bind.
  { apply field_rest_total; [assumption|]. apply Forall_app. split.
    - eapply dim_pass_internal; eauto.
    - destruct (attr v "coordinates"); simpl in Ea.
      + eapply aux_pass_internal; eauto.
      + inversion Ea; constructor. }
  intros [[[[cons crefs] meths] ms] refs] _. auto with c13.
Qed.

Lemma field_skel_total ds v : wf_dims ds -> In v (a_vars ds) -> noerr (field_skel false ds v).
Proof. intros Hwf Hin. apply field_skel_total_internal; [assumption|apply in_internal, Hin]. Qed.

(* the lookups of read are made in norm ds: the same variables, each with the attributes
   that are read through a reference *)
Lemma find_var_strip vs n : find_var (map strip vs) n = option_map strip (find_var vs n).
Proof.
  induction vs as [|x r IH]; simpl; [reflexivity|].
  destruct (String.eqb (v_name x) n); [reflexivity|exact IH].
Qed.

Lemma internal_norm ds n : internal (norm ds) n = internal ds n.
Proof. unfold internal, norm; simpl. rewrite find_var_strip. destruct (find_var (a_vars ds) n); reflexivity. Qed.

Lemma all_fields_total ds vs : wf_dims ds ->
  (forall v, In v vs -> internal ds (v_name v) = true) -> noerr (all_fields false ds vs).
Proof.
  intros Hwf. induction vs as [|v r IH]; simpl; intros H; auto with c13.
  assert (Hr : noerr (all_fields false ds r)) by (apply IH; intros w Hw; apply H; right; assumption).
  destruct (compress_of v); [exact Hr|].
  apply noerr_bind. { apply field_skel_total_internal; [assumption|]. apply H. left; reflexivity. }
  intros o _. apply noerr_bind. { exact Hr. }
  intros rest _. auto with c13.
Qed.

Lemma wf_dims_norm ds : wf_dims ds -> wf_dims (norm ds).
Proof.
  intros H v Hv. unfold norm in Hv; simpl in Hv. apply in_map_iff in Hv. destruct Hv as [w [<- Hw]].
  exact (H w Hw).
Qed.

(* cfdm.read with the repairs does not raise, for EVERY dataset of the fragment:
   every partial lookup of the model is guarded *)
Lemma read_total ds : wf_dims ds -> noerr (read_skel ds).
Proof.
  intros Hwf. unfold read_skel, read_skel_gen. apply noerr_bind.
  - apply all_fields_total. { apply wf_dims_norm, Hwf. }
    intros v Hv. rewrite internal_norm. apply in_internal, Hv.
  - intros fs _. auto with c13.
Qed.

(* ------------------------------------------------------------------ edits of one attribute of one variable *)
Lemma filter_lookup_remove a l : lookup_attr a = false ->
  filter (fun kv : string * string => lookup_attr (fst kv)) (remove_key a l) =
  filter (fun kv : string * string => lookup_attr (fst kv)) l.
Proof.
  intros Ha. unfold remove_key. induction l as [|[k x] r IH]; simpl; [reflexivity|].
  destruct (String.eqb k a) eqn:E; simpl.
  - apply String.eqb_eq in E; subst. rewrite Ha. exact IH.
  - destruct (lookup_attr k); [rewrite IH|]; auto.
Qed.

Lemma strip_set_attr a val v : lookup_attr a = false -> strip (set_attr a val v) = strip v.
Proof.
  intros Ha. unfold strip, set_attr; simpl. f_equal.
  destruct val; simpl; [rewrite Ha|]; apply filter_lookup_remove; assumption.
Qed.

(* an edit of coordinates / grid_mapping / cell_measures / cell_methods / ancillary_variables
   of a variable changes nothing of what the lookups see *)
Lemma norm_edit ds vn a val : lookup_attr a = false -> norm (edit ds vn a val) = norm ds.
Proof.
  intros Ha. unfold norm, edit; simpl. f_equal. rewrite map_map. apply map_ext.
  intros v. destruct (String.eqb (v_name v) vn); auto using strip_set_attr.
Qed.

Lemma assoc_remove_key a a' l : String.eqb a' a = false -> assoc a' (remove_key a l) = assoc a' l.
Proof.
  intros Hne. unfold remove_key. induction l as [|[k x] r IH]; simpl; [reflexivity|].
  destruct (String.eqb k a) eqn:E; simpl.
  - apply String.eqb_eq in E; subst. rewrite Hne. exact IH.
  - destruct (String.eqb a' k); [reflexivity|exact IH].
Qed.

Lemma attr_set_attr_other a a' val v : String.eqb a' a = false -> attr (set_attr a val v) a' = attr v a'.
Proof.
  intros Hne. unfold attr, set_attr; simpl. destruct val; simpl; [rewrite Hne|]; apply assoc_remove_key; assumption.
Qed.

Lemma compress_of_set_attr a val v : String.eqb "compress" a = false -> compress_of (set_attr a val v) = compress_of v.
Proof.
  intros H. unfold compress_of.
  change (v_dims (set_attr a val v)) with (v_dims v). change (v_name (set_attr a val v)) with (v_name v).
  change (assoc "compress" (v_attrs (set_attr a val v))) with (attr (set_attr a val v) "compress").
  rewrite attr_set_attr_other by assumption. reflexivity.
Qed.

Lemma attr_set_attr_same a s v : attr (set_attr a (Some s) v) a = Some s.
Proof. unfold attr, set_attr; simpl. rewrite String.eqb_refl. reflexivity. Qed.

(* ------------------------------------------------------------------ relating two reads *)
Definition res_rel {A} (Q : A -> A -> Prop) (r r' : res A) : Prop :=
  match r, r' with
  | ROk x, ROk y => Q x y
  | RErr e, RErr e' => e = e'
  | ROut, ROut => True
  | _, _ => False
  end.

Lemma res_rel_refl {A} (Q : A -> A -> Prop) r : (forall x, Q x x) -> res_rel Q r r.
Proof. intros H. destruct r; simpl; auto. Qed.

(* the two fields are the same apart from their reports *)
Definition same_but_report (f f' : fskel) : Prop :=
  f_ncvar f = f_ncvar f' /\ f_cons f = f_cons f' /\ f_crefs f = f_crefs f' /\
  f_methods f = f_methods f' /\ f_refs f = f_refs f'.

Definition opt_rel {A} (Q : A -> A -> Prop) (o o' : option A) : Prop :=
  match o, o' with Some x, Some y => Q x y | None, None => True | _, _ => False end.

Definition upd (vn a : string) (val : option string) (v : var) : var :=
  if String.eqb (v_name v) vn then set_attr a val v else v.

(* if the field made from the edited variable is related by R in the two edits, the
   lists of all fields are related: R at that variable, equal elsewhere *)
Lemma all_fields_rel nds vn a val1 val2 (R : fskel -> fskel -> Prop) (Hla : String.eqb "compress" a = false) : forall vs,
  (forall v, In v vs -> v_name v = vn ->
     res_rel (opt_rel R) (field_skel false nds (set_attr a val1 v)) (field_skel false nds (set_attr a val2 v))) ->
  res_rel (Forall2 (fun f f' => R f f' \/ f = f'))
    (all_fields false nds (map (upd vn a val1) vs)) (all_fields false nds (map (upd vn a val2) vs)).
Proof.
  induction vs as [|v r IH]; intros H; simpl; [constructor|].
  assert (IH' := IH (fun w Hw => H w (or_intror Hw))). clear IH.
  assert (Hc : forall val, compress_of (upd vn a val v) = compress_of v).
  { intros val. unfold upd. destruct (String.eqb (v_name v) vn); [|reflexivity].
    apply compress_of_set_attr; assumption. }
  rewrite !Hc. destruct (compress_of v). { exact IH'. }
  unfold upd at 1 3. destruct (String.eqb (v_name v) vn) eqn:E.
  - apply String.eqb_eq in E. pose proof (H v (or_introl eq_refl) E) as Hv.
    destruct (field_skel false nds (set_attr a val1 v)) as [o| |],
             (field_skel false nds (set_attr a val2 v)) as [o'| |]; simpl in Hv |- *; try contradiction; auto.
    destruct (all_fields false nds (map (upd vn a val1) r)) as [fs| |],
             (all_fields false nds (map (upd vn a val2) r)) as [fs'| |]; simpl in IH' |- *; try contradiction; auto.
    destruct o, o'; simpl in Hv; try contradiction; auto.
  - destruct (field_skel false nds v) as [o| |]; simpl; auto.
    destruct (all_fields false nds (map (upd vn a val1) r)) as [fs| |],
             (all_fields false nds (map (upd vn a val2) r)) as [fs'| |]; simpl in IH' |- *; try contradiction; auto.
    destruct o; auto.
Qed.

Section Select.
  Variable Q : fskel -> fskel -> Prop.
  Hypothesis HQ : forall f f', Q f f' -> f_ncvar f = f_ncvar f' /\ f_refs f = f_refs f'.

  Lemma names_rel fs fs' : Forall2 Q fs fs' -> map f_ncvar fs = map f_ncvar fs'.
  Proof. induction 1 as [|x y l l' Hxy _ IH]; simpl; [reflexivity|]. destruct (HQ _ _ Hxy) as [-> _]. rewrite IH. reflexivity. Qed.

  Lemma referencers_rel fs fs' n : Forall2 Q fs fs' -> referencers fs n = referencers fs' n.
  Proof.
    unfold referencers. induction 1 as [|x y l l' Hxy _ IH]; simpl; [reflexivity|].
    destruct (HQ _ _ Hxy) as [Hn Hr]. rewrite <- Hr. destruct (mem n (f_refs x)); simpl; [rewrite Hn, IH|]; auto.
  Qed.

  Lemma reinstate_rel fs fs' : Forall2 Q fs fs' -> forall todo referenced,
    reinstate fs todo referenced = reinstate fs' todo referenced.
  Proof.
    intros H. induction todo as [|n r IH]; intros referenced; simpl; [reflexivity|].
    rewrite (referencers_rel fs fs' n H). destruct (forallb _ _); apply IH.
  Qed.

  Lemma Forall2_filter (p p' : fskel -> bool) fs fs' :
    Forall2 Q fs fs' -> (forall f f', Q f f' -> p f = p' f') -> Forall2 Q (filter p fs) (filter p' fs').
  Proof.
    intros H Hp. induction H as [|x y l l' Hxy _ IH]; simpl; [constructor|].
    rewrite (Hp _ _ Hxy). destruct (p' y); [constructor|]; assumption.
  Qed.

  (* the fields that read returns are chosen by name and references only *)
  Lemma select_fields_rel fs fs' : Forall2 Q fs fs' -> Forall2 Q (select_fields fs) (select_fields fs').
  Proof.
    intros H. unfold select_fields.
    rewrite <- (names_rel _ _ H).
    assert (E : filter (fun n => negb (Nat.eqb (length (referencers fs n)) 0)) (map f_ncvar fs) =
                filter (fun n => negb (Nat.eqb (length (referencers fs' n)) 0)) (map f_ncvar fs)).
    { apply filter_ext. intros n. rewrite (referencers_rel fs fs' n H). reflexivity. }
    rewrite <- E. rewrite <- (reinstate_rel fs fs' H).
    apply Forall2_filter; [assumption|]. intros f f' Hff. destruct (HQ _ _ Hff) as [-> _]. reflexivity.
  Qed.
End Select.

(* ------------------------------------------------------------------ coordinates: the whole read *)
Lemma aux_pass_fault ds dims l1 bad l2 rep : aux_one ds dims bad = ROk ([], rep) ->
  res_rel (fun x y => fst x = fst y /\ exists m1 m2, snd y = m1 ++ m2 /\ snd x = m1 ++ rep ++ m2)
    (aux_pass ds dims (l1 ++ bad :: l2)) (aux_pass ds dims (l1 ++ l2)).
Proof.
  intros Hb. rewrite !aux_pass_app.
  destruct (aux_pass ds dims l1) as [[c1 m1]| |]; simpl; auto. rewrite Hb. simpl.
  destruct (aux_pass ds dims l2) as [[c2 m2]| |]; simpl; auto. split; [reflexivity|]. exists m1, m2. auto.
Qed.

Lemma field_rest_set_attr strict ds a x y v fdims coords :
  String.eqb "grid_mapping" a = false -> String.eqb "cell_measures" a = false ->
  String.eqb "cell_methods" a = false -> String.eqb "ancillary_variables" a = false ->
  field_rest strict ds (set_attr a x v) fdims coords = field_rest strict ds (set_attr a y v) fdims coords.
Proof.
  intros H1 H2 H3 H4. unfold field_rest.
  rewrite !(attr_set_attr_other a "grid_mapping") by assumption.
  rewrite !(attr_set_attr_other a "cell_measures") by assumption.
  rewrite !(attr_set_attr_other a "cell_methods") by assumption.
  rewrite !(attr_set_attr_other a "ancillary_variables") by assumption.
  reflexivity.
Qed.

Definition fault_rel (rep : list msg) (f' f : fskel) : Prop :=
  same_but_report f' f /\ exists m1 m2, f_report f = m1 ++ m2 /\ f_report f' = m1 ++ rep ++ m2.

(* the field of the variable whose coordinates attribute holds the broken token *)
Lemma field_skel_coordinates_fault nds v l1 bad l2 s s' rep :
  split_ws s' = l1 ++ bad :: l2 -> split_ws s = l1 ++ l2 ->
  (forall fdims, ncdims nds (v_name v) = ROk fdims -> aux_one nds fdims bad = ROk ([], rep)) ->
  res_rel (opt_rel (fault_rel rep))
    (field_skel false nds (set_attr "coordinates" (Some s') v))
    (field_skel false nds (set_attr "coordinates" (Some s) v)).
Proof.
  intros Hs' Hs Hbad. unfold field_skel.
  rewrite !(attr_set_attr_other "coordinates" "dimensions") by reflexivity.
  rewrite !attr_set_attr_same.
  change (v_name (set_attr "coordinates" (Some s') v)) with (v_name v).
  change (v_name (set_attr "coordinates" (Some s) v)) with (v_name v).
  destruct (attr v "dimensions"); cbn [res_rel opt_rel]; auto.
  destruct (ncdims nds (v_name v)) as [fdims| |] eqn:Ef; cbn [bind res_rel]; auto.
  destruct (dim_pass nds fdims) as [[dc dm]| |]; cbn [bind res_rel opt_pass fst snd]; auto.
  rewrite Hs', Hs.
  pose proof (aux_pass_fault nds fdims l1 bad l2 rep (Hbad fdims eq_refl)) as Ha.
  destruct (aux_pass nds fdims (l1 ++ bad :: l2)) as [[c m]| |],
           (aux_pass nds fdims (l1 ++ l2)) as [[c' m']| |]; simpl in Ha |- *; try contradiction; auto.
  destruct Ha as [Hc (m1 & m2 & Hm' & Hm)]. simpl in *. subst c' m m'.
  rewrite (field_rest_set_attr false nds "coordinates" (Some s') (Some s)) by reflexivity.
  destruct (field_rest false nds (set_attr "coordinates" (Some s) v) fdims (dc ++ c))
    as [[[[[cons crefs] meths] ms] refs]| |]; simpl; auto.
  split. { repeat split. }
  exists (dm ++ m1), (m2 ++ ms). simpl. rewrite <- !app_assoc. auto.
Qed.

(* THE WHOLE READ.  One token of the coordinates attribute of a variable vn replaced by a
   name that cannot be mapped (its verdict: no construct, report rep), against the same
   file with the token removed: the read gives the same outcome class; the same list of
   fields is returned (also the field of `bad` itself, when it is a data variable); every
   field is identical except the one of vn, which has the same constructs, coordinate
   references, cell methods and references and whose report is the other's with rep inserted. *)
Lemma read_coordinates_single_fault ds vn l1 bad l2 s s' rep :
  split_ws s' = l1 ++ bad :: l2 -> split_ws s = l1 ++ l2 ->
  (forall fdims, ncdims (norm ds) vn = ROk fdims -> aux_one (norm ds) fdims bad = ROk ([], rep)) ->
  res_rel (Forall2 (fun f' f => fault_rel rep f' f \/ f' = f))
    (read_skel (edit ds vn "coordinates" (Some s'))) (read_skel (edit ds vn "coordinates" (Some s))).
Proof.
  intros Hs' Hs Hbad. unfold read_skel, read_skel_gen.
  rewrite !norm_edit by reflexivity. unfold edit; simpl.
  pose proof (all_fields_rel (norm ds) vn "coordinates" (Some s') (Some s) (fault_rel rep) eq_refl (a_vars ds)) as H.
  unfold upd in H.
  match type of H with ?P -> _ => assert (HP : P) end.
  { intros v _ Hn. apply field_skel_coordinates_fault with (l1 := l1) (bad := bad) (l2 := l2); auto.
    rewrite Hn. exact Hbad. }
  specialize (H HP). clear HP.
  destruct (all_fields false (norm ds) (map (fun v => if String.eqb (v_name v) vn then set_attr "coordinates" (Some s') v else v) (a_vars ds))) as [fs'| |],
           (all_fields false (norm ds) (map (fun v => if String.eqb (v_name v) vn then set_attr "coordinates" (Some s) v else v) (a_vars ds))) as [fs| |];
    simpl in H |- *; try contradiction; auto.
  apply select_fields_rel; [|assumption].
  intros f f' [[(Hn & _ & _ & _ & Hr) _]| ->]; auto.
Qed.

(* ... the two kinds of broken token meet the hypothesis *)
Lemma read_coordinates_missing_name ds vn l1 bad l2 s s' :
  split_ws s' = l1 ++ bad :: l2 -> split_ws s = l1 ++ l2 ->
  internal ds bad = false ->
  (forall fdims, ncdims (norm ds) vn = ROk fdims -> mem bad fdims = false) ->
  res_rel (Forall2 (fun f' f => fault_rel [(bad, WAux, RMissing); (bad, WAux, RMissing)] f' f \/ f' = f))
    (read_skel (edit ds vn "coordinates" (Some s'))) (read_skel (edit ds vn "coordinates" (Some s))).
Proof.
  intros Hs' Hs Hi Hm. apply read_coordinates_single_fault with (l1 := l1) (bad := bad) (l2 := l2); auto.
  intros fdims Hf. apply aux_one_missing; [rewrite internal_norm; assumption|auto].
Qed.

(* ------------------------------------------------------------------ open / close *)
Fixpoint opens (steps : list step) : list nat :=
  match steps with
  | [] => []
  | SOpen i :: r => i :: opens r
  | SWork :: r => opens r
  end.

Lemma run_steps_spec steps : forall ds tr,
  run_steps steps (ds, tr) = (ds ++ opens steps, rev (map EvOpen (opens steps)) ++ tr).
Proof.
  unfold run_steps. induction steps as [|x r IH]; intros ds tr; simpl.
  - rewrite app_nil_r. reflexivity.
  - destruct x as [i|]; simpl.
    + rewrite IH. rewrite <- !app_assoc. reflexivity.
    + apply IH.
Qed.

(* cfdm.read with the repairs: whatever further datasets the body opens and wherever it
   returns or raises, every dataset that was opened is closed exactly once, after all opens *)
Lemma read_trace_spec steps e :
  read_trace steps e =
  EvOpen 0%nat :: map EvOpen (opens steps) ++ map EvClose (0%nat :: opens steps).
Proof.
  unfold read_trace. rewrite run_steps_spec. destruct e; unfold file_close; simpl;
    rewrite !rev_app_distr, !rev_involutive; simpl; rewrite ?rev_involutive, <- ?app_assoc; reflexivity.
Qed.

Lemma count_open_map i l : count_ev (is_open i) (map EvOpen l) = count_occ Nat.eq_dec l i.
Proof.
  unfold count_ev. induction l as [|x r IH]; simpl; [reflexivity|].
  destruct (Nat.eq_dec x i) as [->|N].
  - rewrite Nat.eqb_refl. simpl. rewrite IH. reflexivity.
  - destruct (Nat.eqb i x) eqn:E; [apply Nat.eqb_eq in E; congruence|]. exact IH.
Qed.
Lemma count_close_map i l : count_ev (is_close i) (map EvClose l) = count_occ Nat.eq_dec l i.
Proof.
  unfold count_ev. induction l as [|x r IH]; simpl; [reflexivity|].
  destruct (Nat.eq_dec x i) as [->|N].
  - rewrite Nat.eqb_refl. simpl. rewrite IH. reflexivity.
  - destruct (Nat.eqb i x) eqn:E; [apply Nat.eqb_eq in E; congruence|]. exact IH.
Qed.
Lemma count_open_closes i l : count_ev (is_open i) (map EvClose l) = 0%nat.
Proof. unfold count_ev. induction l; simpl; auto. Qed.
Lemma count_close_opens i l : count_ev (is_close i) (map EvOpen l) = 0%nat.
Proof. unfold count_ev. induction l; simpl; auto. Qed.
Lemma count_ev_app p a b : count_ev p (a ++ b) = (count_ev p a + count_ev p b)%nat.
Proof. unfold count_ev. rewrite filter_app, app_length. reflexivity. Qed.

Lemma read_closed steps e i :
  count_ev (is_close i) (read_trace steps e) = count_ev (is_open i) (read_trace steps e).
Proof.
  rewrite read_trace_spec.
  change (EvOpen 0%nat :: map EvOpen (opens steps) ++ map EvClose (0%nat :: opens steps))
    with (map EvOpen (0%nat :: opens steps) ++ map EvClose (0%nat :: opens steps)).
  rewrite !count_ev_app, count_open_map, count_close_map, count_open_closes, count_close_opens. lia.
Qed.

(* the pinned code: a body that raises leaves the dataset open *)
Lemma read_closed_old_refuted :
  exists steps e, count_ev (is_close 0%nat) (read_trace_old steps e) <> count_ev (is_open 0%nat) (read_trace_old steps e).
Proof. exists [], Raises. vm_compute. discriminate. Qed.

(* ------------------------------------------------------------------ non-vacuity *)
Definition ds_example : ads :=
  mkAds [ mkVar "x" ["x"] false false [("bounds", "x_bnds")];
          mkVar "x_bnds" ["x"; "nv"] false false [];
          mkVar "t" [] false false [];
          mkVar "lat2" ["x"] false false [("bounds", "nope_missing")];
          mkVar "other" ["y"] false false [];
          mkVar "q" ["x"] false false [("coordinates", "t nope_missing lat2")] ] [].

(* the hypotheses of coordinates_single_fault are met by a missing name and by a
   variable with foreign dimensions, between two healthy tokens *)
Lemma coordinates_single_fault_example :
  aux_one ds_example ["x"] "nope_missing" = ROk ([], [("nope_missing", WAux, RMissing); ("nope_missing", WAux, RMissing)]) /\
  aux_one ds_example ["x"] "other" = ROk ([], [("other", WAux, RDims)]) /\
  aux_pass ds_example ["x"] ["t"] = ROk ([mkCons CDim "t" None], []) /\
  aux_pass ds_example ["x"] ["lat2"] = ROk ([mkCons CAux "lat2" None], [("nope_missing", WBounds, RMissing)]).
Proof. splits; vm_compute; reflexivity. Qed.

Lemma bounds_missing_example :
  exists v, get_var ds_example "lat2" = ROk v /\ bounds_name v None = Some "nope_missing" /\
            str_empty "nope_missing" = false /\ internal ds_example "nope_missing" = false.
Proof. eexists. splits; vm_compute; reflexivity. Qed.

(* non-vacuity, and the case where the replacement is itself a data variable of the file:
   q's coordinates "t other lat2", where other(y) is an unrelated data variable *)
Lemma read_coordinates_single_fault_example :
  let ds := edit ds_example "q" "coordinates" (Some "t lat2") in
  aux_one (norm ds) ["x"] "other" = ROk ([], [("other", WAux, RDims)]) /\
  ncdims (norm ds) "q" = ROk ["x"] /\
  map f_ncvar (match read_skel (edit ds "q" "coordinates" (Some "t other lat2")) with ROk fs => fs | _ => [] end)
    = ["other"; "q"] /\
  map f_ncvar (match read_skel (edit ds "q" "coordinates" (Some "t lat2")) with ROk fs => fs | _ => [] end)
    = ["other"; "q"].
Proof. cbv zeta. splits; vm_compute; reflexivity. Qed.


(* ------------------------------------------------------------------ open / close with external files *)
Lemma count_ev_cons p e l : count_ev p (e :: l) = ((if p e then 1 else 0) + count_ev p l)%nat.
Proof. unfold count_ev. simpl. destruct (p e); reflexivity. Qed.

Lemma count_ev_rev p l : count_ev p (rev l) = count_ev p l.
Proof.
  induction l as [|e r IH]; simpl; [reflexivity|].
  rewrite count_ev_app, IH. rewrite (count_ev_cons p e r), (count_ev_cons p e []).
  change (count_ev p []) with 0%nat. lia.
Qed.

Lemma count_occ_snoc l j i :
  count_occ Nat.eq_dec (l ++ [j]) i = (count_occ Nat.eq_dec l i + if Nat.eqb i j then 1 else 0)%nat.
Proof.
  rewrite count_occ_app. simpl. destruct (Nat.eq_dec j i) as [->|N].
  - rewrite Nat.eqb_refl. reflexivity.
  - destruct (Nat.eqb i j) eqn:E; [apply Nat.eqb_eq in E; congruence|reflexivity].
Qed.

(* every dataset that has been opened and not yet closed is in the list file_close will use *)
Definition xbal (st : xstate) : Prop :=
  forall i, count_ev (is_open i) (x_ev st) =
            (count_ev (is_close i) (x_ev st) + count_occ Nat.eq_dec (x_cur st) i)%nat.

Lemma xbal_open st j : xbal st -> xbal (mkX (x_cur st ++ [j]) (EvOpen j :: x_ev st)).
Proof.
  intros H i. simpl. rewrite !count_ev_cons, count_occ_snoc, (H i). simpl. lia.
Qed.

Lemma xrun_fixed_bal : forall steps st, xbal st -> xbal (fst (xrun VFixed steps st)).
Proof.
  induction steps as [|x r IH]; intros st H; simpl; [exact H|].
  destruct x as [j| |j [useful| |]].
  - apply IH, xbal_open, H.
  - apply IH, H.
  - destruct useful; apply IH, xbal_open, H.
  - simpl. exact H.
  - simpl. intros i. simpl. rewrite !count_ev_cons, (H i). simpl. lia.
Qed.

Lemma close_all_closed st : xbal st ->
  forall i, count_ev (is_close i) (x_ev (close_all st)) = count_ev (is_open i) (x_ev (close_all st)).
Proof.
  intros H i. unfold close_all. simpl. rewrite !count_ev_app, !count_ev_rev.
  rewrite count_close_map, count_open_closes, (H i). lia.
Qed.

Lemma close_all_bal st : xbal st -> xbal (close_all st).
Proof.
  intros H i. rewrite <- (close_all_closed st H i). unfold close_all. simpl. lia.
Qed.

(* cfdm.read with external files, with fix3-2: whatever files the body opens or scans, whether a
   scan succeeds (useful or not), fails before or after opening its file, and whether the
   body then returns or raises: every dataset is closed as often as it was opened *)
Lemma xread_closed steps e i :
  count_ev (is_close i) (xread_trace VFixed steps e) = count_ev (is_open i) (xread_trace VFixed steps e).
Proof.
  unfold xread_trace.
  assert (H0 : xbal (mkX [0%nat] [EvOpen 0%nat])).
  { intros j. cbn [x_ev x_cur]. rewrite !count_ev_cons.
    change (count_ev (is_open j) []) with 0%nat. change (count_ev (is_close j) []) with 0%nat.
    cbn [is_open is_close count_occ].
    destruct (Nat.eq_dec 0 j) as [<-|N]; [reflexivity|].
    destruct (Nat.eqb_spec j 0); [congruence|reflexivity]. }
  pose proof (xrun_fixed_bal steps _ H0) as H.
  destruct (xrun VFixed steps (mkX [0%nat] [EvOpen 0%nat])) as [st raised]. simpl in H.
  rewrite !count_ev_rev.
  destruct raised; [|destruct e]; apply close_all_closed; try assumption.
  apply close_all_bal, H.
Qed.

(* the seeded change A: a scanned file that holds none of the wanted variables is never closed;
   and the code before fix3-2: a scan that raises leaves the parent dataset open *)
Lemma xread_seedA_refuted :
  count_ev (is_open 1%nat) (xread_trace VSeedA [XScan 1%nat (ScanOk false)] Returns) = 1%nat /\
  count_ev (is_close 1%nat) (xread_trace VSeedA [XScan 1%nat (ScanOk false)] Returns) = 0%nat.
Proof. split; vm_compute; reflexivity. Qed.

Lemma xread_head_refuted :
  count_ev (is_open 0%nat) (xread_trace VHead [XScan 1%nat ScanFailBefore] Raises) = 1%nat /\
  count_ev (is_close 0%nat) (xread_trace VHead [XScan 1%nat ScanFailBefore] Raises) = 0%nat /\
  xread_trace VFixed [XScan 1%nat ScanFailBefore] Raises = [EvOpen 0%nat; EvClose 0%nat] /\
  xread_trace VFixed [XScan 1%nat ScanFailAfter] Raises = [EvOpen 0%nat; EvOpen 1%nat; EvClose 1%nat; EvClose 0%nat].
Proof. splits; vm_compute; reflexivity. Qed.

(* ------------------------------------------------------------------ references in a grouped dataset *)
Lemma resolve_head_ok m toks :
  (forall t, In t toks -> assoc t m <> None) -> resolve_head m toks = ROk (resolve m toks).
Proof.
  unfold resolve_head, resolve. induction toks as [|t r IH]; intros H; simpl; [reflexivity|].
  destruct (assoc t m) as [x|] eqn:E; [|exfalso; exact (H t (or_introl eq_refl) E)].
  simpl. rewrite IH by (intros u Hu; apply H; right; exact Hu). reflexivity.
Qed.

(* with fix3-5 a reference that the flattener could not resolve stays in the list as it
   is - a name that is not in the file, dealt with like any missing variable *)
Lemma resolve_keeps m toks t : In t toks -> assoc t m = None -> In t (resolve m toks).
Proof.
  unfold resolve. intros Hin E. apply in_map_iff. exists t. rewrite E. auto.
Qed.

Lemma resolve_head_refuted :
  resolve_head [("lat", "/g/lat")] ["lat"; "REF_NOT_FOUND_nope"] = RErr KeyErr /\
  resolve [("lat", "/g/lat")] ["lat"; "REF_NOT_FOUND_nope"] = ["/g/lat"; "REF_NOT_FOUND_nope"].
Proof. split; vm_compute; reflexivity. Qed.

(* ------------------------------------------------------------------ the report bookkeeping *)
Definition bk_ok (reports comp : list (string * bmsg)) : Prop :=
  (forall p q m, In (p, (q, m, false)) reports -> p = q) /\
  (forall c q m oc, In (c, (q, m, oc)) comp -> oc = true).

(* with fix3-7 a message about the relation between a variable and ONE parent (of_component =
   false) is never found in the report of another parent, whatever is emitted and copied *)
Lemma bk_run_ok : forall evs reports comp, bk_ok reports comp ->
  forall p q m, In (p, (q, m, false)) (bk_run false evs reports comp) -> p = q.
Proof.
  induction evs as [|e r IH]; intros reports comp [H1 H2] p q m; simpl. { apply H1. }
  destruct e as [p0 c0 m0 oc0|p0 c0]; apply IH; split.
  - intros p1 q1 m1 Hin. apply in_app_iff in Hin. destruct Hin as [Hin|[Hin|[]]]; [eauto|].
    inversion Hin; subst. reflexivity.
  - intros c1 q1 m1 oc1 Hin. destruct oc0; simpl in Hin; [|eauto].
    apply in_app_iff in Hin. destruct Hin as [Hin|[Hin|[]]]; [eauto|]. inversion Hin; subst. reflexivity.
  - intros p1 q1 m1 Hin. apply in_app_iff in Hin. destruct Hin as [Hin|Hin]; [eauto|].
    apply in_map_iff in Hin. destruct Hin as [[c1 [[q2 m2] oc2]] [Heq Hf]]. simpl in Heq. inversion Heq; subst.
    apply filter_In in Hf. destruct Hf as [Hf _]. specialize (H2 _ _ _ _ Hf). discriminate.
  - exact H2.
Qed.

(* before fix3-7: the message emitted while a candidate field for `lev` was built reaches `ta` *)
Lemma bk_head_refuted :
  In ("ta", ("lev", 7%nat, false)) (bk_run true [Emit "lev" "orog" 7%nat false; Copy "ta" "orog"] [] []) /\
  bk_run false [Emit "lev" "orog" 7%nat false; Copy "ta" "orog"] [] [] = [("lev", ("lev", 7%nat, false))].
Proof. split; vm_compute; auto. Qed.

(* ------------------------------------------------------------------ the cache of auxiliary coordinates *)
Lemma option_eqb_string_eq a b : option_eqb String.eqb a b = true -> a = b.
Proof.
  destruct a, b; simpl; try discriminate; try reflexivity. intros H. apply String.eqb_eq in H. congruence.
Qed.

(* with fix3-8 every parent gets the construct made with ITS geometry container *)
Lemma aux_cache_by_geometry : forall reqs cache,
  aux_cache_run true reqs cache = map (fun r => (snd r, fst r)) reqs.
Proof.
  induction reqs as [|[geo n] r IH]; intros cache; simpl; [reflexivity|].
  destruct (assoc n cache) as [g0|]; [|rewrite IH; reflexivity].
  destruct (option_eqb String.eqb g0 geo) eqn:E; simpl; rewrite IH; [|reflexivity].
  apply option_eqb_string_eq in E. subst. reflexivity.
Qed.

Lemma aux_cache_head_refuted :
  aux_cache_run false [(None, "lat"); (Some "geometry1", "lat")] [] = [("lat", None); ("lat", None)] /\
  aux_cache_run true [(None, "lat"); (Some "geometry1", "lat")] [] = [("lat", None); ("lat", Some "geometry1")].
Proof. split; vm_compute; reflexivity. Qed.

(* ------------------------------------------------------------------ char variables with foreign dimensions *)
(* before fix3-3 a char variable whose LEADING dimension is foreign passed the subset test
   (its string-length dimension is removed by _ncdimensions, and the test removed one more);
   the reader then raised ValueError when it inserted the construct *)
Lemma dims_are_subset_head_refuted :
  let ds := mkAds [mkVar "label" ["zz"; "strlen"] true false []; mkVar "q" ["lat"] false false []] [] in
  ncdims ds "label" = ROk ["zz"] /\
  dims_are_subset_head ds "label" ["zz"] ["lat"] = ROk true /\
  dims_are_subset ds "label" ["zz"] ["lat"] = ROk false.
Proof. cbv zeta. splits; vm_compute; reflexivity. Qed.

(* compression by gathering in the whole read: the valid list variable expands the dimension;
   a missing dimension in the first position leaves the variable uncompressed, with the list
   variable as its dimension coordinate; in neither case is the list variable a field *)
Definition ds_gathered (c : string) : ads :=
  mkAds3 [ mkVar "lat" ["lat"] false false []; mkVar "lon" ["lon"] false false [];
           mkVar "landpoint" ["landpoint"] false false [("compress", c)];
           mkVar "gq" ["landpoint"] false false [] ] [] ["lat"; "lon"; "landpoint"].

Lemma gathered_example :
  option_map f_cons (field_of_name (read_skel (ds_gathered "lat lon")) "gq") =
    Some [mkCons CDim "lat" None; mkCons CDim "lon" None] /\
  option_map f_cons (field_of_name (read_skel (ds_gathered "nope lon")) "gq") =
    Some [mkCons CDim "landpoint" None] /\
  field_of_name (read_skel (ds_gathered "lat lon")) "landpoint" = None /\
  field_of_name (read_skel (ds_gathered "nope lon")) "landpoint" = None.
Proof. splits; vm_compute; reflexivity. Qed.

(* fix4-2: a list variable whose compress attribute fails _check_compress is named in the report
   of every variable that spans its dimension *)
Lemma compress_missing_reported ds l c v :
  In l (a_vars ds) -> compress_of l = Some c ->
  fst (check_compress (a_dims ds) (split_ws c)) = false -> mem (v_name l) (v_dims v) = true ->
  exists w r, In (v_name l, w, r) (compress_msgs ds v).
Proof.
  intros Hl Hc Hf Hm. unfold compress_msgs.
  assert (E : exists w r, (match split_ws c with
                           | [] => [(v_name l, WCompressAttr, RFormat)]
                           | _ :: _ => [(v_name l, WCompress, RMissing)]
                           end) = [(v_name l, w, r)]) by (destruct (split_ws c); eauto).
  destruct E as (w & r & E). exists w, r. apply in_flat_map. exists l. split; [assumption|].
  rewrite Hc, Hf, Hm, E. left; reflexivity.
Qed.

Lemma compress_reported_example :
  option_map f_report (field_of_name (read_skel (ds_gathered "nope lon")) "gq") =
    Some [("landpoint", WCompress, RMissing)] /\
  option_map f_report (field_of_name (read_skel (ds_gathered "lat lon")) "gq") = Some [].
Proof. split; vm_compute; reflexivity. Qed.
