(* C13 - executable model of the netCDF reader's decision logic for references
   between variables (cfdm/read_write/netcdf/netcdfread.py): the attribute
   parsers (_split_string_by_white_space, _parse_x, _parse_grid_mapping,
   _parse_cell_methods), the _check_* functions for bounds, auxiliary/scalar
   coordinates, cell measures, ancillary variables, grid mappings and formula
   terms, the part of _create_field_or_domain that turns their verdicts into
   constructs and report entries, the selection of the returned fields in
   read, and the open/close protocol of cfdm.read.

   Every Python dictionary access d[k] and list access l[0], l.pop(0) of the
   anchored code is a PARTIAL operation here (get_var, var_dims, pop0, hd0:
   they return RErr KeyErr / RErr IndexErr), so that "the read does not raise"
   is a theorem about this model and not a convention.

   Definitions without suffix follow the code with the repairs
   (handoff/C13-fix-1..7.diff, applied, and handoff/C13-fix2-1..3.diff);
   definitions ending in _old follow the pinned code where it differs,
   definitions ending in _head the code before the fix2 diffs.  Fragment: one ungrouped CF-1.11 file without
   compression, geometries, UGRID, subsampling or external files (ROut marks
   an input outside the fragment, never an exception). *)
From CfdmV Require Import Common.Base.
Open Scope string_scope.
Open Scope list_scope.

(* ------------------------------------------------------------------ outcomes *)
Inductive res (A : Type) :=
| ROk (a : A)
| RErr (e : errk)      (* a Python exception escapes from cfdm.read *)
| ROut.                (* outside the modelled fragment *)
Arguments ROk {A} a.
Arguments RErr {A} e.
Arguments ROut {A}.

Definition bind {A B} (m : res A) (f : A -> res B) : res B :=
  match m with ROk a => f a | RErr e => RErr e | ROut => ROut end.
Notation "x <- m ;; k" := (bind m (fun x => k)) (at level 61, m at next level, right associativity).

Fixpoint mapM {A B} (f : A -> res B) (l : list A) : res (list B) :=
  match l with
  | [] => ROk []
  | x :: r => y <- f x ;; ys <- mapM f r ;; ROk (y :: ys)
  end.

(* ------------------------------------------------------------------ datasets *)
Record var := mkVar {
  v_name : string;
  v_dims : list string;
  v_char : bool;            (* netCDF char (S1) data type *)
  v_str : bool;             (* netCDF string data type *)
  v_attrs : list (string * string) }.   (* the string-valued attributes *)

Record ads := mkAds3 {
  a_vars : list var;        (* in file order *)
  a_external : list string;    (* tokens of the global external_variables attribute *)
  a_dims : list string }.      (* the netCDF dimensions of the file: g["internal_dimension_sizes"] *)

(* a dataset whose dimensions are exactly those that its variables span *)
Definition mkAds (vs : list var) (ext : list string) : ads := mkAds3 vs ext (flat_map v_dims vs).

Definition mem (x : string) (l : list string) : bool := existsb (String.eqb x) l.

Fixpoint find_var (vs : list var) (n : string) : option var :=
  match vs with
  | [] => None
  | v :: r => if String.eqb (v_name v) n then Some v else find_var r n
  end.

Definition internal (ds : ads) (n : string) : bool :=
  match find_var (a_vars ds) n with Some _ => true | None => false end.

(* g["variable_attributes"][n], g["variable_dimensions"][n], g["variables"][n] *)
Definition get_var (ds : ads) (n : string) : res var :=
  match find_var (a_vars ds) n with Some v => ROk v | None => RErr KeyErr end.

Definition attr (v : var) (a : string) : option string := assoc a (v_attrs v).

(* The attributes the reader looks at on a variable it reaches THROUGH a
   reference (a coordinate, bounds or formula-terms variable):
   g["variable_attributes"][ncvar].get("bounds" | "climatology" | "formula_terms").
   All other reference attributes (coordinates, grid_mapping, cell_measures,
   cell_methods, ancillary_variables, dimensions) are read from the variable
   being turned into a field only.  read_skel therefore does its lookups in
   norm ds: that a lookup never depends on one of the other attributes is then
   true by construction (and checked against cfdm by the correspondence). *)
Definition lookup_attr (a : string) : bool :=
  String.eqb a "bounds" || String.eqb a "climatology" || String.eqb a "formula_terms" ||
  String.eqb a "compress".      (* read in the scan of the file for list variables *)

Definition strip (v : var) : var :=
  mkVar (v_name v) (v_dims v) (v_char v) (v_str v)
        (filter (fun kv => lookup_attr (fst kv)) (v_attrs v)).

Definition norm (ds : ads) : ads := mkAds3 (map strip (a_vars ds)) (a_external ds) (a_dims ds).

(* a file edit: attribute a of variable vn is set to a value, or deleted *)
Definition remove_key (a : string) (l : list (string * string)) : list (string * string) :=
  filter (fun kv => negb (String.eqb (fst kv) a)) l.

Definition set_attr (a : string) (val : option string) (v : var) : var :=
  mkVar (v_name v) (v_dims v) (v_char v) (v_str v)
        (match val with
         | Some s => (a, s) :: remove_key a (v_attrs v)
         | None => remove_key a (v_attrs v)
         end).

Definition edit (ds : ads) (vn a : string) (val : option string) : ads :=
  mkAds3 (map (fun v => if String.eqb (v_name v) vn then set_attr a val v else v) (a_vars ds))
         (a_external ds) (a_dims ds).

Definition var_dims (ds : ads) (n : string) : res (list string) :=
  v <- get_var ds n ;; ROk (v_dims v).

(* ------------------------------------------------------------------ compression by gathering *)
(* _check_compress: every name of the compress attribute must be a dimension of the file.
   The flag is only ever set to False: one missing dimension, in ANY position, and the
   verdict is False.  Result: verdict, number of "Compressed dimension is not in file"
   messages (they are filed under no parent variable: no field's report has them) *)
Fixpoint check_compress_list (dims parsed : list string) : bool * nat :=
  match parsed with
  | [] => (true, O)
  | d :: r => let '(ok, k) := check_compress_list dims r in
              if existsb (String.eqb d) dims then (ok, k) else (false, S k)
  end.

Definition check_compress (dims parsed : list string) : bool * nat :=
  match parsed with
  | [] => (false, 1%nat)       (* compress attribute is incorrectly formatted *)
  | _ => check_compress_list dims parsed
  end.

(* a seeded variant: the flag is reassigned at every iteration (ok = ncdim in dimensions),
   so only the last name decides *)
Fixpoint check_compress_seeded (dims parsed : list string) (ok : bool) : bool :=
  match parsed with
  | [] => ok
  | d :: r => check_compress_seeded dims r (existsb (String.eqb d) dims)
  end.

(* str.split() is defined further down; the list variables are found with it *)
Definition subset (a b : list string) : bool := forallb (fun x => mem x b) a.

(* _dimensions_are_subset (fix3-3): dims are those of _ncdimensions, i.e. the string-length
   dimension of a char variable is already gone *)
Definition dims_are_subset (ds : ads) (n : string) (dims parent : list string) : res bool :=
  ROk (subset dims parent).

(* before fix3-3 a char variable lost a second trailing dimension in this test *)
Definition dims_are_subset_head (ds : ads) (n : string) (dims parent : list string) : res bool :=
  if subset dims parent then ROk true
  else v <- get_var ds n ;; ROk (v_char v && subset (removelast dims) parent).

(* the external variables that remain after _check_external_variables *)
Definition externals (ds : ads) : list string :=
  filter (fun n => negb (internal ds n)) (a_external ds).

(* ------------------------------------------------------------------ report entries *)
Inductive what :=
| WBounds | WAux | WMeasure | WMeasureAttr | WAnc | WAncAttr | WFt | WFtAttr | WBFt | WBFtAttr
| WGm | WGmAttr | WGmCoord | WCmInterval | WCmAttr | WCompress | WCompressAttr | WOther.
Inductive reason :=
| RMissing | RDims | RFormat | RMissingExt | RIncompat | RNoBounds | RInconsistent | RNotUsed | ROtherReason.
Definition msg : Type := string * what * reason.

Definition what_eqb (a b : what) : bool :=
  match a, b with
  | WBounds, WBounds | WAux, WAux | WMeasure, WMeasure | WMeasureAttr, WMeasureAttr | WAnc, WAnc
  | WAncAttr, WAncAttr | WFt, WFt | WFtAttr, WFtAttr | WBFt, WBFt | WBFtAttr, WBFtAttr | WGm, WGm
  | WGmAttr, WGmAttr | WGmCoord, WGmCoord | WCmInterval, WCmInterval | WCmAttr, WCmAttr
  | WCompress, WCompress | WCompressAttr, WCompressAttr
  | WOther, WOther => true
  | _, _ => false
  end.
Definition reason_eqb (a b : reason) : bool :=
  match a, b with
  | RMissing, RMissing | RDims, RDims | RFormat, RFormat | RMissingExt, RMissingExt
  | RIncompat, RIncompat | RNoBounds, RNoBounds | RInconsistent, RInconsistent
  | RNotUsed, RNotUsed | ROtherReason, ROtherReason => true
  | _, _ => false
  end.
Definition msg_eqb (a b : msg) : bool :=
  let '(k1, w1, r1) := a in let '(k2, w2, r2) := b in
  String.eqb k1 k2 && what_eqb w1 w2 && reason_eqb r1 r2.

(* ------------------------------------------------------------------ strings *)
Definition is_ws (c : ascii) : bool :=
  let n := nat_of_ascii c in Nat.eqb n 32 || (Nat.leb 9 n && Nat.leb n 13).

Definition is_word_char (c : ascii) : bool :=
  let n := nat_of_ascii c in
  (Nat.leb 65 n && Nat.leb n 90) || (Nat.leb 97 n && Nat.leb n 122) ||
  (Nat.leb 48 n && Nat.leb n 57) || Nat.eqb n 95 || Nat.eqb n 35.

Definition str_empty (s : string) : bool := match s with EmptyString => true | _ => false end.

Fixpoint str_all (p : ascii -> bool) (s : string) : bool :=
  match s with EmptyString => true | String c r => p c && str_all p r end.

Fixpoint str_any (p : ascii -> bool) (s : string) : bool :=
  match s with EmptyString => false | String c r => p c || str_any p r end.

Fixpoint last_char (s : string) : option ascii :=
  match s with
  | EmptyString => None
  | String c EmptyString => Some c
  | String _ r => last_char r
  end.

Fixpoint drop_last (s : string) : string :=
  match s with
  | EmptyString => EmptyString
  | String _ EmptyString => EmptyString
  | String c r => String c (drop_last r)
  end.

Definition colon : ascii := ascii_of_nat 58.
Definition lpar : ascii := ascii_of_nat 40.
Definition rpar : ascii := ascii_of_nat 41.

Definition ends_with (c : ascii) (s : string) : bool :=
  match last_char s with Some d => Ascii.eqb c d | None => false end.

(* str.split() *)
Fixpoint split_ws_aux (s cur : string) : list string :=
  match s with
  | EmptyString => if str_empty cur then [] else [cur]
  | String c r =>
      if is_ws c then (if str_empty cur then split_ws_aux r "" else cur :: split_ws_aux r "")
      else split_ws_aux r (cur ++ String c "")%string
  end.
Definition split_ws (s : string) : list string := split_ws_aux s "".

(* a list variable: a coordinate variable (its only dimension has its name) with a compress attribute *)
Definition compress_of (v : var) : option string :=
  match v_dims v with
  | [d] => if String.eqb d (v_name v) then assoc "compress" (v_attrs v) else None
  | _ => None
  end.

(* g["compression"][dim]["gathered"]["implied_ncdimensions"], for the list variables that pass _check_compress *)
Definition gathered (ds : ads) : list (string * list string) :=
  flat_map (fun v => match compress_of v with
                     | Some c => let p := split_ws c in
                                 if fst (check_compress (a_dims ds) p) then [(v_name v, p)] else []
                     | None => []
                     end) (a_vars ds).

(* the first gathered dimension is replaced by the dimensions it implies *)
Fixpoint expand (g : list (string * list string)) (dims : list string) : list string :=
  match dims with
  | [] => []
  | d :: r => match assoc d g with Some imp => imp ++ r | None => d :: expand g r end
  end.

(* _ncdimensions: a char variable loses its trailing dimension; gathered dimensions are expanded *)
Definition ncdims (ds : ads) (n : string) : res (list string) :=
  v <- get_var ds n ;;
  ROk (expand (gathered ds)
         (if v_char v && negb (Nat.eqb (length (v_dims v)) 0) then removelast (v_dims v) else v_dims v)).

Definition is_word (s : string) : bool := negb (str_empty s) && str_all is_word_char s.

(* ------------------------------------------------------------------ _parse_x *)
Inductive tok := TKey (k : string) | TVal (v : string) | TBad.

Definition classify (t : string) : tok :=
  if is_word t then TVal t
  else if ends_with colon t && is_word (drop_last t) then TKey (drop_last t)
  else TBad.

(* cur = the mapping being collected (values reversed); acc = finished mappings (reversed) *)
Fixpoint group (toks : list string) (cur : option (string * list string))
               (acc : list (string * list string)) : option (list (string * list string)) :=
  match toks with
  | [] => match cur with
          | Some (k, (_ :: _) as vs) => Some (rev ((k, rev vs) :: acc))
          | _ => None
          end
  | t :: r =>
      match classify t, cur with
      | TKey k, None => group r (Some (k, [])) acc
      | TKey k, Some (k0, (_ :: _) as vs) => group r (Some (k, [])) ((k0, rev vs) :: acc)
      | TVal v, Some (k0, vs) => group r (Some (k0, v :: vs)) acc
      | _, _ => None
      end
  end.

(* The regular expression of _parse_x accepts either one bare word (nothing
   else in the string) or a list of "key: value value ..." groups that starts
   at the first character; anything else gives []. *)
Definition parse_x (s : string) : list (string * list string) :=
  match s with
  | EmptyString => []
  | String c _ =>
      if is_ws c then []
      else match split_ws s with
           | [w] => if is_word w then (if str_any is_ws s then [] else [(w, [])])
                    else []   (* a lone "key:" has no value *)
           | toks => match group toks None [] with Some l => l | None => [] end
           end
  end.

(* ------------------------------------------------------------------ constructs *)
Inductive ctype := CDim | CAux | CDomAnc | CMeasure | CFieldAnc.
Definition ctype_eqb (a b : ctype) : bool :=
  match a, b with
  | CDim, CDim | CAux, CAux | CDomAnc, CDomAnc | CMeasure, CMeasure | CFieldAnc, CFieldAnc => true
  | _, _ => false
  end.

Record cons := mkCons { c_type : ctype; c_ncvar : string; c_bounds : option string }.

Definition cons_eqb (a b : cons) : bool :=
  ctype_eqb (c_type a) (c_type b) && String.eqb (c_ncvar a) (c_ncvar b) &&
  option_eqb String.eqb (c_bounds a) (c_bounds b).

(* the variables a construct makes its field refer to (_reference) *)
Definition cons_refs (c : cons) : list string :=
  c_ncvar c :: match c_bounds c with Some b => [b] | None => [] end.

(* a loop over the entries of an attribute in which every entry is judged on its own:
   the constructs and the messages of the entries, in order *)
Fixpoint concat_pass {A} (one : A -> res (list cons * list msg)) (l : list A)
  : res (list cons * list msg) :=
  match l with
  | [] => ROk ([], [])
  | x :: r =>
      a <- one x ;;
      b <- concat_pass one r ;;
      ROk (fst a ++ fst b, snd a ++ snd b)
  end.

(* ------------------------------------------------------------------ _check_bounds *)
Definition check_bounds (ds : ads) (coord bname : string) : res (bool * list msg) :=
  if negb (internal ds bname) then ROk (false, [(bname, WBounds, RMissing)])
  else
    c <- ncdims ds coord ;;
    b <- ncdims ds bname ;;
    if Nat.eqb (length b) (S (length c)) && list_eqb String.eqb c (removelast b)
    then ROk (true, [])
    else ROk (false, [(bname, WBounds, RDims)]).

(* _create_bounded_construct: which bounds, if any, the construct gets.
   `override` is the bounds_ncvar argument (formula terms bounds). *)
Definition bounds_name (v : var) (override : option string) : option string :=
  match override with
  | Some b => Some b
  | None => match attr v "bounds" with
            | Some b => Some b
            | None => attr v "climatology"
            end
  end.

(* fix3-1: when the bounds variable is given explicitly (formula terms route) and the
   variable also has a bounds attribute of its own that names another variable, that
   attribute is checked too, for the report only: _check_bounds(parent, ncvar, "bounds", own) *)
Definition own_bounds_msgs (ds : ads) (n : string) (v : var) (override : option string)
  : res (list msg) :=
  match override, attr v "bounds" with
  | Some b, Some own =>
      if str_empty own || String.eqb own b then ROk []
      else r <- check_bounds ds n own ;; ROk (snd r)
  | _, _ => ROk []
  end.

Definition create_bounded (ds : ads) (t : ctype) (n : string) (override : option string)
  : res (cons * list msg) :=
  v <- get_var ds n ;;
  pre <- own_bounds_msgs ds n v override ;;
  match bounds_name v override with
  | None => ROk (mkCons t n None, pre)
  | Some b =>
      if str_empty b then ROk (mkCons t n None, pre)
      else
        r <- check_bounds ds n b ;;
        let '(ok, ms) := r in
        ROk (mkCons t n (if ok then Some b else None), pre ++ ms)
  end.

(* ------------------------------------------------------------------ dimension coordinates *)
(* _find_coordinate_variable without groups: a variable named like the dimension,
   spanning exactly that dimension *)
Definition coordinate_variable (ds : ads) (ncdim : string) : bool :=
  match find_var (a_vars ds) ncdim with
  | Some v => list_eqb String.eqb (v_dims v) [ncdim]
  | None => false
  end.

Fixpoint dim_pass (ds : ads) (dims : list string) : res (list cons * list msg) :=
  match dims with
  | [] => ROk ([], [])
  | d :: r =>
      rest <- dim_pass ds r ;;
      if coordinate_variable ds d then
        cm <- create_bounded ds CDim d None ;;
        ROk (fst cm :: fst rest, snd cm ++ snd rest)
      else if mem d (a_dims ds) then ROk rest
      else RErr KeyErr       (* size = g["internal_dimension_sizes"][ncdim] *)
  end.

(* ------------------------------------------------------------------ coordinates attribute *)
(* _check_auxiliary_or_scalar_coordinate *)
Definition check_aux (ds : ads) (parent_dims : list string) (n : string) : res (bool * list msg) :=
  if negb (internal ds n) then ROk (false, [(n, WAux, RMissing); (n, WAux, RMissing)])
  else
    d <- ncdims ds n ;;
    sub <- dims_are_subset ds n d parent_dims ;;
    if sub then ROk (true, []) else ROk (false, [(n, WAux, RDims)]).

(* one token of the coordinates attribute *)
Definition aux_one (ds : ads) (field_dims : list string) (n : string) : res (list cons * list msg) :=
  if mem n field_dims then ROk ([], [])
  else
    r <- check_aux ds field_dims n ;;
    let '(ok, ms) := r in
    if negb ok then ROk ([], ms)
    else
      d <- ncdims ds n ;;
      v <- get_var ds n ;;
      let axes := filter (fun x => mem x field_dims) d in
      (* a numeric scalar coordinate variable becomes a dimension coordinate *)
      let t := match axes with
               | [] => if v_char v || v_str v then CAux else CDim
               | _ => CAux
               end in
      cm <- create_bounded ds t n None ;;
      ROk ([fst cm], ms ++ snd cm).

Fixpoint aux_pass (ds : ads) (field_dims : list string) (toks : list string)
  : res (list cons * list msg) :=
  match toks with
  | [] => ROk ([], [])
  | n :: r =>
      a <- aux_one ds field_dims n ;;
      b <- aux_pass ds field_dims r ;;
      ROk (fst a ++ fst b, snd a ++ snd b)
  end.

(* ------------------------------------------------------------------ formula terms *)
Definition terms := list (string * option string).

Fixpoint set_term (t : string) (v : option string) (l : terms) : terms :=
  match l with
  | [] => [(t, v)]
  | (t', v') :: r => if String.eqb t t' then (t, v) :: r else (t', v') :: set_term t v r
  end.

Definition get_term (t : string) (l : terms) : option (option string) := assoc t l.

(* first loop of _check_formula_terms: the terms of the coordinate variable *)
Fixpoint ft_coord_terms (ds : ads) (coord : string) (parsed : list (string * list string))
                        (acc : terms) (ms : list msg) : terms * list msg :=
  match parsed with
  | [] => (acc, ms)
  | (term, values) :: r =>
      let acc := set_term term None acc in
      match values with
      | [n] =>
          if internal ds n then ft_coord_terms ds coord r (set_term term (Some n) acc) ms
          else ft_coord_terms ds coord r acc (ms ++ [(n, WFt, RMissing)])
      | _ => ft_coord_terms ds coord r acc (ms ++ [(coord, WFtAttr, RFormat)])
      end
  end.

Definition opt_mem (z : option string) (l : list string) : bool :=
  match z with Some d => mem d l | None => false end.

(* loop over the terms of the bounds variable's formula_terms.
   strict = the pinned code: g["variable_dimensions"][None] raises KeyError *)
Fixpoint ft_bounds_terms (strict : bool) (ds : ads) (b : string) (z : option string)
                         (cterms : terms) (parsed : list (string * list string))
                         (acc : terms) (ms : list msg) : res (terms * list msg) :=
  match parsed with
  | [] => ROk (acc, ms)
  | (term, values) :: r =>
      let acc := set_term term None acc in
      match values with
      | [n] =>
          if negb (internal ds n) then
            ft_bounds_terms strict ds b z cterms r acc (ms ++ [(n, WBFt, RMissing)])
          else match get_term term cterms with
          | None => ft_bounds_terms strict ds b z cterms r acc (ms ++ [(b, WBFtAttr, RIncompat)])
          | Some None =>
              if strict then RErr KeyErr
              else ft_bounds_terms strict ds b z cterms r acc ms
          | Some (Some parent) =>
              dn <- var_dims ds parent ;;
              dims <- var_dims ds n ;;
              if negb (opt_mem z dn) then
                if negb (String.eqb n parent) then
                  ft_bounds_terms strict ds b z cterms r acc (ms ++ [(b, WBFt, RInconsistent)])
                else ft_bounds_terms strict ds b z cterms r (set_term term (Some n) acc) ms
              else if negb (Nat.eqb (length dims) (S (length dn))) then
                ft_bounds_terms strict ds b z cterms r acc (ms ++ [(b, WBFt, RDims)])
              else if negb (list_eqb String.eqb dn (removelast dims)) then
                ft_bounds_terms strict ds b z cterms r acc (ms ++ [(b, WBFt, RDims)])
              else ft_bounds_terms strict ds b z cterms r (set_term term (Some n) acc) ms
          end
      | _ => ft_bounds_terms strict ds b z cterms r acc (ms ++ [(b, WBFtAttr, RFormat)])
      end
  end.

Definition same_keys (a b : terms) : bool :=
  subset (map fst a) (map fst b) && subset (map fst b) (map fst a).

(* _check_formula_terms.  Result: (coordinate terms, bounds terms, messages). *)
Definition check_formula_terms (strict : bool) (ds : ads) (field coord ft : string) (z : option string)
  : res (terms * terms * list msg) :=
  match parse_x ft with
  | [] => ROk ([], [], [(coord, WFtAttr, RFormat)])
  | parsed =>
      _ <- ncdims ds field ;;
      let '(cterms, ms) := ft_coord_terms ds coord parsed [] [] in
      cv <- get_var ds coord ;;
      let bname :=
        match attr cv "bounds" with
        | Some b => if negb strict && negb (internal ds b) then None else Some b
        | None => None
        end in
      match bname with
      | None => ROk (cterms, map (fun tv => (fst tv, None)) cterms, ms)
      | Some b =>
          bv <- get_var ds b ;;      (* strict: KeyError when the bounds variable is missing *)
          match attr bv "formula_terms" with
          | None => ROut             (* bounds terms inferred from the coordinates: not modelled *)
          | Some bft =>
              let pb := parse_x bft in
              let ms := match pb with [] => ms ++ [(b, WBFtAttr, RFormat)] | _ => ms end in
              r <- ft_bounds_terms strict ds b z cterms pb [] ms ;;
              let '(bterms, ms) := r in
              ROk (cterms, bterms,
                   if same_keys cterms bterms then ms else ms ++ [(b, WBFtAttr, RIncompat)])
          end
      end
  end.

(* a coordinate reference: netCDF variable of the grid mapping (None for formula
   terms), coordinates by variable name (None when taken from standard names: not
   modelled), and the formula terms *)
Record cref := mkCref { r_ncvar : option string; r_coords : option (list string); r_terms : terms }.

(* the domain ancillaries of one parametric coordinate.  Result: the constructs, the
   terms of the coordinate reference (a term whose variable spans a dimension that
   the data variable does not span is kept with no value, like a term whose variable
   is missing - fix2-2), the messages *)
Fixpoint ft_ancillaries (ds : ads) (field_dims : list string) (bterms : terms) (todo : terms)
  : res (list cons * terms * list msg) :=
  match todo with
  | [] => ROk ([], [], [])
  | (term, None) :: r =>
      rest <- ft_ancillaries ds field_dims bterms r ;;
      let '(cs, ts, ms) := rest in ROk (cs, (term, None) :: ts, ms)
  | (term, Some n) :: r =>
      d <- ncdims ds n ;;
      let axes := filter (fun x => mem x field_dims) d in
      let b := match get_term term bterms with
               | Some (Some b) => if String.eqb b n then None else Some b
               | _ => None
               end in
      cm <- create_bounded ds CDomAnc n b ;;
      rest <- ft_ancillaries ds field_dims bterms r ;;
      let '(cs, ts, ms) := rest in
      if Nat.eqb (length axes) (length d) then ROk (fst cm :: cs, (term, Some n) :: ts, snd cm ++ ms)
      else ROk (cs, (term, None) :: ts, snd cm ++ [(n, WFt, RDims)] ++ ms)
  end.

(* before fix2-2: one such term and the whole reference is dropped (ok = False) *)
Fixpoint ft_ancillaries_head (ds : ads) (field_dims : list string) (bterms : terms) (todo : terms)
  : res (list cons * bool * list msg) :=
  match todo with
  | [] => ROk ([], true, [])
  | (_, None) :: r => ft_ancillaries_head ds field_dims bterms r
  | (term, Some n) :: r =>
      d <- ncdims ds n ;;
      let axes := filter (fun x => mem x field_dims) d in
      let b := match get_term term bterms with
               | Some (Some b) => if String.eqb b n then None else Some b
               | _ => None
               end in
      cm <- create_bounded ds CDomAnc n b ;;
      rest <- ft_ancillaries_head ds field_dims bterms r ;;
      let '(cs, ok, ms) := rest in
      if Nat.eqb (length axes) (length d) then ROk (fst cm :: cs, ok, snd cm ++ ms)
      else ROk (cs, false, snd cm ++ [(n, WFt, RDims)] ++ ms)
  end.

Definition first_dim (strict : bool) (ds : ads) (n : string) : res (option string) :=
  d <- var_dims ds n ;;
  match d with
  | z :: _ => ROk (Some z)
  | [] => if strict then RErr IndexErr else ROk None
  end.

(* the formula-terms part of _create_field_or_domain, over the coordinate constructs *)
Fixpoint ft_pass (strict : bool) (ds : ads) (field : string) (field_dims : list string)
                 (coords : list cons) : res (list cons * list cref * list msg) :=
  match coords with
  | [] => ROk ([], [], [])
  | c :: r =>
      cv <- get_var ds (c_ncvar c) ;;
      match attr cv "formula_terms" with
      | None => ft_pass strict ds field field_dims r
      | Some ft =>
          z <- first_dim strict ds (c_ncvar c) ;;
          chk <- check_formula_terms strict ds field (c_ncvar c) ft z ;;
          let '(cterms, bterms, ms) := chk in
          if strict then
            anc <- ft_ancillaries_head ds field_dims bterms cterms ;;
            let '(cs, ok, ms2) := anc in
            rest <- ft_pass strict ds field field_dims r ;;
            let '(cs', crs', ms') := rest in
            if ok then ROk (cs ++ cs', mkCref None (Some [c_ncvar c]) cterms :: crs', ms ++ ms2 ++ ms')
            else ROk (cs', crs', ms ++ ms2 ++ ms')
          else
            anc <- ft_ancillaries ds field_dims bterms cterms ;;
            let '(cs, ts, ms2) := anc in
            rest <- ft_pass strict ds field field_dims r ;;
            let '(cs', crs', ms') := rest in
            ROk (cs ++ cs', mkCref None (Some [c_ncvar c]) ts :: crs', ms ++ ms2 ++ ms')
      end
  end.

(* ------------------------------------------------------------------ grid_mapping *)
Fixpoint check_gm_coords (ds : ads) (coords : list string) : bool * list msg :=
  match coords with
  | [] => (true, [])
  | c :: r =>
      let '(ok, ms) := check_gm_coords ds r in
      if internal ds c then (ok, ms)
      else (false, (c, WGmCoord, RMissing) :: (c, WGmCoord, RMissing) :: ms)
  end.

Fixpoint check_gm_list (ds : ads) (parsed : list (string * list string)) : bool * list msg :=
  match parsed with
  | [] => (true, [])
  | (gm, coords) :: r =>
      let '(ok1, ms1) := if internal ds gm then (true, [])
                         else (false, [(gm, WGm, RMissing); (gm, WGm, RMissing)]) in
      let '(ok2, ms2) := check_gm_coords ds coords in
      let '(ok3, ms3) := check_gm_list ds r in
      (ok1 && ok2 && ok3, ms1 ++ ms2 ++ ms3)
  end.

(* _check_grid_mapping *)
Definition check_grid_mapping (ds : ads) (field : string) (parsed : list (string * list string))
  : bool * list msg :=
  match parsed with
  | [] => (false, [(field, WGmAttr, RFormat)])
  | _ => check_gm_list ds parsed
  end.

(* keys = ncvar_to_key so far; vertical = coordinates that own a formula-terms reference *)
(* always_ref: the grid mapping variable counts as referenced also when it only gave the datum
   of a vertical coordinate reference (no coordinate reference of its own; /repo de4431b) *)
Fixpoint gm_pass (always_ref : bool) (field : string) (parsed : list (string * list string))
                 (keys vertical : list string) : list cref * list string * list msg :=
  match parsed with
  | [] => ([], [], [])
  | (gm, coords) :: r =>
      let unused := map (fun c => (c, WGmCoord, RNotUsed)) (filter (fun c => negb (mem c keys)) coords) in
      let cs := filter (fun c => mem c keys) coords in
      (* cr: the new coordinate reference; kf: the new entry of ncvar_to_key *)
      let '(cr, kf) :=
        match cs with
        | [] => ([mkCref (Some gm) None []], [gm])
        | _ => let cs' := filter (fun c => negb (mem c vertical)) cs in
               match cs' with
               | [] => ([], [])
               | _ => ([mkCref (Some gm) (Some cs') []], [gm])
               end
        end in
      let rf := if always_ref then [gm] else kf in
      let '(crs, refs, ms) := gm_pass always_ref field r (kf ++ keys) vertical in
      (cr ++ crs, rf ++ refs, unused ++ ms)
  end.

(* ------------------------------------------------------------------ cell_measures *)
Fixpoint check_cm_list (ds : ads) (field : string) (parent : list string)
                       (parsed : list (string * list string)) : res (bool * list msg) :=
  match parsed with
  | [] => ROk (true, [])
  | (_, values) :: r =>
      rest <- check_cm_list ds field parent r ;;
      let '(ok, ms) := rest in
      match values with
      | [n] =>
          let ext := mem n (externals ds) in
          if negb ext && negb (internal ds n) then ROk (false, (n, WMeasure, RMissingExt) :: ms)
          else if ext then ROk (ok, ms)
          else
            d <- ncdims ds n ;;
            sub <- dims_are_subset ds n d parent ;;
            if sub then ROk (ok, ms) else ROk (false, (n, WMeasure, RDims) :: ms)
      | _ => ROk (false, (field, WMeasureAttr, RFormat) :: ms)
      end
  end.

(* _check_cell_measures and the cell-measure part of _create_field_or_domain
   before fix2-1: one verdict for the whole attribute *)
Definition measure_pass_head (ds : ads) (field : string) (s : string) : res (list cons * list msg) :=
  match parse_x s with
  | [] => ROk ([], [(field, WMeasureAttr, RFormat)])
  | parsed =>
      parent <- ncdims ds field ;;
      r <- check_cm_list ds field parent parsed ;;
      let '(ok, ms) := r in
      if ok then
        cs <- mapM (fun kv => match snd kv with
                              | n :: _ => ROk (mkCons CMeasure n None)
                              | [] => RErr IndexErr      (* ncvars[0] *)
                              end) parsed ;;
        ROk (cs, ms)
      else ROk ([], ms)
  end.

(* fix2-1: every "measure: variable" entry is checked on its own
   (_check_cell_measures is called with the one-entry list) *)
Definition measure_one (ds : ads) (field : string) (kv : string * list string)
  : res (list cons * list msg) :=
  parent <- ncdims ds field ;;
  r <- check_cm_list ds field parent [kv] ;;
  let '(ok, ms) := r in
  if ok then
    match snd kv with
    | n :: _ => ROk ([mkCons CMeasure n None], ms)
    | [] => RErr IndexErr      (* ncvars[0] *)
    end
  else ROk ([], ms).

Definition measure_entries (ds : ads) (field : string) (parsed : list (string * list string))
  : res (list cons * list msg) := concat_pass (measure_one ds field) parsed.

Definition measure_pass (ds : ads) (field : string) (s : string) : res (list cons * list msg) :=
  match parse_x s with
  | [] => ROk ([], [(field, WMeasureAttr, RFormat)])
  | parsed => measure_entries ds field parsed
  end.

(* ------------------------------------------------------------------ ancillary_variables *)
(* _check_ancillary_variables: a missing variable ends the check at once *)
Fixpoint check_anc_list (ds : ads) (parent : list string) (toks : list string) (ok : bool)
                        (ms : list msg) : res (bool * list msg) :=
  match toks with
  | [] => ROk (ok, ms)
  | n :: r =>
      if negb (internal ds n) then ROk (false, ms ++ [(n, WAnc, RMissing)])
      else
        d <- ncdims ds n ;;
        sub <- dims_are_subset ds n d parent ;;
        if sub then check_anc_list ds parent r ok ms
        else check_anc_list ds parent r false (ms ++ [(n, WAnc, RDims)])
  end.

(* before fix2-1: one verdict for the whole attribute *)
Definition anc_pass_head (ds : ads) (field : string) (s : string) : res (list cons * list msg) :=
  match split_ws s with
  | [] => ROk ([], [(field, WAncAttr, RFormat)])
  | toks =>
      parent <- ncdims ds field ;;
      r <- check_anc_list ds parent toks true [] ;;
      let '(ok, ms) := r in
      if ok then ROk (map (fun n => mkCons CFieldAnc n None) toks, ms) else ROk ([], ms)
  end.

(* fix2-1: every name is checked on its own
   (_check_ancillary_variables is called with the one-name list) *)
Definition anc_one (ds : ads) (field : string) (n : string) : res (list cons * list msg) :=
  parent <- ncdims ds field ;;
  r <- check_anc_list ds parent [n] true [] ;;
  let '(ok, ms) := r in
  if ok then ROk ([mkCons CFieldAnc n None], ms) else ROk ([], ms).

Definition anc_toks (ds : ads) (field : string) (toks : list string) : res (list cons * list msg) :=
  concat_pass (anc_one ds field) toks.

Definition anc_pass (ds : ads) (field : string) (s : string) : res (list cons * list msg) :=
  match split_ws s with
  | [] => ROk ([], [(field, WAncAttr, RFormat)])
  | toks => anc_toks ds field toks
  end.

(* ------------------------------------------------------------------ cell_methods *)
(* re.sub(r"\((?=[^\s])", "( ", s) *)
Fixpoint sub_lpar (s : string) : string :=
  match s with
  | EmptyString => EmptyString
  | String c r =>
      if Ascii.eqb c lpar then
        match r with
        | String d _ => if is_ws d then String c (sub_lpar r) else String c (String " " (sub_lpar r))
        | EmptyString => String c EmptyString
        end
      else String c (sub_lpar r)
  end.

(* re.sub(r"(?<=[^\s])\)", " )", s) ; prev = the preceding character of the input *)
Fixpoint sub_rpar (prev : option ascii) (s : string) : string :=
  match s with
  | EmptyString => EmptyString
  | String c r =>
      if Ascii.eqb c rpar then
        match prev with
        | Some p => if is_ws p then String c (sub_rpar (Some c) r)
                    else String " " (String c (sub_rpar (Some c) r))
        | None => String c (sub_rpar (Some c) r)
        end
      else String c (sub_rpar (Some c) r)
  end.

Definition cm_tokens (s : string) : list string := split_ws (sub_rpar None (sub_lpar s)).

Record cmeth := mkCmeth {
  m_axes : list string; m_method : option string;
  m_within : option string; m_where : option string; m_over : option string;
  m_comment : option string; m_intervals : nat }.

(* cell_methods.pop(0) and cell_methods[0] on a possibly empty list *)
Definition pop0 (l : list string) : res (string * list string) :=
  match l with x :: r => ROk (x, r) | [] => RErr IndexErr end.
Definition hd0 (l : list string) : res string :=
  match l with x :: _ => ROk x | [] => RErr IndexErr end.

(* while cell_methods and cell_methods[0].endswith(":"): axes.append(pop[:-1]) *)
Fixpoint take_axes (l : list string) : list string * list string :=
  match l with
  | x :: r => if ends_with colon x then let '(a, rest) := take_axes r in (drop_last x :: a, rest)
              else ([], l)
  | [] => ([], [])
  end.

Definition is_climkw (s : string) : bool :=
  String.eqb s "within" || String.eqb s "where" || String.eqb s "over".

Definition set_kw (k v : string) (c : cmeth) : cmeth :=
  if String.eqb k "within" then mkCmeth (m_axes c) (m_method c) (Some v) (m_where c) (m_over c) (m_comment c) (m_intervals c)
  else if String.eqb k "where" then mkCmeth (m_axes c) (m_method c) (m_within c) (Some v) (m_over c) (m_comment c) (m_intervals c)
  else mkCmeth (m_axes c) (m_method c) (m_within c) (m_where c) (Some v) (m_comment c) (m_intervals c).

(* while cell_methods[0] in ("within","where","over"): attr = pop; cm[attr] = pop; if not cell_methods: break
   entered with a non-empty list *)
Fixpoint take_kws (fuel : nat) (l : list string) (c : cmeth) : res (list string * cmeth) :=
  match fuel with
  | O => ROut
  | S f =>
      x <- hd0 l ;;
      if is_climkw x then
        p <- pop0 l ;;
        q <- pop0 (snd p) ;;
        let c := set_kw (fst p) (fst q) c in
        match snd q with
        | [] => ROk ([], c)
        | rest => take_kws f rest c
        end
      else ROk (l, c)
  end.

(* comment words: up to a token ending with ")" or ":" *)
Fixpoint take_comment (l : list string) : list string * list string :=
  match l with
  | x :: r => if ends_with rpar x || ends_with colon x then ([], l)
              else let '(a, rest) := take_comment r in (x :: a, rest)
  | [] => ([], [])
  end.

Fixpoint join (l : list string) : string :=
  match l with
  | [] => ""
  | [x] => x
  | x :: r => (x ++ " " ++ join r)%string
  end.

Definition is_digit (c : ascii) : bool := let n := nat_of_ascii c in Nat.leb 48 n && Nat.leb n 57.
(* a plain decimal literal: digits with at most one inner point *)
Definition plain_number (s : string) : bool :=
  match s with
  | EmptyString => false
  | String c _ =>
      is_digit c && str_all (fun d => is_digit d || Ascii.eqb d (ascii_of_nat 46)) s &&
      match split_ws_aux (String.concat "" (map (fun ch => if Ascii.eqb ch (ascii_of_nat 46) then " " else String ch "") (list_ascii_of_string s))) "" with
      | [_] | [_; _] => match last_char s with Some e => is_digit e | None => false end
      | _ => false
      end
  end.

(* the loop  while not re.search(r"^\)$", cell_methods[0]):  over interval/comment entries *)
Fixpoint take_parens (fuel : nat) (l : list string) (c : cmeth) : res (list string * cmeth) :=
  match fuel with
  | O => ROut
  | S f =>
      x <- hd0 l ;;
      if String.eqb x ")" then ROk (l, c)
      else
        p <- pop0 l ;;
        let term := drop_last (fst p) in
        if String.eqb term "interval" then
          q <- pop0 (snd p) ;;
          y <- hd0 (snd q) ;;
          rest <- (if String.eqb y ")" then ROk (snd q) else r <- pop0 (snd q) ;; ROk (snd r)) ;;
          (* literal_eval / Data(...) on anything but a plain number: not modelled *)
          if plain_number (fst q) then
            take_parens f rest (mkCmeth (m_axes c) (m_method c) (m_within c) (m_where c) (m_over c)
                                        (m_comment c) (S (m_intervals c)))
          else ROut
        else if String.eqb term "comment" then
          let '(words, rest) := take_comment (snd p) in
          take_parens f rest (mkCmeth (m_axes c) (m_method c) (m_within c) (m_where c) (m_over c)
                                      (Some (join words)) (m_intervals c))
        else take_parens f (snd p) c
  end.

Definition interval_or_comment (s : string) : bool :=
  String.eqb s "interval:" || String.eqb s "comment:".

(* one iteration of the outer loop of _parse_cell_methods.
   Result: the remaining tokens, the cell method, and whether the interval
   count is inconsistent (reported; the whole attribute is then dropped) *)
Definition parse_one (fuel : nat) (l : list string) : res (list string * cmeth * bool) :=
  let '(axes, l) := take_axes l in
  let c := mkCmeth axes None None None None None 0 in
  match l with
  | [] => ROk ([], c, true)
  | meth :: l =>
      let c := mkCmeth axes (Some meth) None None None None 0 in
      match l with
      | [] => ROk ([], c, true)
      | _ =>
          k <- take_kws fuel l c ;;
          let '(l, c) := k in
          match l with
          | [] => ROk ([], c, true)
          | x :: r =>
              pr <- (if ends_with lpar x then
                       y <- hd0 r ;;
                       let r := if interval_or_comment y then r else "comment:" :: r in
                       t <- take_parens fuel r c ;;
                       let '(l2, c2) := t in
                       z <- hd0 l2 ;;
                       ROk (if ends_with rpar z then tl l2 else l2, c2)
                     else ROk (l, c)) ;;
              let '(l3, c3) := pr in
              let n := m_intervals c3 in
              ROk (l3, c3, negb (Nat.ltb 1 n && negb (Nat.eqb n (length axes))))
          end
      end
  end.

Fixpoint parse_cms (fuel : nat) (l : list string) : res (option (list cmeth)) :=
  match fuel with
  | O => ROut
  | S f =>
      match l with
      | [] => ROk (Some [])
      | _ =>
          p <- parse_one (S (length l)) l ;;
          let '(rest, c, ok) := p in
          if negb ok then ROk None
          else
            r <- parse_cms f rest ;;
            match r with Some cs => ROk (Some (c :: cs)) | None => ROk None end
      end
  end.

(* _parse_cell_methods as in the pinned code: IndexError escapes *)
Definition parse_cell_methods_old (field s : string) : res (list cmeth * list msg) :=
  let toks := cm_tokens s in
  r <- parse_cms (S (length toks)) toks ;;
  match r with
  | Some cs => ROk (cs, [])
  | None => ROk ([], [(field, WCmInterval, RFormat)])
  end.

(* repaired: a string that ends where a token is required is reported *)
Definition parse_cell_methods (field s : string) : res (list cmeth * list msg) :=
  match parse_cell_methods_old field s with
  | RErr IndexErr => ROk ([], [(field, WCmAttr, RFormat)])
  | r => r
  end.

(* ------------------------------------------------------------------ one field *)
Record fskel := mkF {
  f_ncvar : string;
  f_cons : list cons;
  f_crefs : list cref;
  f_methods : list cmeth;
  f_report : list msg;
  f_refs : list string }.

Definition opt_pass {A} (o : option string) (dflt : A) (f : string -> res A) : res A :=
  match o with Some s => f s | None => ROk dflt end.

(* a variable that is the value of several formula terms is inserted once, the first time
   (g["domain_ancillary_key"], per field; /repo 0a2c931) *)
Fixpoint dedup_anc (seen : list string) (l : list cons) : list cons :=
  match l with
  | [] => []
  | c :: r => if mem (c_ncvar c) seen then dedup_anc seen r else c :: dedup_anc (c_ncvar c :: seen) r
  end.

(* fix4-2: the problems of the list variables (found in the scan of the file, recorded for no
   particular parent) are included in the report of every variable that spans the dimension
   of the list variable *)
Definition compress_msgs (ds : ads) (v : var) : list msg :=
  flat_map (fun l => match compress_of l with
                     | Some c =>
                         if fst (check_compress (a_dims ds) (split_ws c)) then []
                         else if mem (v_name l) (v_dims v) then
                           match split_ws c with
                           | [] => [(v_name l, WCompressAttr, RFormat)]
                           | _ => [(v_name l, WCompress, RMissing)]
                           end
                         else []
                     | None => []
                     end) (a_vars ds).

(* the passes of _create_field_or_domain that follow the coordinates: they see the
   coordinate constructs, not the messages so far.
   Result: constructs, coordinate references, cell methods, messages, referenced variables *)
Definition field_rest (strict : bool) (ds : ads) (v : var) (fdims : list string) (coords : list cons)
  : res (list cons * list cref * list cmeth * list msg * list string) :=
  let field := v_name v in
  fp <- ft_pass strict ds field fdims coords ;;
  let '(ancs0, ftrefs, ftms) := fp in
  let ancs := if strict then ancs0 else dedup_anc [] ancs0 in
  let keys := map c_ncvar (coords ++ ancs) in
  let vertical := flat_map (fun r => match r_coords r with Some l => l | None => [] end) ftrefs in
  let '(gmrefs, gmvars, gmms) :=
    match attr v "grid_mapping" with
    | None => ([], [], [])
    | Some s =>
        let parsed := parse_x s in
        let '(ok, ms) := check_grid_mapping ds field parsed in
        if ok then let '(crs, rf, ms2) := gm_pass (negb strict) field parsed keys vertical in (crs, rf, ms ++ ms2)
        else ([], [], ms)
    end in
  mp <- opt_pass (attr v "cell_measures") ([], [])
          (if strict then measure_pass_head ds field else measure_pass ds field) ;;
  cp <- opt_pass (attr v "cell_methods") ([], [])
          (fun s => if strict then parse_cell_methods_old field s else parse_cell_methods field s) ;;
  np <- opt_pass (attr v "ancillary_variables") ([], [])
          (if strict then anc_pass_head ds field else anc_pass ds field) ;;
  ROk (coords ++ ancs ++ fst mp ++ fst np, ftrefs ++ gmrefs, fst cp,
       ftms ++ gmms ++ snd mp ++ snd cp ++ snd np ++ (if strict then [] else compress_msgs ds v),
       flat_map cons_refs (coords ++ ancs) ++ gmvars ++
       filter (fun n => negb (String.eqb n field)) (map c_ncvar (fst mp)) ++
       map c_ncvar (fst np)).

(* _create_field_or_domain for a data variable.  None: the variable is a domain
   variable (it has a "dimensions" attribute) and gives no field.
   ds is the dataset as the lookups see it (norm of the file). *)
Definition field_skel (strict : bool) (ds : ads) (v : var) : res (option fskel) :=
  match attr v "dimensions" with
  | Some _ => ROk None
  | None =>
      let field := v_name v in
      fdims <- ncdims ds field ;;
      dp <- dim_pass ds fdims ;;
      ap <- opt_pass (attr v "coordinates") ([], []) (fun s => aux_pass ds fdims (split_ws s)) ;;
      r <- field_rest strict ds v fdims (fst dp ++ fst ap) ;;
      let '(cons, crefs, meths, ms, refs) := r in
      ROk (Some (mkF field cons crefs meths (snd dp ++ snd ap ++ ms) refs))
  end.

(* ------------------------------------------------------------------ read *)
Fixpoint all_fields (strict : bool) (ds : ads) (vs : list var) : res (list fskel) :=
  match vs with
  | [] => ROk []
  | v :: r =>
      match compress_of v with
      | Some _ => all_fields strict ds r     (* a list variable: g["do_not_create_field"] *)
      | None =>
          o <- field_skel strict ds v ;;
          rest <- all_fields strict ds r ;;
          ROk (match o with Some f => f :: rest | None => rest end)
      end
  end.

(* who refers to n *)
Definition referencers (fs : list fskel) (n : string) : list string :=
  map f_ncvar (filter (fun f => mem n (f_refs f)) fs).

(* Python string order on ASCII *)
Fixpoint str_ltb (a b : string) : bool :=
  match a, b with
  | EmptyString, EmptyString => false
  | EmptyString, _ => true
  | _, EmptyString => false
  | String c r, String d s =>
      let m := nat_of_ascii c in let n := nat_of_ascii d in
      if Nat.ltb m n then true else if Nat.ltb n m then false else str_ltb r s
  end.

Fixpoint insert_sorted (x : string) (l : list string) : list string :=
  match l with
  | [] => [x]
  | y :: r => if str_ltb y x then y :: insert_sorted x r else x :: l
  end.
Definition sort_strings (l : list string) : list string := fold_right insert_sorted [] l.

Definition remove_str (x : string) (l : list string) : list string :=
  filter (fun y => negb (String.eqb x y)) l.

(* for ncvar in referenced_variables[:]: if all(referencer in referenced_variables ...): reinstate *)
Fixpoint reinstate (fs : list fskel) (todo : list string) (referenced : list string) : list string :=
  match todo with
  | [] => referenced
  | n :: r =>
      if forallb (fun q => mem q referenced) (referencers fs n)
      then reinstate fs r (remove_str n referenced)
      else reinstate fs r referenced
  end.

(* the fields that read returns (as a set: read sorts them by variable name) *)
Definition select_fields (fs : list fskel) : list fskel :=
  let names := map f_ncvar fs in
  let referenced := sort_strings (filter (fun n => negb (Nat.eqb (length (referencers fs n)) 0)) names) in
  let still := reinstate fs referenced referenced in
  filter (fun f => negb (mem (f_ncvar f) still)) fs.

Definition read_skel_gen (strict : bool) (ds : ads) : res (list fskel) :=
  fs <- all_fields strict (norm ds) (a_vars ds) ;; ROk (select_fields fs).

Definition read_skel := read_skel_gen false.
Definition read_skel_old := read_skel_gen true.

(* ------------------------------------------------------------------ open / close protocol *)
(* What happens between file_open and the end of cfdm.read, as far as datasets
   are concerned: further datasets (external files) are opened, and the body
   either runs to its end or raises somewhere. *)
Inductive step := SOpen (id : nat) | SWork.
Inductive ending := Returns | Raises.
Inductive event := EvOpen (id : nat) | EvClose (id : nat).

(* state: the list g["datasets"]; trace: the events so far (reversed) *)
Definition run_steps (steps : list step) (st : list nat * list event) : list nat * list event :=
  fold_left (fun s x => match x with
                        | SOpen i => (fst s ++ [i], EvOpen i :: snd s)
                        | SWork => s
                        end) steps st.

(* file_close (repaired): closes what g["datasets"] holds and empties it *)
Definition file_close (st : list nat * list event) : list nat * list event :=
  ([], rev (map EvClose (fst st)) ++ snd st).

(* file_close (pinned): closes every dataset in the list and keeps the list *)
Definition file_close_old (st : list nat * list event) : list nat * list event :=
  (fst st, rev (map EvClose (fst st)) ++ snd st).

(* cfdm.read (repaired): g["datasets"] = [nc] straight after the open; the body calls
   file_close when it reaches its end; cfdm.read calls it again in a finally clause *)
Definition read_trace (steps : list step) (e : ending) : list event :=
  let st := run_steps steps ([0%nat], [EvOpen 0%nat]) in
  let st := match e with Returns => file_close st | Raises => st end in
  rev (snd (file_close st)).

(* pinned: file_close only at the end of the body *)
Definition read_trace_old (steps : list step) (e : ending) : list event :=
  let st := run_steps steps ([0%nat], [EvOpen 0%nat]) in
  let st := match e with Returns => file_close_old st | Raises => st end in
  rev (snd st).

Definition count_ev (p : event -> bool) (t : list event) : nat := length (filter p t).
Definition is_open (i : nat) (e : event) : bool := match e with EvOpen j => Nat.eqb i j | _ => false end.
Definition is_close (i : nat) (e : event) : bool := match e with EvClose j => Nat.eqb i j | _ => false end.

(* ------------------------------------------------------------------ open / close with external files *)
(* cfdm.read(parent, external=[...]): _get_variables_from_external_files scans every external
   file with a nested self.read(..., _scan_only=True).  The nested read REPLACES self.read_vars
   (and with it the list g["datasets"] that file_close uses) until the caller puts the parent's
   read_vars back.  A scan either succeeds (the dataset is then appended to the parent's list,
   whether or not the file holds any of the wanted variables), or raises before it has opened
   the file (it does not exist), or raises after it has opened it. *)
Inductive scan := ScanOk (useful : bool) | ScanFailBefore | ScanFailAfter.
Inductive xstep := XOpen (id : nat) | XWork | XScan (id : nat) (s : scan).
Inductive variant :=
| VFixed        (* with fix3-2 *)
| VHead         (* before fix3-2: a failed scan leaves the nested read_vars in place *)
| VSeedA.       (* a seeded change: `continue` before datasets.append(nc) for a file without wanted variables *)

(* state: g["datasets"] of self.read_vars as file_close will see it; the events so far (reversed);
   the datasets of the parent's read_vars when they have been displaced by a failed scan *)
Record xstate := mkX { x_cur : list nat; x_ev : list event }.

Definition close_all (st : xstate) : xstate :=
  mkX [] (rev (map EvClose (x_cur st)) ++ x_ev st).

(* the body of the read up to its end or to the first step that raises *)
Fixpoint xrun (v : variant) (steps : list xstep) (st : xstate) : xstate * bool :=
  match steps with
  | [] => (st, false)
  | XOpen i :: r => xrun v r (mkX (x_cur st ++ [i]) (EvOpen i :: x_ev st))
  | XWork :: r => xrun v r st
  | XScan i (ScanOk useful) :: r =>
      match v, useful with
      | VSeedA, false => xrun v r (mkX (x_cur st) (EvOpen i :: x_ev st))
      | _, _ => xrun v r (mkX (x_cur st ++ [i]) (EvOpen i :: x_ev st))
      end
  | XScan i ScanFailBefore :: _ =>
      match v with
      | VHead => (mkX [] (x_ev st), true)            (* self.read_vars is the nested one: no dataset *)
      | _ => (st, true)                              (* except: file_close() of nothing; finally: reset *)
      end
  | XScan i ScanFailAfter :: _ =>
      match v with
      | VHead => (mkX [i] (EvOpen i :: x_ev st), true)   (* the nested read_vars, holding i *)
      | _ => (mkX (x_cur st) (EvClose i :: EvOpen i :: x_ev st), true)  (* except: file_close() closes i *)
      end
  end.

(* cfdm.read: the parent is opened and registered; the body runs; at its end it calls
   file_close; cfdm.read calls file_close again in its finally clause *)
Definition xread_trace (v : variant) (steps : list xstep) (e : ending) : list event :=
  let '(st, raised) := xrun v steps (mkX [0%nat] [EvOpen 0%nat]) in
  let st := match raised, e with false, Returns => close_all st | _, _ => st end in
  rev (x_ev (close_all st)).

(* ------------------------------------------------------------------ references in a grouped dataset *)
(* The flattener renames every variable and rewrites the reference attributes; the reader
   maps the names back through g["flattener_variables"].  A reference that could not be
   resolved is left as a name that is not in that mapping. *)
Definition resolve_head (m : list (string * string)) (toks : list string) : res (list string) :=
  mapM (fun t => match assoc t m with Some x => ROk x | None => RErr KeyErr end) toks.   (* mapping[ncvar] *)

Definition resolve (m : list (string * string)) (toks : list string) : list string :=
  map (fun t => match assoc t m with Some x => x | None => t end) toks.                   (* mapping.get(ncvar, ncvar) *)

(* ------------------------------------------------------------------ the report bookkeeping *)
(* _add_message(parent, ncvar, variable=, component=) stores a message in the report of
   `parent` and - when it is a property of the component itself - under the component it belongs
   to; _copy_construct(parent, ncvar) adds the stored messages of component ncvar to `parent`.
   A message: (the parent it was emitted for, an identifier, is it a property of the component). *)
Definition bmsg : Type := string * nat * bool.
Inductive bk := Emit (parent component : string) (m : nat) (of_component : bool) | Copy (parent component : string).

(* always_store = the rule before fix3-7: every message is stored under its component *)
Fixpoint bk_run (always_store : bool) (evs : list bk) (reports comp : list (string * bmsg))
  : list (string * bmsg) :=
  match evs with
  | [] => reports
  | Emit p c m oc :: r =>
      let x := (p, m, oc) in
      bk_run always_store r (reports ++ [(p, x)]) (if always_store || oc then comp ++ [(c, x)] else comp)
  | Copy p c :: r =>
      bk_run always_store r
        (reports ++ map (fun cx => (p, snd cx)) (filter (fun cx => String.eqb (fst cx) c) comp)) comp
  end.

(* ------------------------------------------------------------------ the cache of auxiliary coordinates *)
(* requests (geometry container of the parent, variable); delivered: (variable, geometry the
   construct was created with).  by_geometry = fix3-8: a cached construct is reused only for a
   parent with the same geometry container *)
Fixpoint aux_cache_run (by_geometry : bool) (reqs : list (option string * string))
                       (cache : list (string * option string)) : list (string * option string) :=
  match reqs with
  | [] => []
  | (geo, n) :: r =>
      match assoc n cache with
      | Some g0 =>
          if negb by_geometry || option_eqb String.eqb g0 geo
          then (n, g0) :: aux_cache_run by_geometry r cache
          else (n, geo) :: aux_cache_run by_geometry r ((n, geo) :: cache)
      | None => (n, geo) :: aux_cache_run by_geometry r ((n, geo) :: cache)
      end
  end.
