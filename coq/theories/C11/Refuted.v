(* C11 - the code as it stood at the pinned commit does NOT satisfy the theorems of Props.v.
   Witnesses (each replayed against the implementation before the "fix:" commits). *)
From CfdmV Require Import Common.Base Tables.FlattenRules C11.Model C11.Run.
Open Scope nat_scope.

Definition t1 : group :=
  G [] [s "x"] [(s "x", 1)] [G (s "g") [] [(s "q0", 0)] []; G (s "h") [] [(s "y", 0)] []].

(* F11a: a relative path whose last component is missing raised KeyError instead of being
   unresolved ... *)
Theorem C11_old_relative_missing_raises_refuted :
  exists root ref rp, search_rel_old root ref rp false = SErr /\ search_rel root ref rp false = SNone.
Proof. exists t1, (s "../nothere"), [s "g"]. split; reflexivity. Qed.

(* ... and the second attempt of a two-kind rule (cell_methods) called self.groupp *)
Theorem C11_old_cell_methods_relative_raises_refuted :
  exists root a,
    model_attr false root "cell_methods" false [s "g"] None a = None /\
    model_attr true root "cell_methods" false [s "g"] None a <> None.
Proof. exists t1, [(s "../../x", Some [s "mean"])]. split; [reflexivity|vm_compute; discriminate]. Qed.

(* lateral search was depth first *)
Theorem C11_old_lateral_depth_first_refuted :
  exists root rp,
    prox_old root false (s "x") rp false true = Some [s "g"; s "k"] /\
    prox root false (s "x") rp false true = Some [s "h"].
Proof.
  exists (G [] [s "x"] [] [G (s "g") [] [] [G (s "k") [] [(s "x", 1)] []];
                           G (s "h") [] [(s "x", 1)] []; G (s "m") [] [(s "q", 1)] []]), [s "m"].
  split; reflexivity.
Qed.

(* F11c: dimension /g/x, coordinate variable /g/h/x, data variable /g/h/ta: not found *)
Theorem C11_old_coordinate_in_subgroup_refuted :
  exists vars field dim,
    find_coord_old hash0 true vars field dim = None /\
    find_coord hash0 true vars field dim = Some ([s "g"; s "h"], s "x").
Proof.
  exists [mkVar [s "g"; s "h"] (s "x") [([s "g"], s "x")]; mkVar [s "g"; s "h"] (s "ta") [([s "g"], s "x")]],
         ([s "g"; s "h"], s "ta"), ([s "g"], s "x").
  split; reflexivity.
Qed.

(* F11d: dimension /x, coordinate variables /x and /g/x, data variable /g/h/ta: the one beside
   the dimension was taken although /g/x is nearer *)
Theorem C11_old_coordinate_not_nearest_refuted :
  exists vars field dim,
    find_coord_old hash0 true vars field dim = Some ([], s "x") /\
    find_coord hash0 true vars field dim = Some ([s "g"], s "x").
Proof.
  exists [mkVar [] (s "x") [([], s "x")]; mkVar [s "g"] (s "x") [([], s "x")];
          mkVar [s "g"; s "h"] (s "ta") [([], s "x")]],
         ([s "g"; s "h"], s "ta"), ([], s "x").
  split; reflexivity.
Qed.

(* before C11-fix2-1 the reader stripped the group prefix from the flattened name: the basename
   was wrong for a name that carries a counter (or is hashed) *)
Theorem C11_old_unflatten_counter_refuted :
  unflatten_var_old (s "a__b_1") (s "/a/b") = ([s "a"], s "/a/b", s "b_1") /\
  unflatten_var (s "a__b_1") (s "/a/b") = ([s "a"], s "/a/b", s "b").
Proof. split; reflexivity. Qed.

(* before C11-fix2-2 the writer's only check (dims_visible) accepted a variable one of whose
   dimensions is hidden by a same-named dimension in a group between (F11f) *)
Theorem C11_old_hidden_dimension_accepted_refuted :
  exists root,
  dims_visible true (s "/a/b/ta") [s "x"; s "/a/x"] = true /\
  nc_lookup_dim root [s "b"; s "a"] (s "x") = Some [s "a"] /\
  writer_accepts root true (s "/a/b/ta") [s "x"; s "/a/x"] = false.
Proof. exists (G [] [s "x"] [] [G (s "a") [s "x"] [] [G (s "b") [] [] []]]). repeat split; reflexivity. Qed.

(* before 8d03027 the parsed attribute was a dict keyed by name: "x: y: maximum y: x: mean" came
   out as "x: mean y:" (a cell method lost), and two spellings of one target as one word *)
Theorem C11_old_attribute_dict_refuted :
  exists rl,
  lookup_rules "cell_methods" flattening_rules_table = Some rl /\
  let a := [(s "x", Some []); (s "y", Some [s "maximum"]); (s "y", Some []); (s "x", Some [s "mean"])] in
  let root := G [] [s "x"; s "y"] [(s "x", 1); (s "y", 1)] [G (s "m") [] [(s "q1", 0)] []] in
  flatten_attr_dict hash0 root rl false [s "m"] None a = Some (s "x: mean y:") /\
  flatten_attr hash0 root rl false [s "m"] None a = Some (s "x: y: maximum y: x: mean").
Proof. eexists. split; [vm_compute; reflexivity|]. split; vm_compute; reflexivity. Qed.

(* seeded change s5: lateral candidates ordered by the length of the path STRING instead of the
   depth of the group.  /observations/x (depth 1) and /a/b/x (depth 2), data variable /m/ta: the
   code finds /observations/x; with the string order the deeper /a/b/x comes first, the "unique
   nearest" test compares depths 2 and 1 and fails *)
Definition first_by (key : rvar -> nat) : option rvar -> list rvar -> option rvar :=
  fix go (best : option rvar) (l : list rvar) : option rvar :=
    match l with
    | [] => best
    | v :: r => match best with
                | None => go (Some v) r
                | Some b => if key v <? key b then go (Some v) r else go best r
                end
    end.
Definition path_len (v : rvar) : nat := length (pathname (v_groups v) (v_name v)).

Theorem C11_lateral_string_order_refuted :
  let vars := [mkVar [s "observations"] (s "x") [([], s "x")]; mkVar [s "a"; s "b"] (s "x") [([], s "x")];
               mkVar [s "m"] (s "ta") [([], s "x")]] in
  let lateral := [mkVar [s "observations"] (s "x") [([], s "x")]; mkVar [s "a"; s "b"] (s "x") [([], s "x")]] in
  find_coord hash0 true vars ([s "m"], s "ta") ([], s "x") = Some ([s "observations"], s "x") /\
  first_by (fun v => length (v_groups v)) None lateral = first_shortest None lateral /\
  option_map v_groups (first_by (fun v => length (v_groups v)) None lateral) = Some [s "observations"] /\
  option_map v_groups (first_by path_len None lateral) = Some [s "a"; s "b"].
Proof. repeat split; reflexivity. Qed.

(* the flattener's get_dims for h5netcdf before C11-fix3-1: a dimension spanned twice *)
Theorem C11_old_h5_repeated_dimension_refuted :
  exists root,
  h5_get_dims_old root [s "h"; s "g"] [s "x"; s "x"] = [Some []; Some []] /\
  map (nc_lookup_dim root [s "h"; s "g"]) [s "x"; s "x"] = [Some [s "g"]; Some [s "g"]].
Proof. exists (G [] [s "x"] [] [G (s "g") [s "x"] [] [G (s "h") [] [] []]]). split; reflexivity. Qed.
