(* C11 - proofs about the model of Model.v. *)
From CfdmV Require Import Common.Base Tables.FlattenRules C11.Model.
Open Scope nat_scope.

Ltac splits := repeat match goal with |- _ /\ _ => split end.
Definition dot : ascii := "."%char.
Lemma slash_neq_dot : slash <> dot.
Proof. unfold slash, dot. discriminate. Qed.
Local Opaque slash.

(* ------------------------------------------------------------------ characters and strings *)
Lemma str_eqb_eq : forall a b, str_eqb a b = true <-> a = b.
Proof. apply list_eqb_eq. intros; apply Ascii.eqb_eq. Qed.

Lemma str_eqb_refl : forall a, str_eqb a a = true.
Proof. intro; apply str_eqb_eq; reflexivity. Qed.

Lemma str_eqb_neq : forall a b, str_eqb a b = false <-> a <> b.
Proof.
  intros; split; intro H.
  - intro E. apply str_eqb_eq in E. congruence.
  - destruct (str_eqb a b) eqn:E; [apply str_eqb_eq in E; contradiction | reflexivity].
Qed.

Lemma mem_chr_false : forall c x, mem_chr c x = false <-> ~ In c x.
Proof.
  induction x as [|a r IH]; simpl.
  - split; [intros _ []| reflexivity].
  - rewrite orb_false_iff, IH. split.
    + intros [E N] [H|H]; [subst; rewrite Ascii.eqb_refl in E; discriminate | contradiction].
    + intro N. split; [apply Ascii.eqb_neq; intro; subst; apply N; left; reflexivity
                      | intro; apply N; right; assumption].
Qed.

Lemma mem_chr_true : forall c x, mem_chr c x = true <-> In c x.
Proof.
  intros. destruct (mem_chr c x) eqn:E.
  - split; [intros _|reflexivity]. destruct (in_dec ascii_dec c x) as [I|N]; [assumption|].
    apply mem_chr_false in N. congruence.
  - apply mem_chr_false in E. split; [discriminate|contradiction].
Qed.

Lemma mem_chr_app : forall c x y, mem_chr c (x ++ y) = mem_chr c x || mem_chr c y.
Proof. induction x; simpl; intros; [reflexivity|rewrite IHx, orb_assoc; reflexivity]. Qed.

Lemma starts_with_app : forall p r, starts_with p (p ++ r) = true.
Proof. induction p; simpl; intros; [reflexivity|rewrite Ascii.eqb_refl; apply IHp]. Qed.

Lemma starts_with_iff : forall p x, starts_with p x = true <-> exists r, x = p ++ r.
Proof.
  induction p as [|a p IH]; simpl; intros.
  - split; [intros _; exists x; reflexivity|reflexivity].
  - destruct x as [|b x].
    + split; [discriminate|intros [r E]; discriminate].
    + rewrite andb_true_iff, Ascii.eqb_eq, IH. split.
      * intros [-> [r ->]]. exists r; reflexivity.
      * intros [r E]. inversion E; subst. split; [reflexivity|exists r; reflexivity].
Qed.

(* ---- split / join on one character ---- *)
Lemma split_on_nil_ne : forall c x, split_on c x <> [].
Proof.
  induction x as [|a r IH]; simpl; [discriminate|].
  destruct (Ascii.eqb a c); [discriminate|]. destruct (split_on c r); discriminate.
Qed.

Lemma split_on_free : forall c x, mem_chr c x = false -> split_on c x = [x].
Proof.
  induction x as [|a r IH]; simpl; intros H; [reflexivity|].
  apply orb_false_iff in H as [H1 H2]. rewrite Ascii.eqb_sym, H1, (IH H2). reflexivity.
Qed.

Lemma split_on_app : forall c x r, mem_chr c x = false ->
  split_on c (x ++ c :: r) = x :: split_on c r.
Proof.
  induction x as [|a x IH]; simpl; intros r H.
  - try rewrite Ascii.eqb_refl. reflexivity.
  - apply orb_false_iff in H as [H1 H2]. rewrite Ascii.eqb_sym, H1, (IH r H2). reflexivity.
Qed.

Definition free (c : ascii) (l : list str) : Prop := Forall (fun x => mem_chr c x = false) l.

Lemma join_cons2 : forall sep x y r, join sep (x :: y :: r) = x ++ sep ++ join sep (y :: r).
Proof. reflexivity. Qed.

(* str.split inverts str.join when no component contains the separator *)
Lemma split_on_join : forall c l, l <> [] -> free c l -> split_on c (join [c] l) = l.
Proof.
  induction l as [|x r IH]; intros NE F; [contradiction|].
  inversion F as [|? ? Hx Hr]; subst. destruct r as [|y r].
  - simpl. apply split_on_free; assumption.
  - rewrite join_cons2. change ([c] ++ join [c] (y :: r)) with (c :: join [c] (y :: r)).
    rewrite split_on_app by assumption.
    rewrite IH; [reflexivity|discriminate|assumption].
Qed.

Lemma join_inj_chr : forall c l1 l2, l1 <> [] -> l2 <> [] -> free c l1 -> free c l2 ->
  join [c] l1 = join [c] l2 -> l1 = l2.
Proof.
  intros c l1 l2 N1 N2 F1 F2 E.
  rewrite <- (split_on_join c l1 N1 F1), <- (split_on_join c l2 N2 F2), E. reflexivity.
Qed.

Lemma free_app : forall c a b, free c a -> free c b -> free c (a ++ b).
Proof. intros; apply Forall_app; split; assumption. Qed.

Lemma last_app_single {A} : forall (l : list A) x d, last (l ++ [x]) d = x.
Proof. induction l as [|a l IH]; intros; simpl; [reflexivity|]. destruct (l ++ [x]) eqn:E.
  - destruct l; discriminate.
  - rewrite <- E. apply IH. Qed.

Lemma removelast_app_single {A} : forall (l : list A) x, removelast (l ++ [x]) = l.
Proof. intros. rewrite removelast_app by discriminate. simpl. apply app_nil_r. Qed.

(* ------------------------------------------------------------------ names and groups on constructs *)
(* "/" + "/".join(groups + [name]) *)
Definition abs_name (groups : list str) (n : str) : str := join [slash] ([] :: groups ++ [n]).

Lemma abs_name_cons : forall g groups n, abs_name (g :: groups) n = slash :: join [slash] (g :: groups ++ [n]).
Proof. intros. unfold abs_name. simpl. destruct (groups ++ [n]) eqn:E; [destruct groups; discriminate|reflexivity]. Qed.

Lemma split_abs_name : forall groups n, free slash groups -> mem_chr slash n = false ->
  split_on slash (abs_name groups n) = [] :: groups ++ [n].
Proof.
  intros. unfold abs_name. apply split_on_join; [discriminate|].
  constructor; [reflexivity|]. apply free_app; [assumption|constructor; [assumption|constructor]].
Qed.

Lemma mid_cons_snoc {A} : forall (a : A) l x, mid (a :: l ++ [x]) = l.
Proof. intros. unfold mid. simpl. apply removelast_app_single. Qed.

Lemma count_chr_app : forall c x y, count_chr c (x ++ y) = count_chr c x + count_chr c y.
Proof. induction x; simpl; intros; [reflexivity|rewrite IHx; lia]. Qed.

Lemma count_chr_free : forall c x, mem_chr c x = false -> count_chr c x = 0.
Proof.
  induction x as [|a r IH]; simpl; intros H; [reflexivity|].
  apply orb_false_iff in H as [H1 H2]. rewrite Ascii.eqb_sym, H1, (IH H2). reflexivity.
Qed.

Lemma ends_with_chr_app : forall c x y, y <> [] -> ends_with_chr c (x ++ y) = ends_with_chr c y.
Proof.
  intros. unfold ends_with_chr. rewrite rev_app_distr.
  destruct (rev y) eqn:E; [|reflexivity].
  apply (f_equal (@rev _)) in E. rewrite rev_involutive in E. simpl in E. contradiction.
Qed.

Lemma ends_with_chr_free : forall c x, mem_chr c x = false -> ends_with_chr c x = false.
Proof.
  intros c x H. unfold ends_with_chr. destruct (rev x) eqn:E; [reflexivity|].
  apply Ascii.eqb_neq. intro; subst. apply mem_chr_false in H. apply H.
  apply in_rev. rewrite E. left; reflexivity.
Qed.

Lemma join_snoc_shape : forall (n : str) l, l <> [] ->
  exists pre, join [slash] (l ++ [n]) = pre ++ slash :: n.
Proof.
  induction l as [|a l IH]; intros NE; [contradiction|]. destruct l as [|b l].
  - exists a. reflexivity.
  - destruct (IH ltac:(discriminate)) as [pre E].
    exists (a ++ slash :: pre). change ((a :: b :: l) ++ [n]) with (a :: b :: (l ++ [n])).
    rewrite join_cons2. change (b :: l ++ [n]) with ((b :: l) ++ [n]). rewrite E.
    rewrite <- app_assoc. reflexivity.
Qed.

Lemma abs_name_shape : forall g groups n, exists pre, abs_name (g :: groups) n = slash :: pre ++ slash :: n.
Proof.
  intros. rewrite abs_name_cons.
  destruct (join_snoc_shape n (g :: groups) ltac:(discriminate)) as [pre E].
  exists pre. change (g :: groups ++ [n]) with ((g :: groups) ++ [n]). rewrite E. reflexivity.
Qed.

(* nc_set accepts "/g1/../gk/n" and stores it unchanged *)
Lemma nc_set_abs : forall g groups n, mem_chr slash n = false -> n <> [] ->
  nc_set (abs_name (g :: groups) n) = Some (abs_name (g :: groups) n).
Proof.
  intros g groups n Hn NE. destruct (abs_name_shape g groups n) as [pre E]. rewrite E.
  unfold nc_set.
  assert (E1 : str_eqb (slash :: pre ++ slash :: n) [slash] = false).
  { apply str_eqb_neq. intro X. inversion X as [Y]. destruct pre; discriminate. }
  rewrite E1. simpl mem_chr. try rewrite Ascii.eqb_refl. simpl orb. simpl starts_with. try rewrite Ascii.eqb_refl.
  simpl negb. cbv iota.
  assert (E2 : Nat.eqb (count_chr slash (slash :: pre ++ slash :: n)) 1 = false).
  { apply Nat.eqb_neq. simpl count_chr. try rewrite Ascii.eqb_refl. rewrite count_chr_app. simpl count_chr.
    try rewrite Ascii.eqb_refl. lia. }
  rewrite E2.
  assert (E3 : ends_with_chr slash (slash :: pre ++ slash :: n) = false).
  { change (slash :: pre ++ slash :: n) with ((slash :: pre) ++ [slash] ++ n).
    rewrite app_assoc. rewrite ends_with_chr_app by assumption. apply ends_with_chr_free; assumption. }
  rewrite E3. reflexivity.
Qed.

Lemma nc_set_plain : forall n, mem_chr slash n = false -> n <> [] -> nc_set n = Some n.
Proof.
  intros n H NE. unfold nc_set. destruct n; [contradiction|].
  replace (str_eqb (a :: n) [slash]) with false.
  - rewrite H. reflexivity.
  - symmetry. apply str_eqb_neq. intro E. inversion E; subst. simpl in H. try rewrite Ascii.eqb_refl in H. discriminate.
Qed.

(* Setting the groups of a named construct records exactly those groups, keeps the
   basename, and the writer places the element in exactly that group. *)
Lemma groups_roundtrip : forall groups old n,
  free slash groups -> free slash old -> mem_chr slash n = false -> n <> [] ->
  let name0 := match old with [] => n | _ => abs_name old n end in
  exists name', nc_set_groups groups name0 = Some name' /\
    nc_groups name' = groups /\
    remove_group_structure name' = n /\
    parent_group_path true name' = Some groups /\
    name' = match groups with [] => n | _ => abs_name groups n end.
Proof.
  intros groups old n Fg Fo Hn NE name0.
  assert (L : last (split_on slash name0) [] = n).
  { unfold name0. destruct old as [|o old'].
    - rewrite split_on_free by assumption. reflexivity.
    - rewrite split_abs_name by assumption. change ([] :: (o :: old') ++ [n]) with (([] :: o :: old') ++ [n]).
      apply last_app_single. }
  unfold nc_set_groups. rewrite L. destruct n as [|c n]; [contradiction|].
  destruct groups as [|g groups].
  - exists (c :: n). rewrite nc_set_plain by (assumption || discriminate).
    splits; try reflexivity.
    + unfold nc_groups. rewrite split_on_free by assumption. reflexivity.
    + unfold remove_group_structure. rewrite split_on_free by assumption. reflexivity.
    + unfold parent_group_path. rewrite Hn. reflexivity.
  - exists (abs_name (g :: groups) (c :: n)).
    assert (X : existsb (mem_chr slash) (g :: groups) = false).
    { apply not_true_is_false. intro X. apply existsb_exists in X as [x [I M]].
      unfold free in Fg. rewrite Forall_forall in Fg. rewrite (Fg x I) in M. discriminate. }
    rewrite X. change (join [slash] ([[]] ++ (g :: groups) ++ [c :: n])) with (abs_name (g :: groups) (c :: n)).
    rewrite nc_set_abs by (assumption || discriminate).
    splits; try reflexivity.
    + unfold nc_groups. rewrite split_abs_name by assumption. apply mid_cons_snoc.
    + unfold remove_group_structure. rewrite split_abs_name by assumption.
      change ([] :: (g :: groups) ++ [c :: n]) with (([] :: g :: groups) ++ [c :: n]). apply last_app_single.
    + unfold parent_group_path.
      destruct (abs_name_shape g groups (c :: n)) as [pre E].
      assert (M : mem_chr slash (abs_name (g :: groups) (c :: n)) = true) by (rewrite E; reflexivity).
      assert (S : starts_with [slash] (abs_name (g :: groups) (c :: n)) = true) by (rewrite E; reflexivity).
      rewrite M, S. simpl negb. simpl orb. cbv iota.
      rewrite split_abs_name by assumption. rewrite mid_cons_snoc. reflexivity.
Qed.

(* ------------------------------------------------------------------ writer: visibility *)
Fixpoint prefixb (a b : list str) : bool :=
  match a, b with
  | [], _ => true
  | x :: a', y :: b' => str_eqb x y && prefixb a' b'
  | _ :: _, [] => false
  end.

Lemma prefixb_iff : forall a b, prefixb a b = true <-> exists r, b = a ++ r.
Proof.
  induction a as [|x a IH]; simpl; intros.
  - split; [intros _; exists b; reflexivity|reflexivity].
  - destruct b as [|y b].
    + split; [discriminate|intros [r E]; discriminate].
    + rewrite andb_true_iff, str_eqb_eq, IH. split.
      * intros [-> [r ->]]. exists r; reflexivity.
      * intros [r E]. inversion E; subst. split; [reflexivity|exists r; reflexivity].
Qed.

(* the string the writer's _groups returns for the name it builds from a group list *)
Definition name_of (groups : list str) (n : str) : str :=
  match groups with [] => n | _ => abs_name groups n end.

Fixpoint gstr (groups : list str) : str :=
  match groups with [] => [] | g :: r => slash :: g ++ gstr r end.

Lemma join_gstr : forall groups g, join [slash] (g :: groups) = g ++ gstr groups.
Proof.
  induction groups as [|h r IH]; intros g.
  - simpl. rewrite app_nil_r. reflexivity.
  - rewrite join_cons2, IH. reflexivity.
Qed.

Lemma join_slash_gstr : forall g groups, join [slash] ([] :: g :: groups) = gstr (g :: groups).
Proof. intros. rewrite join_cons2, join_gstr. reflexivity. Qed.

Lemma groups_str_name_of : forall groups n, free slash groups -> mem_chr slash n = false ->
  groups_str (name_of groups n) = match groups with [] => [] | _ => gstr groups ++ [slash] end.
Proof.
  intros groups n F Hn. unfold groups_str, name_of. destruct groups as [|g groups].
  - rewrite split_on_free by assumption. reflexivity.
  - rewrite split_abs_name by assumption.
    change ([] :: (g :: groups) ++ [n]) with (([] :: g :: groups) ++ [n]).
    rewrite removelast_app_single, join_slash_gstr. reflexivity.
Qed.

Lemma starts_with_cancel : forall p x y, starts_with (p ++ x) (p ++ y) = starts_with x y.
Proof. induction p; simpl; intros; [reflexivity|rewrite Ascii.eqb_refl; apply IHp]. Qed.

Lemma starts_with_comp : forall a b x y, mem_chr slash a = false -> mem_chr slash b = false ->
  starts_with (a ++ slash :: x) (b ++ slash :: y) = str_eqb a b && starts_with x y.
Proof.
  induction a as [|c a IH]; intros b x y Ha Hb.
  - destruct b as [|d b]; simpl.
    + try rewrite Ascii.eqb_refl. reflexivity.
    + simpl in Hb. apply orb_false_iff in Hb as [Hd _]. rewrite Hd. reflexivity.
  - simpl in Ha. apply orb_false_iff in Ha as [Hc Ha]. destruct b as [|d b]; simpl.
    + rewrite Ascii.eqb_sym, Hc. reflexivity.
    + simpl in Hb. apply orb_false_iff in Hb as [_ Hb]. rewrite (IH b x y Ha Hb).
      rewrite andb_assoc. reflexivity.
Qed.

(* the writer compares group strings with str.startswith; on names built from slash-free
   components that is the prefix relation on group paths *)
Lemma gstr_prefix : forall a b, free slash a -> free slash b ->
  starts_with (match a with [] => [] | _ => gstr a ++ [slash] end)
              (match b with [] => [] | _ => gstr b ++ [slash] end) = prefixb a b.
Proof.
  assert (HD : forall a, exists t, gstr a ++ [slash] = slash :: t) by (destruct a; simpl; eauto).
  assert (K : forall a b, free slash a -> free slash b ->
             starts_with (gstr a ++ [slash]) (gstr b ++ [slash]) = prefixb a b).
  { induction a as [|x a IH]; intros b Fa Fb.
    - destruct (HD b) as [t E]. rewrite E. simpl. rewrite Ascii.eqb_refl. reflexivity.
    - inversion Fa as [|? ? Hx Ha]; subst. destruct b as [|y b].
      + simpl. rewrite Ascii.eqb_refl. simpl.
        destruct ((x ++ gstr a) ++ [slash]) eqn:E; [|reflexivity].
        apply app_eq_nil in E as [_ E]. discriminate.
      + inversion Fb as [|? ? Hy Hb]; subst. simpl. rewrite Ascii.eqb_refl. simpl.
        rewrite <- !app_assoc. destruct (HD a) as [ta Ea]. destruct (HD b) as [tb Eb].
        rewrite Ea, Eb. rewrite starts_with_comp by assumption. f_equal.
        specialize (IH b Ha Hb). rewrite Ea, Eb in IH. simpl in IH. rewrite Ascii.eqb_refl in IH. exact IH. }
  intros a b Fa Fb. destruct a as [|x a]; [reflexivity|]. destruct b as [|y b].
  - simpl. reflexivity.
  - apply K; assumption.
Qed.

Lemma dims_visible_spec : forall gv nv dims,
  free slash gv -> mem_chr slash nv = false ->
  Forall (fun d => free slash (fst d) /\ mem_chr slash (snd d) = false) dims ->
  dims_visible true (name_of gv nv) (map (fun d => name_of (fst d) (snd d)) dims) = true <->
  (forall d, In d dims -> exists r, gv = fst d ++ r).
Proof.
  intros gv nv dims Fv Hn Fd. unfold dims_visible. rewrite forallb_forall. split.
  - intros H d I. rewrite Forall_forall in Fd. destruct (Fd d I) as [F1 F2].
    specialize (H (name_of (fst d) (snd d)) (in_map _ _ _ I)).
    rewrite !groups_str_name_of in H by assumption. rewrite gstr_prefix in H by assumption.
    apply prefixb_iff; assumption.
  - intros H x I. apply in_map_iff in I as [d [<- I]]. rewrite Forall_forall in Fd. destruct (Fd d I) as [F1 F2].
    rewrite !groups_str_name_of by assumption. rewrite gstr_prefix by assumption.
    apply prefixb_iff. apply H; assumption.
Qed.

(* ------------------------------------------------------------------ flattened names are injective *)
Definition us : ascii := "_"%char.

Lemma sep2_is : sep2 = [us; us].
Proof. reflexivity. Qed.

Fixpoint no_dbl (c : str) : bool :=
  match c with
  | a :: r => (match r with b :: _ => negb (Ascii.eqb a us && Ascii.eqb b us) | [] => true end) && no_dbl r
  | [] => true
  end.

(* a name that does not end with "_" and has no "__" inside *)
Definition good (c : str) : Prop := last c us <> us /\ no_dbl c = true.

Lemma app_eq_app_or {A} : forall (x1 x2 y1 y2 : list A), x1 ++ x2 = y1 ++ y2 ->
  exists l, (x1 = y1 ++ l /\ y2 = l ++ x2) \/ (y1 = x1 ++ l /\ x2 = l ++ y2).
Proof.
  induction x1 as [|a x1 IH]; intros x2 y1 y2 E.
  - exists y1. right. split; [reflexivity|exact E].
  - destruct y1 as [|b y1].
    + exists (a :: x1). left. split; [reflexivity|symmetry; exact E].
    + inversion E; subst. destruct (IH _ _ _ H1) as [l [[-> ->]|[-> ->]]]; exists l; [left|right]; split; reflexivity.
Qed.

Lemma no_dbl_app_dbl : forall c l, no_dbl (c ++ us :: us :: l) = false.
Proof.
  induction c as [|a c IH]; intros l.
  - simpl. reflexivity.
  - change ((a :: c) ++ us :: us :: l) with (a :: (c ++ us :: us :: l)).
    simpl no_dbl. rewrite IH. apply andb_false_r.
Qed.

Definition tail_ok (r : str) : Prop := r = [] \/ exists t, r = us :: us :: t.

Lemma ext_nil : forall c1 c2 l r1 r2, c2 = c1 ++ l -> r1 = l ++ r2 -> tail_ok r1 -> good c2 -> l = [].
Proof.
  intros c1 c2 l r1 r2 -> -> T [GL GD]. destruct l as [|a l]; [reflexivity|exfalso].
  destruct T as [T|[t T]]; [discriminate|]. inversion T; subst. destruct l as [|b l].
  - apply GL. apply last_app_single.
  - simpl in H1. inversion H1; subst. rewrite no_dbl_app_dbl in GD. discriminate.
Qed.

Lemma comp_unique : forall c1 c2 r1 r2, good c1 -> good c2 -> tail_ok r1 -> tail_ok r2 ->
  c1 ++ r1 = c2 ++ r2 -> c1 = c2 /\ r1 = r2.
Proof.
  intros c1 c2 r1 r2 G1 G2 T1 T2 E. destruct (app_eq_app_or _ _ _ _ E) as [l [[E1 E2]|[E1 E2]]].
  - assert (l = []) by (eapply (ext_nil c2 c1 l r2 r1); eassumption). subst l.
    rewrite app_nil_r in E1. simpl in E2. split; congruence.
  - assert (l = []) by (eapply (ext_nil c1 c2 l r1 r2); eassumption). subst l.
    rewrite app_nil_r in E1. simpl in E2. split; congruence.
Qed.

Lemma join2_cons : forall x y r, join sep2 (x :: y :: r) = x ++ us :: us :: join sep2 (y :: r).
Proof. reflexivity. Qed.

Lemma join_sep2_inj : forall l1 l2, l1 <> [] -> l2 <> [] -> Forall good l1 -> Forall good l2 ->
  join sep2 l1 = join sep2 l2 -> l1 = l2.
Proof.
  induction l1 as [|c1 r1 IH]; intros l2 N1 N2 G1 G2 E; [contradiction|].
  destruct l2 as [|c2 r2]; [contradiction|]. inversion G1; subst. inversion G2; subst.
  assert (X : c1 = c2 /\ match r1 with [] => [] | _ => us :: us :: join sep2 r1 end =
                         match r2 with [] => [] | _ => us :: us :: join sep2 r2 end).
  { apply comp_unique; try assumption.
    - destruct r1; [left; reflexivity|right; eexists; reflexivity].
    - destruct r2; [left; reflexivity|right; eexists; reflexivity].
    - destruct r1, r2; try rewrite !join2_cons in E; simpl in E; try rewrite !app_nil_r in *; exact E. }
  destruct X as [-> X]. f_equal. destruct r1 as [|a r1], r2 as [|b r2]; try discriminate; [reflexivity|].
  inversion X. apply IH; try assumption; discriminate.
Qed.

Definition short (p : list str) (n : str) : Prop := length (join sep2 (p ++ [n])) < cfg_max_name_len.

Lemma join_snoc2 : forall p n, p <> [] -> join sep2 (p ++ [n]) = join sep2 p ++ sep2 ++ n.
Proof.
  induction p as [|a p IH]; intros n NE; [contradiction|]. destruct p as [|b p].
  - reflexivity.
  - change ((a :: b :: p) ++ [n]) with (a :: b :: (p ++ [n])). rewrite join2_cons.
    change (b :: p ++ [n]) with ((b :: p) ++ [n]). rewrite IH by discriminate.
    rewrite join2_cons. rewrite <- !app_assoc. reflexivity.
Qed.

Lemma flat_name_short : forall hash p n, short p n -> flat_name hash p n = join sep2 (p ++ [n]).
Proof.
  intros hash p n S. unfold flat_name. destruct p as [|a p]; [reflexivity|].
  rewrite <- join_snoc2 by discriminate. unfold short in S. apply Nat.ltb_lt in S. rewrite S. reflexivity.
Qed.

Lemma flat_injective : forall hash p1 n1 p2 n2,
  Forall good (p1 ++ [n1]) -> Forall good (p2 ++ [n2]) -> short p1 n1 -> short p2 n2 ->
  flat_name hash p1 n1 = flat_name hash p2 n2 -> p1 = p2 /\ n1 = n2.
Proof.
  intros hash p1 n1 p2 n2 G1 G2 S1 S2 E. rewrite !flat_name_short in E by assumption.
  apply join_sep2_inj in E; try assumption; try (destruct p1; discriminate); try (destruct p2; discriminate).
  apply app_inj_tail. exact E.
Qed.

(* without the guard: a root variable "a__b" and a variable "b" in group /a (F11b);
   a group "a_" holding "b" and a group "a" holding "_b" *)
Lemma flat_collision_sep : exists p1 n1 p2 n2,
  (p1, n1) <> (p2, n2) /\ short p1 n1 /\ short p2 n2 /\
  Forall (fun c => last c us <> us) (p1 ++ [n1]) /\ Forall (fun c => last c us <> us) (p2 ++ [n2]) /\
  flat_name (fun x => x) p1 n1 = flat_name (fun x => x) p2 n2.
Proof.
  exists [], (s "a__b"), [s "a"], (s "b"). splits.
  - discriminate.
  - unfold short. vm_compute. repeat constructor.
  - unfold short. vm_compute. repeat constructor.
  - repeat constructor; discriminate.
  - repeat constructor; discriminate.
  - reflexivity.
Qed.

Lemma flat_collision_trailing : exists p1 n1 p2 n2,
  (p1, n1) <> (p2, n2) /\ short p1 n1 /\ short p2 n2 /\
  Forall (fun c => no_dbl c = true) (p1 ++ [n1]) /\ Forall (fun c => no_dbl c = true) (p2 ++ [n2]) /\
  flat_name (fun x => x) p1 n1 = flat_name (fun x => x) p2 n2.
Proof.
  exists [s "a_"], (s "b"), [s "a"], (s "_b"). splits.
  - discriminate.
  - unfold short. vm_compute. repeat constructor.
  - unfold short. vm_compute. repeat constructor.
  - repeat constructor.
  - repeat constructor.
  - reflexivity.
Qed.

Example flat_injective_nonvacuous :
  Forall good ([s "forecast"; s "model"] ++ [s "air_temp"]) /\ short [s "forecast"; s "model"] (s "air_temp").
Proof. split; [repeat constructor; discriminate|unfold short; vm_compute; repeat constructor]. Qed.

(* ------------------------------------------------------------------ the group tree *)
Lemma find_group_app : forall p1 p2 g,
  find_group g (p1 ++ p2) = match find_group g p1 with Some g1 => find_group g1 p2 | None => None end.
Proof.
  induction p1 as [|n p1 IH]; intros p2 g; [reflexivity|].
  simpl. destruct (child (gsubs g) n); [apply IH|reflexivity].
Qed.

(* a group [k] levels above the one at reversed path [rp] *)
Definition holds (root : group) (sd : bool) (ref : str) (rp : list str) : Prop :=
  exists g, find_group root (rev rp) = Some g /\ has_elt sd g ref = true.

Lemma ancestors_exist : forall root rp k, find_group root (rev rp) <> None ->
  find_group root (rev (skipn k rp)) <> None.
Proof.
  intros root rp k H. rewrite <- (firstn_skipn k rp) in H. rewrite rev_app_distr, find_group_app in H.
  destruct (find_group root (rev (skipn k rp))); [discriminate|contradiction].
Qed.

(* search by proximity (no lateral phase): the result is the nearest enclosing definition *)
Lemma prox_nearest : forall fixed root sd ref rp apex q,
  prox_gen fixed root sd ref rp apex false = Some q ->
  exists k, q = rev (skipn k rp) /\ holds root sd ref (skipn k rp) /\
            forall j, j < k -> ~ holds root sd ref (skipn j rp).
Proof.
  induction rp as [|x rp IH]; intros apex q H; simpl in H.
  - destruct (has_elt sd root ref) eqn:E; [|discriminate]. inversion H; subst.
    exists 0. splits; [reflexivity|exists root; split; [reflexivity|assumption]|intros; lia].
  - destruct (find_group root (rev rp ++ [x])) as [g|] eqn:F; [|discriminate].
    destruct (has_elt sd g ref) eqn:E.
    + inversion H; subst. exists 0. splits; [reflexivity|exists g; split; assumption|intros; lia].
    + simpl in H. destruct (IH _ _ H) as [k [Q [Hk Hj]]]. exists (S k). splits; try assumption.
      intros j Lj [g' [F' E']]. destruct j as [|j].
      * simpl in F'. rewrite F in F'. inversion F'; subst. congruence.
      * apply (Hj j ltac:(lia)). exists g'. split; assumption.
Qed.

Lemma prox_none : forall fixed root sd ref rp apex,
  find_group root (rev rp) <> None ->
  prox_gen fixed root sd ref rp apex false = None ->
  forall k, ~ holds root sd ref (skipn k rp).
Proof.
  induction rp as [|x rp IH]; intros apex EX H k [g' [F' E']]; simpl in H.
  - rewrite skipn_nil in F'. simpl in F'. inversion F'; subst. rewrite E' in H. discriminate.
  - destruct (find_group root (rev rp ++ [x])) as [g|] eqn:F; [|simpl in EX; contradiction].
    destruct (has_elt sd g ref) eqn:E; [discriminate|]. simpl in H.
    destruct k as [|k].
    + simpl in F'. rewrite F in F'. inversion F'; subst. congruence.
    + apply (IH _ (ancestors_exist root (x :: rp) 1 EX) H k). exists g'. split; assumption.
Qed.

Example prox_nearest_nonvacuous :
  prox (G [] [s "x"] [(s "x", 1)] [G (s "a") [] [(s "x", 1)] [G (s "b") [] [] []]])
       false (s "x") [s "b"; s "a"] false false = Some [s "a"].
Proof. reflexivity. Qed.

(* netCDF's own lookup of a dimension name is the same upward search *)
Lemma nc_lookup_is_prox : forall fixed root n rp apex,
  nc_lookup_dim root rp n = prox_gen fixed root true n rp apex false.
Proof.
  induction rp as [|x rp IH]; intros apex; simpl.
  - unfold has_elt. destruct (mem_str n (gdims root)); reflexivity.
  - destruct (find_group root (rev rp ++ [x])); [|reflexivity]. unfold has_elt.
    destruct (mem_str n (gdims g)); [reflexivity|]. simpl. apply IH.
Qed.

Lemma nc_lookup_here : forall root rp n g, find_group root (rev rp) = Some g ->
  mem_str n (gdims g) = true -> nc_lookup_dim root rp n = Some (rev rp).
Proof.
  intros root rp n g F M. destruct rp as [|x rp].
  - simpl in *. inversion F; subst. rewrite M. reflexivity.
  - simpl in *. rewrite F, M. reflexivity.
Qed.

Lemma nc_lookup_step : forall root x rp n g, find_group root (rev (x :: rp)) = Some g ->
  mem_str n (gdims g) = false -> nc_lookup_dim root (x :: rp) n = nc_lookup_dim root rp n.
Proof. intros root x rp n g F M. simpl in *. rewrite F, M. reflexivity. Qed.

(* If a dimension defined in group [gd] is not re-defined in any group strictly between
   [gd] and the variable's group [gd ++ rev rr], netCDF binds the name to that dimension. *)
Lemma lookup_unshadowed : forall root gd n g0 rr,
  find_group root gd = Some g0 -> mem_str n (gdims g0) = true ->
  (forall a b, rr = a ++ b -> b <> [] ->
     exists g, find_group root (gd ++ rev b) = Some g /\ mem_str n (gdims g) = false) ->
  nc_lookup_dim root (rr ++ rev gd) n = Some gd.
Proof.
  induction rr as [|x rr IH]; intros F M H.
  - simpl app. rewrite <- (rev_involutive gd) at 2. apply nc_lookup_here with g0; [|assumption].
    rewrite rev_involutive. assumption.
  - destruct (H [] (x :: rr) eq_refl ltac:(discriminate)) as [g [Fg Mg]].
    change ((x :: rr) ++ rev gd) with (x :: (rr ++ rev gd)).
    rewrite (nc_lookup_step root x (rr ++ rev gd) n g); [| |assumption].
    + apply IH; try assumption. intros a b E NB. apply (H (x :: a) b); [rewrite E; reflexivity|assumption].
    + simpl. rewrite rev_app_distr, rev_involutive. simpl in Fg. rewrite app_assoc in Fg. exact Fg.
Qed.

(* ------------------------------------------------------------------ search by relative path *)
Fixpoint ups (k : nat) : str := match k with 0 => [] | S k' => dot :: dot :: slash :: ups k' end.

(* the remainder of a reference does not begin with "../" *)
Definition no_up (rest : str) : Prop := forall rp, rel_up rest rp = Some (rest, rp).

Lemma rel_up_id : forall x, (forall r, x <> dot :: dot :: slash :: r) -> no_up x.
Proof.
  intros x H rp. destruct x as [|a [|b [|c r]]]; try reflexivity. simpl.
  destruct (Ascii.eqb a ".") eqn:Ea; simpl; [|reflexivity].
  destruct (Ascii.eqb b ".") eqn:Eb; simpl; [|reflexivity].
  destruct (Ascii.eqb c slash) eqn:Ec; simpl; [|reflexivity].
  apply Ascii.eqb_eq in Ea, Eb, Ec. subst. exfalso. apply (H r). reflexivity.
Qed.

Lemma no_up_join : forall c l, mem_chr slash c = false -> c <> [dot; dot] -> no_up (join [slash] (c :: l)).
Proof.
  intros c l Hc Nc. apply rel_up_id. intros r E.
  assert (T : exists tl, join [slash] (c :: l) = c ++ tl /\ (tl = [] \/ exists t, tl = slash :: t)).
  { destruct l as [|y l]; [exists []; split; [symmetry; apply app_nil_r|left; reflexivity]|].
    exists (slash :: join [slash] (y :: l)). split; [reflexivity|right; eexists; reflexivity]. }
  destruct T as [tl [ET T]]. rewrite ET in E. clear ET.
  destruct c as [|a [|b [|d c']]].
  - simpl in E. destruct T as [->|[t ->]]; [discriminate|]. inversion E; try (apply slash_neq_dot; assumption).
  - simpl in E. inversion E; subst. destruct T as [T|[t T]]; [discriminate|]. inversion T; try (apply slash_neq_dot; assumption).
  - simpl in E. inversion E; subst. apply Nc; reflexivity.
  - simpl in E. inversion E; subst. simpl in Hc. rewrite Ascii.eqb_refl in Hc. rewrite !orb_true_r in Hc. discriminate.
Qed.

Lemma rel_up_ups : forall k rest rp, no_up rest ->
  rel_up (ups k ++ rest) rp = if k <=? length rp then Some (rest, skipn k rp) else None.
Proof.
  induction k as [|k IH]; intros rest rp H.
  - simpl. apply H.
  - change (ups (S k) ++ rest) with (dot :: dot :: slash :: (ups k ++ rest)).
    simpl rel_up. rewrite Ascii.eqb_refl. simpl andb. cbv iota.
    destruct rp as [|x rp]; [reflexivity|]. rewrite IH by assumption. reflexivity.
Qed.

(* search_by_relative_path on "../" x k + "g1/.../gm/name", written in a variable of the group
   at (reversed) path rp: the element [name] of the group reached by going k levels up and
   then down g1 .. gm - and nothing else; unresolved (never an exception) otherwise. *)
Lemma search_rel_spec : forall root k comps n rp sd,
  no_up (join [slash] (comps ++ [n])) -> free slash (comps ++ [n]) ->
  find_group root (rev rp) <> None ->
  search_rel root (ups k ++ join [slash] (comps ++ [n])) rp sd =
    if k <=? length rp then
      match find_group root (rev (skipn k rp) ++ comps) with
      | Some g => if has_elt sd g n then SFound (rev (skipn k rp) ++ comps) n else SNone
      | None => SNone
      end
    else SNone.
Proof.
  intros root k comps n rp sd NU F EX. unfold search_rel, search_rel_gen.
  rewrite rel_up_ups by assumption. destruct (k <=? length rp); [|reflexivity].
  rewrite split_on_join by (assumption || (destruct comps; discriminate)).
  rewrite removelast_app_single, last_app_single.
  destruct (find_group root (rev (skipn k rp))) as [g0|] eqn:F0.
  - rewrite find_group_app, F0. destruct (find_group g0 comps); [|reflexivity].
    destruct (has_elt sd g n); reflexivity.
  - exfalso. apply (ancestors_exist root rp k EX). assumption.
Qed.

Example search_rel_nonvacuous :
  search_rel (G [] [] [] [G (s "a") [] [(s "q", 0)] []; G (s "b") [] [(s "y", 1)] []])
             (s "../b/y") [s "a"] false = SFound [s "b"] (s "y").
Proof. reflexivity. Qed.

(* ------------------------------------------------------------------ lateral search *)
Lemma first_holding_some : forall sd ref level p, first_holding sd ref level = Some p ->
  exists g, In (p, g) level /\ has_elt sd g ref = true.
Proof.
  induction level as [|[p0 g0] r IH]; intros p H; simpl in H; [discriminate|].
  destruct (has_elt sd g0 ref) eqn:E.
  - inversion H; subst. exists g0. split; [left; reflexivity|assumption].
  - destruct (IH _ H) as [g [I Hg]]. exists g. split; [right; assumption|assumption].
Qed.

Lemma first_holding_none : forall sd ref level, first_holding sd ref level = None ->
  forall p g, In (p, g) level -> has_elt sd g ref = false.
Proof.
  induction level as [|[p0 g0] r IH]; intros H p g I; simpl in *; [contradiction|].
  destruct (has_elt sd g0 ref) eqn:E; [discriminate|].
  destruct I as [I|I]; [inversion I; subst; assumption|apply (IH H p g I)].
Qed.

(* the groups [d] levels below the groups of [level] *)
Definition below (d : nat) (level : list (list str * group)) := Nat.iter d next_level level.

Lemma iter_succ_r {A} : forall n (f : A -> A) x, Nat.iter (S n) f x = Nat.iter n f (f x).
Proof. induction n; intros; simpl; [reflexivity|]. simpl in IHn. rewrite <- IHn. reflexivity. Qed.

Lemma below_S : forall d level, below (S d) level = below d (next_level level).
Proof. intros. unfold below. apply iter_succ_r. Qed.

(* breadth-first: the result holds the element, and no group on a shallower level does *)
Lemma bfs_sound : forall fuel sd ref level q, bfs fuel sd ref level = Some q ->
  exists d g, In (q, g) (below d level) /\ has_elt sd g ref = true /\
    forall d', d' < d -> forall q' g', In (q', g') (below d' level) -> has_elt sd g' ref = false.
Proof.
  induction fuel as [|f IH]; intros sd ref level q H.
  - destruct level as [|x r]; cbn [bfs] in H; [discriminate|].
    destruct (first_holding sd ref (x :: r)) eqn:E; [|discriminate]. inversion H; subst.
    destruct (first_holding_some _ _ _ _ E) as [g [I Hg]].
    exists 0, g. splits; [exact I|exact Hg|intros; lia].
  - destruct level as [|x r]; cbn [bfs] in H; [discriminate|].
    destruct (first_holding sd ref (x :: r)) eqn:E.
    + inversion H; subst. destruct (first_holding_some _ _ _ _ E) as [g [I Hg]].
      exists 0, g. splits; [exact I|exact Hg|intros; lia].
    + destruct (IH _ _ _ _ H) as [d [g [I [Hg Hmin]]]].
      exists (S d), g. splits; [rewrite below_S; exact I|exact Hg|].
      intros d' L q' g' I'. destruct d' as [|d'].
      * apply (first_holding_none _ _ _ E q' g' I').
      * rewrite below_S in I'. apply (Hmin d' ltac:(lia) q' g' I').
Qed.

Definition apexdim (root : group) (ref : str) (rp : list str) : Prop :=
  exists g, find_group root (rev rp) = Some g /\ mem_str ref (gdims g) = true.

(* the upward phase of the search for a coordinate variable: either the nearest enclosing
   definition at or below the local apex, or a breadth-first descent from the local apex *)
Lemma prox_lateral_phase : forall root sd ref rp q,
  prox root sd ref rp false true = Some q ->
  (exists k, q = rev (skipn k rp) /\ holds root sd ref (skipn k rp) /\
     forall j, j < k -> ~ holds root sd ref (skipn j rp) /\ ~ apexdim root ref (skipn j rp))
  \/
  (exists k g, find_group root (rev (skipn k rp)) = Some g /\ mem_str ref (gdims g) = true /\
     (forall j, j <= k -> ~ holds root sd ref (skipn j rp)) /\
     (forall j, j < k -> ~ apexdim root ref (skipn j rp)) /\
     bfs (height root) sd ref (next_level [(rev (skipn k rp), g)]) = Some q).
Proof.
  unfold prox. induction rp as [|x rp IH]; intros q H; simpl in H.
  - destruct (has_elt sd root ref) eqn:E.
    + inversion H; subst. left. exists 0. splits; [reflexivity|exists root; split; [reflexivity|assumption]|intros; lia].
    + destruct (mem_str ref (gdims root)) eqn:M; simpl in H; [|discriminate].
      right. exists 0, root. splits; try reflexivity; try assumption; try (intros; lia).
      intros j Lj [g' [F' E']]. rewrite skipn_nil in F'. simpl in F'. inversion F'; subst. congruence.
  - destruct (find_group root (rev rp ++ [x])) as [g|] eqn:F; [|discriminate].
    destruct (has_elt sd g ref) eqn:E.
    + inversion H; subst. left. exists 0. splits; [reflexivity|exists g; split; assumption|intros; lia].
    + destruct (mem_str ref (gdims g)) eqn:M; simpl in H.
      * right. exists 0, g. splits; try assumption; try (intros; lia).
        intros j Lj [g' [F' E']]. assert (j = 0) by lia. subst. simpl in F'. rewrite F in F'.
        inversion F'; subst. congruence.
      * assert (N0 : ~ holds root sd ref (x :: rp)).
        { intros [g' [F' E']]. simpl in F'. rewrite F in F'. inversion F'; subst. congruence. }
        assert (A0 : ~ apexdim root ref (x :: rp)).
        { intros [g' [F' E']]. simpl in F'. rewrite F in F'. inversion F'; subst. congruence. }
        destruct (IH _ H) as [[k [Q [Hk Hj]]]|[k [g1 [F1 [M1 [Hh [Ha B]]]]]]].
        -- left. exists (S k). splits; try assumption. intros j Lj. destruct j as [|j]; [split; assumption|].
           apply Hj. lia.
        -- right. exists (S k), g1. splits; try assumption.
           ++ intros j Lj. destruct j as [|j]; [assumption|]. apply Hh. lia.
           ++ intros j Lj. destruct j as [|j]; [assumption|]. apply Ha. lia.
Qed.

(* the pinned code searched depth first: a deeper group of an earlier branch won over a
   shallower group of a later branch *)
Lemma lateral_old_not_breadth_first : exists root rp,
  prox_old root false (s "x") rp false true = Some [s "g"; s "k"] /\
  prox root false (s "x") rp false true = Some [s "h"].
Proof.
  exists (G [] [s "x"] [] [G (s "g") [] [] [G (s "k") [] [(s "x", 1)] []];
                           G (s "h") [] [(s "x", 1)] []; G (s "m") [] [(s "q", 1)] []]), [s "m"].
  split; reflexivity.
Qed.

(* ------------------------------------------------------------------ absolute references *)
Lemma resolve_absolute : forall fixed root rl strict rp coords r,
  resolve_gen fixed root rl strict rp coords (slash :: r) = RStr (slash :: r).
Proof.
  intros. unfold resolve_gen. simpl starts_with. rewrite Ascii.eqb_refl. reflexivity.
Qed.

(* ------------------------------------------------------------------ the rules table *)
Definition rule_ok (rl : rules) : bool :=
  negb (Nat.eqb (r_dim rl) (r_var rl)) && implb (r_scalar rl) (r_std rl).

Lemma rules_table_ok : forallb (fun e => rule_ok (rules_of (snd e))) flattening_rules_table = true.
Proof. vm_compute. reflexivity. Qed.

Lemma lookup_rules_in : forall name tbl rl, lookup_rules name tbl = Some rl ->
  exists e, In e tbl /\ rl = rules_of (snd e).
Proof.
  induction tbl as [|[n t] r IH]; intros rl H; simpl in H; [discriminate|].
  destruct (String.eqb n name).
  - inversion H; subst. exists (n, t). split; [left; reflexivity|reflexivity].
  - destruct (IH _ H) as [e [I E]]. exists e. split; [right; assumption|assumption].
Qed.

Lemma table_rule_ok : forall name rl, lookup_rules name flattening_rules_table = Some rl -> rule_ok rl = true.
Proof.
  intros name rl H. destruct (lookup_rules_in _ _ _ H) as [e [I ->]].
  pose proof rules_table_ok as T. rewrite forallb_forall in T. apply (T e I).
Qed.
Local Opaque flattening_rules_table.

(* with a rule of the table the renaming pass never raises when the flattener is not strict
   (in particular the name map is always bound) *)
Lemma adapt_total : forall hash root name rl x,
  lookup_rules name flattening_rules_table = Some rl -> adapt hash root rl false x <> RExc.
Proof.
  intros hash root name rl x H. apply table_rule_ok in H. unfold rule_ok in H.
  apply andb_true_iff in H as [H _]. apply negb_true_iff, Nat.eqb_neq in H.
  unfold adapt. destruct (substrb not_found x); [discriminate|].
  destruct (r_var rl <? r_dim rl) eqn:A.
  - destruct (assoc_str x _); [discriminate|].
    destruct ((0 <? r_dim rl) && (0 <? r_var rl)); [destruct (assoc_str x _); [discriminate|]|];
      destruct (r_std rl); discriminate.
  - destruct (r_dim rl <? r_var rl) eqn:B.
    + destruct (assoc_str x _); [discriminate|].
      destruct ((0 <? r_dim rl) && (0 <? r_var rl)); [destruct (assoc_str x _); [discriminate|]|];
        destruct (r_std rl); discriminate.
    + apply Nat.ltb_ge in A, B. lia.
Qed.

(* ------------------------------------------------------------------ the writer and shadowed dimensions *)
(* F11f: every dimension is "in the same group or a parent group", the check passes, yet
   netCDF binds the basename "x" to the nearer dimension /a/x instead of the intended /x *)
Lemma visible_but_shadowed : exists root gv dims,
  dims_visible true (name_of gv (s "ta")) (map (fun d => name_of (fst d) (snd d)) dims) = true /\
  In ([], s "x") dims /\
  nc_lookup_dim root (rev gv) (s "x") <> Some [].
Proof.
  exists (G [] [s "x"] [] [G (s "a") [s "x"] [] [G (s "b") [] [(s "ta", 2)] []]]),
         [s "a"; s "b"], [([], s "x"); ([s "a"], s "x")].
  splits; [reflexivity|left; reflexivity|vm_compute; discriminate].
Qed.

(* ------------------------------------------------------------------ reader: un-flattening *)
Lemma join_snoc_slash : forall p n, p <> [] -> join [slash] (p ++ [n]) = join [slash] p ++ [slash] ++ n.
Proof.
  induction p as [|a p IH]; intros n NE; [contradiction|]. destruct p as [|b p].
  - reflexivity.
  - change ((a :: b :: p) ++ [n]) with (a :: b :: (p ++ [n])). rewrite join_cons2.
    change (b :: p ++ [n]) with ((b :: p) ++ [n]). rewrite IH by discriminate.
    rewrite join_cons2. rewrite <- !app_assoc. reflexivity.
Qed.

Lemma pathname_abs : forall p n, p <> [] -> pathname p n = abs_name p n.
Proof.
  intros p n NE. destruct p as [|a p]; [contradiction|].
  unfold pathname, group_path. rewrite abs_name_cons.
  change (a :: p ++ [n]) with ((a :: p) ++ [n]). rewrite join_snoc_slash by discriminate.
  reflexivity.
Qed.

Lemma strip_prefix_app : forall p x, strip_prefix p (p ++ x) = x.
Proof.
  intros. unfold strip_prefix. rewrite starts_with_app.
  induction p; simpl; [reflexivity|assumption].
Qed.

(* the reader recovers the group path, the recorded name and the basename of every element
   from one entry "flat: absolute" of the mapping attributes - whatever the flattened name is
   (plain, hashed, or with a counter appended) *)
Lemma unflatten_var_spec : forall flat p n,
  free slash (p ++ [n]) ->
  unflatten_var flat (pathname p n) =
    (p, match p with [] => n | _ => pathname p n end, match p with [] => flat | _ => n end).
Proof.
  intros flat p n F. assert (Fp : free slash p /\ mem_chr slash n = false).
  { unfold free in *. apply Forall_app in F as [F1 F2]. inversion F2; subst. split; assumption. }
  destruct Fp as [Fp Fn]. destruct p as [|a p].
  - unfold unflatten_var, pathname.
    change (slash :: n) with ([] ++ slash :: n). rewrite split_on_app by reflexivity.
    rewrite split_on_free by assumption. reflexivity.
  - unfold unflatten_var. rewrite pathname_abs by discriminate.
    rewrite split_abs_name by assumption. rewrite mid_cons_snoc.
    change ([] :: (a :: p) ++ [n]) with (([] :: a :: p) ++ [n]). rewrite last_app_single. reflexivity.
Qed.

Lemma unflatten_dim_spec : forall flat p n,
  free slash (p ++ [n]) ->
  unflatten_dim_gen true flat (pathname p n) =
    (p, match p with [] => n | _ => pathname p n end, match p with [] => flat | _ => n end).
Proof.
  intros flat p n F. assert (Fp : free slash p /\ mem_chr slash n = false).
  { unfold free in *. apply Forall_app in F as [F1 F2]. inversion F2; subst. split; assumption. }
  destruct Fp as [Fp Fn]. destruct p as [|a p].
  - unfold unflatten_dim_gen, pathname.
    simpl starts_with. rewrite Ascii.eqb_refl. simpl andb.
    simpl count_chr. rewrite Ascii.eqb_refl. rewrite count_chr_free by assumption. simpl Nat.eqb. cbv iota.
    simpl tl. rewrite split_on_free by assumption. reflexivity.
  - unfold unflatten_dim_gen. rewrite pathname_abs by discriminate.
    destruct (abs_name_shape a p n) as [pre E].
    assert (C : Nat.eqb (count_chr slash (abs_name (a :: p) n)) 1 = false).
    { rewrite E. apply Nat.eqb_neq. simpl count_chr. rewrite Ascii.eqb_refl, count_chr_app. simpl count_chr.
      rewrite Ascii.eqb_refl. lia. }
    rewrite C, andb_false_r. rewrite split_abs_name by assumption. rewrite mid_cons_snoc.
    change ([] :: (a :: p) ++ [n]) with (([] :: a :: p) ++ [n]). rewrite last_app_single. reflexivity.
Qed.

(* ------------------------------------------------------------------ non-vacuity of the guarded statements *)
Definition ex_tree : group :=
  G [] [s "x"] [(s "x", 1)]
    [G (s "g") [] [] [G (s "k") [] [(s "x", 1)] []];
     G (s "h") [s "y"] [(s "x", 1)] [G (s "m") [] [(s "q", 1)] []]].

(* lateral: from /h/m the name x is found neither in /h/m nor (apex = root) above; the descent
   from the root finds /h/x on the first level although /g/k/x comes first depth-first *)
Example lateral_nonvacuous :
  prox ex_tree false (s "x") [s "m"; s "h"] false true = Some [s "h"] /\
  prox ex_tree false (s "y") [s "m"; s "h"] false true = None.
Proof. split; reflexivity. Qed.

Example lookup_unshadowed_nonvacuous :
  nc_lookup_dim ex_tree (rev [s "h"; s "m"]) (s "x") = Some [] /\
  nc_lookup_dim ex_tree (rev [s "h"; s "m"]) (s "y") = Some [s "h"].
Proof. split; reflexivity. Qed.

Example visible_nonvacuous :
  dims_visible true (name_of [s "g1"; s "g2"] (s "ta"))
     (map (fun d => name_of (fst d) (snd d)) [([], s "x"); ([s "g1"], s "y")]) = true /\
  dims_visible true (name_of [s "g1"; s "g2b"] (s "ta"))
     (map (fun d => name_of (fst d) (snd d)) [([s "g1"; s "g2"], s "x")]) = false.
Proof. split; reflexivity. Qed.

Example groups_roundtrip_nonvacuous :
  nc_set_groups [s "forecast"; s "model"] (s "/old/ta") = Some (s "/forecast/model/ta") /\
  nc_groups (s "/forecast/model/ta") = [s "forecast"; s "model"] /\
  nc_set_groups [] (s "/old/ta") = Some (s "ta").
Proof. splits; reflexivity. Qed.

Example unflatten_nonvacuous :
  unflatten_var (s "forecast__model__ta_1") (pathname [s "forecast"; s "model"] (s "ta"))
  = ([s "forecast"; s "model"], s "/forecast/model/ta", s "ta").
Proof. reflexivity. Qed.

Example relative_nonvacuous :
  no_up (join [slash] ([s "b"] ++ [s "y"])) /\ free slash ([s "b"] ++ [s "y"]).
Proof. split; [apply no_up_join; [reflexivity|discriminate]|repeat constructor]. Qed.
