(* C11 - executable model of cfdm's treatment of netCDF hierarchical groups.

   Transcribed from (current tree, which has the repairs of handoff/C11-fix-*.diff, plus the
   repairs of handoff/C11-fix2-1.diff and C11-fix2-2.diff; the superseded behaviour is kept in
   the [..._old] definitions):
     cfdm/read_write/netcdf/flatten/flatten.py   search_by_relative_path, search_by_proximity,
                                                 resolve_reference(_proximity/_post_processing),
                                                 adapt_name, pathname, generate_flattened_name,
                                                 generate_var_attr_str, process_group
     cfdm/read_write/netcdf/flatten/config.py    the rules table (generated: Tables/FlattenRules.v)
     cfdm/read_write/netcdf/netcdfread.py        un-flattening of names (1355-1455),
                                                 _find_coordinate_variable (4673-4804)
     cfdm/read_write/netcdf/netcdfwrite.py       _parent_group, _remove_group_structure, _groups,
                                                 the dimension-visibility check (2716-2725)
     cfdm/mixin/netcdf.py                        _nc_set, _nc_groups, _nc_set_groups, _nc_clear_groups

   Names are lists of characters ([str]); a group is a rose tree.  Definitions
   only - proofs are in Lemmas.v. *)
From Coq Require Import DecimalString.
From CfdmV Require Import Common.Base Tables.FlattenRules.
Open Scope nat_scope.


Definition str := list ascii.
Definition s (x : string) : str := list_ascii_of_string x.

(* ------------------------------------------------------------------ strings *)
Definition str_eqb (a b : str) : bool := list_eqb Ascii.eqb a b.

Fixpoint mem_str (x : str) (l : list str) : bool :=
  match l with [] => false | y :: r => str_eqb x y || mem_str x r end.

Fixpoint mem_chr (c : ascii) (x : str) : bool :=
  match x with [] => false | y :: r => Ascii.eqb c y || mem_chr c r end.

(* Python str.startswith *)
Fixpoint starts_with (p x : str) : bool :=
  match p, x with
  | [], _ => true
  | a :: p', b :: x' => Ascii.eqb a b && starts_with p' x'
  | _ :: _, [] => false
  end.

(* Python "p in x" for strings *)
Fixpoint substrb (p x : str) : bool :=
  starts_with p x || match x with [] => false | _ :: r => substrb p r end.

(* Python str.split(c) for a one-character separator *)
Fixpoint split_on (c : ascii) (x : str) : list str :=
  match x with
  | [] => [[]]
  | a :: r =>
      if Ascii.eqb a c then [] :: split_on c r
      else match split_on c r with
           | [] => [[a]]
           | h :: t => (a :: h) :: t
           end
  end.

(* Python sep.join(l) *)
Fixpoint join (sep : str) (l : list str) : str :=
  match l with
  | [] => []
  | [x] => x
  | x :: r => x ++ sep ++ join sep r
  end.

Fixpoint count_chr (c : ascii) (x : str) : nat :=
  match x with [] => 0 | a :: r => (if Ascii.eqb a c then 1 else 0) + count_chr c r end.

Definition ends_with_chr (c : ascii) (x : str) : bool :=
  match rev x with a :: _ => Ascii.eqb a c | [] => false end.

(* re.sub("^" + p, "", x) for a prefix without regular-expression metacharacters *)
Definition strip_prefix (p x : str) : str :=
  if starts_with p x then skipn (length p) x else x.

Definition slash : ascii := "/"%char.
Definition sep2 : str := s cfg_flattener_separator.     (* "__" *)

(* ------------------------------------------------------------------ the group tree *)
(* name, dimensions, variables (name, number of dimensions), child groups; all in file order *)
Inductive group := G (gname : str) (gdims : list str) (gvars : list (str * nat)) (gsubs : list group).

Definition gname (g : group) := match g with G n _ _ _ => n end.
Definition gdims (g : group) := match g with G _ d _ _ => d end.
Definition gvars (g : group) := match g with G _ _ v _ => v end.
Definition gsubs (g : group) := match g with G _ _ _ c => c end.

(* group.groups[name] *)
Fixpoint child (l : list group) (n : str) : option group :=
  match l with
  | [] => None
  | c :: r => if str_eqb (gname c) n then Some c else child r n
  end.

(* follow a path of group names downwards *)
Fixpoint find_group (g : group) (p : list str) : option group :=
  match p with
  | [] => Some g
  | n :: r => match child (gsubs g) n with Some c => find_group c r | None => None end
  end.

(* ref in group.dimensions / group.variables *)
Definition has_elt (search_dim : bool) (g : group) (ref : str) : bool :=
  if search_dim then mem_str ref (gdims g) else mem_str ref (map fst (gvars g)).

Fixpoint var_ndim (l : list (str * nat)) (n : str) : option nat :=
  match l with [] => None | (m, k) :: r => if str_eqb m n then Some k else var_ndim r n end.

(* _Flattener.pathname(group, name); [p] is the path of the group from the root *)
Definition group_path (p : list str) : str := slash :: join [slash] p.
Definition pathname (p : list str) (n : str) : str :=
  match p with
  | [] => slash :: n
  | _ => join [slash] [group_path p; n]
  end.

(* ------------------------------------------------------------------ flattened names *)
(* _Flattener.generate_flattened_name; [hash] stands for hashlib.sha1(..).hexdigest() *)
Definition flat_name (hash : str -> str) (p : list str) (n : str) : str :=
  match p with
  | [] => n
  | _ =>
      let full := join sep2 p ++ sep2 ++ n in
      if length full <? cfg_max_name_len then full
      else
        let short := hash (group_path p) ++ sep2 ++ n in
        if length short <? cfg_max_name_len then short else hash full
  end.

(* ------------------------------------------------------------------ searches *)
(* a found element: the path of its group and its name *)
Inductive sres := SFound (p : list str) (n : str) | SNone | SErr.

(* while ref.startswith("../"): go to the parent.  [rp] is the REVERSED path of the current
   group, so the parent is [tl rp] and the root group (parent None) is []. *)
Fixpoint rel_up (ref : str) (rp : list str) : option (str * list str) :=
  match ref with
  | a :: b :: c :: r =>
      if Ascii.eqb a "."%char && Ascii.eqb b "."%char && Ascii.eqb c slash then
        match rp with [] => None | _ :: rp' => rel_up r rp' end
      else Some (ref, rp)
  | _ => Some (ref, rp)
  end.

(* search_by_relative_path.  [fixed = false] is the pinned code: the final lookup
   raises KeyError when the last component is missing (F11a). *)
Definition search_rel_gen (fixed : bool) (root : group) (ref : str) (rp : list str) (search_dim : bool) : sres :=
  match rel_up ref rp with
  | None => SNone
  | Some (ref', rp') =>
      let comps := split_on slash ref' in
      match find_group root (rev rp') with
      | None => SNone
      | Some g0 =>
          match find_group g0 (removelast comps) with
          | None => SNone
          | Some g =>
              if has_elt search_dim g (last comps [])
              then SFound (rev rp' ++ removelast comps) (last comps [])
              else if fixed then SNone else SErr
          end
      end
  end.
Definition search_rel := search_rel_gen true.
Definition search_rel_old := search_rel_gen false.

(* the first group of a list that holds [ref] *)
Fixpoint first_holding (search_dim : bool) (ref : str) (level : list (list str * group)) : option (list str) :=
  match level with
  | [] => None
  | (p, g) :: r => if has_elt search_dim g ref then Some p else first_holding search_dim ref r
  end.

Definition next_level (level : list (list str * group)) : list (list str * group) :=
  flat_map (fun pg => map (fun c => (fst pg ++ [gname c], c)) (gsubs (snd pg))) level.

(* lateral search as CF section 2.7 words it and as the repaired code does it: level by level *)
Fixpoint bfs (fuel : nat) (search_dim : bool) (ref : str) (level : list (list str * group)) : option (list str) :=
  match level with
  | [] => None
  | _ =>
      match first_holding search_dim ref level with
      | Some p => Some p
      | None => match fuel with 0 => None | S f => bfs f search_dim ref (next_level level) end
      end
  end.

(* the pinned code: depth first, pre-order *)
Fixpoint dfs (search_dim : bool) (ref : str) (p : list str) (g : group) : option (list str) :=
  if has_elt search_dim g ref then Some p
  else (fix go (l : list group) : option (list str) :=
          match l with
          | [] => None
          | c :: r => match dfs search_dim ref (p ++ [gname c]) c with
                      | Some x => Some x
                      | None => go r
                      end
          end) (gsubs g).

Fixpoint dfs_list (search_dim : bool) (ref : str) (p : list str) (l : list group) : option (list str) :=
  match l with
  | [] => None
  | c :: r => match dfs search_dim ref (p ++ [gname c]) c with
              | Some x => Some x
              | None => dfs_list search_dim ref p r
              end
  end.

Fixpoint height (g : group) : nat :=
  S ((fix go (l : list group) : nat := match l with [] => 0 | c :: r => Nat.max (height c) (go r) end) (gsubs g)).

(* search_by_proximity(ref, current_group, search_dim, local_apex_reached, is_coordinate_variable);
   returns the path of the group in which the element was found. *)
Fixpoint prox_gen (fixed : bool) (root : group) (search_dim : bool) (ref : str) (rp : list str)
         (apex isc : bool) : option (list str) :=
  match find_group root (rev rp) with
  | None => None
  | Some g =>
      if has_elt search_dim g ref then Some (rev rp)
      else
        let apex' := apex || mem_str ref (gdims g) in
        let at_root := match rp with [] => true | _ => false end in
        let top := if isc then apex' || at_root else at_root in
        if negb top then
          match rp with
          | [] => None
          | _ :: rp' => prox_gen fixed root search_dim ref rp' apex' isc
          end
        else if isc && apex' then
          if fixed then bfs (height root) search_dim ref (next_level [(rev rp, g)])
          else dfs_list search_dim ref (rev rp) (gsubs g)
        else None
  end.
Definition prox := prox_gen true.
Definition prox_old := prox_gen false.

(* ------------------------------------------------------------------ rules *)
Record rules := mkRules {
  r_dim : nat; r_var : nat; r_key : bool; r_val : bool;
  r_apex : bool; r_std : bool; r_scalar : bool }.

Definition rules_of (t : nat * nat * bool * bool * bool * bool * bool) : rules :=
  let '(d, v, k, vl, a, sd, sc) := t in mkRules d v k vl a sd sc.

Fixpoint lookup_rules (name : string) (tbl : list (string * (nat * nat * bool * bool * bool * bool * bool)))
  : option rules :=
  match tbl with
  | [] => None
  | (n, t) :: r => if String.eqb n name then Some (rules_of t) else lookup_rules name r
  end.

Inductive rtype := TNone | TDim | TVar | TStd.

Definition not_found : str := s cfg_ref_not_found_error.

(* the result of resolving one reference: the string that replaces it, or an exception *)
Inductive rres := RStr (x : str) | RExc.

Definition ndim_at (root : group) (p : list str) (n : str) : option nat :=
  match find_group root p with Some g => var_ndim (gvars g) n | None => None end.

(* resolve_reference + resolve_reference_proximity + resolve_reference_post_processing.
   [rp]: reversed group path of the referring variable; [coords]: its "coordinates"
   attribute if it has one; [strict]: the flattener's strict flag. *)
Definition resolve_gen (fixed : bool) (root : group) (rl : rules) (strict : bool) (rp : list str)
           (coords : option str) (ref : str) : rres :=
  let dim_first := r_var rl <? r_dim rl in
  let alt := (0 <? r_dim rl) && (0 <? r_var rl) in
  let ty (b : bool) := if b then TDim else TVar in
  (* (exception?, found element, absolute reference string, reference type) *)
  let found : option (option (list str * str) * option str * rtype) :=
    if starts_with [slash] ref then Some (None, Some ref, TNone)
    else if mem_chr slash ref then
      match search_rel_gen fixed root ref rp dim_first with
      | SErr => None
      | SFound p n => Some (Some (p, n), Some (pathname p n), ty dim_first)
      | SNone =>
          if alt then
            if fixed then
              match search_rel_gen fixed root ref rp (negb dim_first) with
              | SErr => None
              | SFound p n => Some (Some (p, n), Some (pathname p n), ty (negb dim_first))
              | SNone => Some (None, None, ty (negb dim_first))
              end
            else None                       (* self.groupp: AttributeError *)
          else Some (None, None, ty dim_first)
      end
    else
      match prox_gen fixed root dim_first ref rp false (r_apex rl) with
      | Some p => Some (Some (p, ref), Some (pathname p ref), ty dim_first)
      | None =>
          if alt then
            match prox_gen fixed root (negb dim_first) ref rp false (r_apex rl) with
            | Some p => Some (Some (p, ref), Some (pathname p ref), ty (negb dim_first))
            | None => Some (None, None, TNone)
            end
          else Some (None, None, TNone)
      end in
  match found with
  | None => RExc
  | Some (elt, abs, t) =>
      (* post-processing *)
      let r1 : option (str * rtype) :=
        match abs with
        | Some a => Some (a, t)
        | None =>
            if r_std rl then Some (ref, TStd)
            else if strict then None
            else Some (not_found ++ s "_" ++ ref, t)
        end in
      match r1 with
      | None => RExc
      | Some (a, t1) =>
          match t1 with
          | TVar =>
              if r_scalar rl then
                let not_listed := match coords with None => true | Some c => negb (substrb ref c) end in
                if not_listed then RStr ref
                else match elt with
                     | Some (p, n) =>
                         match ndim_at root p n with
                         | Some k => if 0 <? k then RStr ref else RStr a
                         | None => RExc
                         end
                     | None => RExc            (* self._input_ds[placeholder]: IndexError *)
                     end
              else RStr a
          | _ => RStr a
          end
      end
  end.

(* process_group order: the dimensions, then the variables, then the child groups *)
Fixpoint dim_map (hash : str -> str) (p : list str) (g : group) : list (str * str) :=
  map (fun d => (pathname p d, flat_name hash p d)) (gdims g) ++
  (fix go (l : list group) : list (str * str) :=
     match l with [] => [] | c :: r => dim_map hash (p ++ [gname c]) c ++ go r end) (gsubs g).

Fixpoint var_map (hash : str -> str) (p : list str) (g : group) : list (str * str) :=
  map (fun v => (pathname p (fst v), flat_name hash p (fst v))) (gvars g) ++
  (fix go (l : list group) : list (str * str) :=
     match l with [] => [] | c :: r => var_map hash (p ++ [gname c]) c ++ go r end) (gsubs g).

Fixpoint assoc_str (k : str) (l : list (str * str)) : option str :=
  match l with [] => None | (a, b) :: r => if str_eqb a k then Some b else assoc_str k r end.

(* _Flattener.unique_flattened_name (repair C11-fix2-1): a name already in use in the output
   dataset gets "_<n>" appended, n = 1, 2, .. the first that is free.  [dec] is str(n). *)
Definition dec (n : nat) : str := list_ascii_of_string (NilZero.string_of_uint (Nat.to_uint n)).

Fixpoint uniq_from (fuel n : nat) (used : list str) (name : str) : str :=
  let c := name ++ [("_")%char] ++ dec n in
  match fuel with
  | 0 => c                       (* reached only with a free name: Deep.uniq_fresh *)
  | S f => if mem_str c used then uniq_from f (S n) used name else c
  end.

Definition uniq (used : list str) (name : str) : str :=
  if mem_str name used then uniq_from (length used) 1 used name else name.

(* the names as they are created one after the other in the output dataset *)
Fixpoint dedup_from (used : list str) (l : list (str * str)) : list (str * str) :=
  match l with
  | [] => []
  | (k, f) :: r => let f' := uniq used f in (k, f') :: dedup_from (f' :: used) r
  end.
Definition dedup (l : list (str * str)) : list (str * str) := dedup_from [] l.

(* _dim_map / _var_map and the mapping attributes of the flattened dataset *)
Definition dim_map_u (hash : str -> str) (root : group) : list (str * str) := dedup (dim_map hash [] root).
Definition var_map_u (hash : str -> str) (root : group) : list (str * str) := dedup (var_map hash [] root).

(* adapt_name *)
Definition adapt (hash : str -> str) (root : group) (rl : rules) (strict : bool) (resolved : str) : rres :=
  if substrb not_found resolved then RStr resolved
  else
    let dm := dim_map_u hash root in
    let vm := var_map_u hash root in
    let first_map := if r_var rl <? r_dim rl then Some dm
                     else if r_dim rl <? r_var rl then Some vm else None in
    match first_map with
    | None => RExc                             (* name_mapping unbound *)
    | Some m1 =>
        match assoc_str resolved m1 with
        | Some f => RStr f
        | None =>
            let second :=
              if (0 <? r_dim rl) && (0 <? r_var rl)
              then assoc_str resolved (if r_dim rl <? r_var rl then dm else vm)
              else None in
            match second with
            | Some f => RStr f
            | None =>
                if r_std rl then RStr resolved
                else if strict then RExc
                else RStr (not_found ++ s "_" ++ resolved)
            end
        end
    end.

(* one reference, from the grouped file to the flattened file *)
Definition flatten_ref_gen (fixed : bool) (hash : str -> str) (root : group) (rl : rules) (strict : bool)
           (rp : list str) (coords : option str) (ref : str) : rres :=
  match resolve_gen fixed root rl strict rp coords ref with
  | RExc => RExc
  | RStr a => adapt hash root rl strict a
  end.
Definition flatten_ref := flatten_ref_gen true.
Definition flatten_ref_old := flatten_ref_gen false.

(* ------------------------------------------------------------------ a whole attribute *)
(* parse_attribute's result: keys with None (list form) or a list of values (dict form) *)
Definition pattr := list (str * option (list str)).

Fixpoint dict_set (k : str) (v : option (list str)) (d : pattr) : pattr :=
  match d with
  | [] => [(k, v)]
  | (k', v') :: r => if str_eqb k' k then (k', v) :: r else (k', v') :: dict_set k v r
  end.

Fixpoint map_res (f : str -> rres) (l : list str) : option (list str) :=
  match l with
  | [] => Some []
  | x :: r => match f x with
              | RExc => None
              | RStr y => match map_res f r with Some t => Some (y :: t) | None => None end
              end
  end.

(* the loop of resolve_references / adapt_references over a parsed attribute (since 8d03027):
   the parsed attribute is an ordered LIST of (name, values) pairs and the result is built with
   .append((k, v)): order and multiplicity are kept, nothing is merged *)
Fixpoint map_attr (rl : rules) (f : str -> rres) (a : pattr) : option pattr :=
  match a with
  | [] => Some []
  | (k, v) :: r =>
      match (if r_key rl then f k else RStr k) with
      | RExc => None
      | RStr k' =>
          let v' : option (option (list str)) :=
            match v with
            | Some vs => if r_val rl then match map_res f vs with None => None | Some vs' => Some (Some vs') end
                         else Some v
            | None => Some None
            end in
          match v' with
          | None => None
          | Some w => match map_attr rl f r with None => None | Some t => Some ((k', w) :: t) end
          end
      end
  end.

(* before 8d03027: parse_attribute returned a dict and the loop stored d[k] = v, so a name
   occurring twice, or two references resolving to one name, were merged into one entry *)
Fixpoint map_attr_dict (rl : rules) (f : str -> rres) (a : pattr) (acc : pattr) : option pattr :=
  match a with
  | [] => Some acc
  | (k, v) :: r =>
      match (if r_key rl then f k else RStr k) with
      | RExc => None
      | RStr k' =>
          match v with
          | Some vs =>
              if r_val rl then
                match map_res f vs with
                | None => None
                | Some vs' => map_attr_dict rl f r (dict_set k' (Some vs') acc)
                end
              else map_attr_dict rl f r (dict_set k' v acc)
          | None => map_attr_dict rl f r (dict_set k' None acc)
          end
      end
  end.

(* generate_var_attr_str *)
Definition attr_str (a : pattr) : str :=
  join (s " ")
       (map (fun kv => match snd kv with
                       | None => fst kv
                       | Some [] => fst kv ++ s ":"
                       | Some vs => fst kv ++ s ": " ++ join (s " ") vs
                       end) a).

(* resolve_references followed (after the whole file is processed) by adapt_references.
   The second pass works on the re-generated string, which parse_attribute splits again into the
   same list of pairs (checked on the implementation for every generated attribute: the harness
   hands over the parsed form of the string it wrote); here the parsed form is passed through. *)
Definition flatten_attr_gen (fixed : bool) (hash : str -> str) (root : group) (rl : rules) (strict : bool)
           (rp : list str) (coords : option str) (a : pattr) : option str :=
  match map_attr rl (resolve_gen fixed root rl strict rp coords) a with
  | None => None
  | Some a1 =>
      match map_attr rl (adapt hash root rl strict) a1 with
      | None => None
      | Some a2 => Some (attr_str a2)
      end
  end.
Definition flatten_attr := flatten_attr_gen true.
Definition flatten_attr_old := flatten_attr_gen false.

(* the dict version of both passes (the parse itself already merged equal names: fold the
   parsed list into a dict first) *)
Definition flatten_attr_dict (hash : str -> str) (root : group) (rl : rules) (strict : bool)
           (rp : list str) (coords : option str) (a : pattr) : option str :=
  match map_attr_dict rl RStr a [] with
  | None => None
  | Some a0 =>
      match map_attr_dict rl (resolve_gen true root rl strict rp coords) a0 [] with
      | None => None
      | Some a1 =>
          match map_attr_dict rl (adapt hash root rl strict) a1 [] with
          | None => None
          | Some a2 => Some (attr_str a2)
          end
      end
  end.

(* ------------------------------------------------------------------ reader: un-flattening *)
(* netcdfread.py, for one entry "flat: /a/b/name" of _flattener_variable_map:
   the group tuple, the name recorded as nc_get_variable, and variable_basename.
   Repaired code (C11-fix2-1): the basename is the last component of the absolute path; the
   flattened name itself is not looked at (it may be hashed or carry a counter). *)
Definition mid {A} (l : list A) : list A := removelast (tl l).      (* l[1:-1] *)

Definition unflatten_var (flat abs : str) : list str * str * str :=
  let groups := mid (split_on slash abs) in
  match groups with
  | [] => ([], tl abs, flat)                      (* ncvar = ncvar[1:]; basename = flat name *)
  | _ => (groups, abs, last (split_on slash abs) [])
  end.

(* before that repair: the group prefix was stripped from the flattened name with re.sub *)
Definition unflatten_var_old (flat abs : str) : list str * str * str :=
  let groups := mid (split_on slash abs) in
  match groups with
  | [] => ([], tl abs, flat)
  | _ => (groups, abs, strip_prefix (join sep2 groups ++ sep2) flat)
  end.

(* the same for a dimension.  [fixed = false]: the pattern is not an f-string in the pinned
   code, so the basename of a dimension in a group stays the flattened name (F11c). *)
Definition unflatten_dim_gen (fixed : bool) (flat abs : str) : list str * str * str :=
  let abs' := if starts_with [slash] abs && Nat.eqb (count_chr slash abs) 1 then tl abs else abs in
  let groups := mid (split_on slash abs') in
  match groups with
  | [] => ([], abs', flat)
  | _ => (groups, abs', if fixed then last (split_on slash abs') [] else flat)
  end.

(* ------------------------------------------------------------------ reader: coordinate variables *)
(* a variable of the (flattened) dataset: group path, name, dimensions (group path, name) *)
Record rvar := mkVar { v_groups : list str; v_name : str; v_dims : list (list str * str) }.

Definition id_eqb (a b : list str * str) : bool :=
  list_eqb str_eqb (fst a) (fst b) && str_eqb (snd a) (snd b).

Definition basename_of (hash : str -> str) (p : list str) (n : str) : str :=
  let '(_, _, b) := unflatten_var (flat_name hash p n) (pathname p n) in b.

Definition dim_basename_gen (fixed : bool) (hash : str -> str) (p : list str) (n : str) : str :=
  let '(_, _, b) := unflatten_dim_gen fixed (flat_name hash p n) (pathname p n) in b.

(* sorted(..., key=len(groups), reverse=True)[0]: the first element of greatest length *)
Fixpoint first_longest (best : option rvar) (l : list rvar) : option rvar :=
  match l with
  | [] => best
  | v :: r =>
      match best with
      | None => first_longest (Some v) r
      | Some b => if length (v_groups b) <? length (v_groups v) then first_longest (Some v) r
                  else first_longest best r
      end
  end.

(* sorted(..., key=len(groups)): the first element of least length, and how many share it *)
Fixpoint first_shortest (best : option rvar) (l : list rvar) : option rvar :=
  match l with
  | [] => best
  | v :: r =>
      match best with
      | None => first_shortest (Some v) r
      | Some b => if length (v_groups v) <? length (v_groups b) then first_shortest (Some v) r
                  else first_shortest best r
      end
  end.

Definition count_len (n : nat) (l : list rvar) : nat :=
  length (filter (fun v => Nat.eqb (length (v_groups v)) n) l).

(* _find_coordinate_variable(field_ncvar, field_groups, ncdim).
   [fixed = false]: the pinned code - the shortcut "a coordinate variable in the dimension's own
   group" is taken before the proximal search (F11d) and the dimension basename is wrong (F11c).
   In the repaired code that variable is an ordinary proximal candidate (the farthest one) and
   the shortcut is only reached when it is the data variable itself. *)
Definition find_coord_gen (fixed : bool) (hash : str -> str) (has_groups : bool) (vars : list rvar)
           (field : list str * str) (dim : list str * str) : option (list str * str) :=
  let own := existsb (fun v => id_eqb (v_groups v, v_name v) dim &&
                               list_eqb id_eqb (v_dims v) [dim]) vars in
  if (negb fixed || negb has_groups) && own then Some dim
  else if negb has_groups then None
  else
    let dbase := dim_basename_gen fixed hash (fst dim) (snd dim) in
    let cands :=
      filter (fun v =>
                negb (id_eqb (v_groups v, v_name v) field) &&
                list_eqb id_eqb (v_dims v) [dim] &&
                str_eqb (basename_of hash (v_groups v) (v_name v)) dbase &&
                list_eqb str_eqb (firstn (length (fst dim)) (v_groups v)) (fst dim)) vars in
    let is_prox v := list_eqb str_eqb (firstn (length (v_groups v)) (fst field)) (v_groups v) in
    let proximal := filter is_prox cands in
    let lateral := filter (fun v => negb (is_prox v)) cands in
    match first_longest None proximal with
    | Some v => Some (v_groups v, v_name v)
    | None =>
        if own then Some dim          (* repaired code: only the data variable itself is in scope *)
        else
        match first_shortest None lateral with
        | None => None
        | Some v =>
            if Nat.eqb (count_len (length (v_groups v)) lateral) 1
            then Some (v_groups v, v_name v) else None
        end
    end.
Definition find_coord := find_coord_gen true.
Definition find_coord_old := find_coord_gen false.

(* ------------------------------------------------------------------ writer *)
(* NetCDFWrite._remove_group_structure(name) and ._groups(name) *)
Definition remove_group_structure (name : str) : str := last (split_on slash name) [].

Definition groups_str (name : str) : str :=
  let g := join [slash] (removelast (split_on slash name)) in
  match g with [] => [] | _ => g ++ [slash] end.

(* NetCDFWrite._parent_group(name): the path of the group that receives the element;
   None = ValueError (a name with a '/' that does not start with one) *)
Definition parent_group_path (group : bool) (name : str) : option (list str) :=
  if negb group || negb (mem_chr slash name) then Some []
  else if negb (starts_with [slash] name) then None
  else Some (mid (split_on slash name)).

(* the check of netcdfwrite.py 2716-2725: every dimension in the same group or a parent group *)
Definition dims_visible (group : bool) (ncvar : str) (ncdims : list str) : bool :=
  if group then forallb (fun d => starts_with (groups_str d) (groups_str ncvar)) ncdims else true.

(* what netCDF-4 does with the basename handed to createVariable: the nearest enclosing
   definition, searching from the variable's group up to the root *)
Fixpoint nc_lookup_dim (root : group) (rp : list str) (n : str) : option (list str) :=
  match find_group root (rev rp) with
  | None => None
  | Some g =>
      if mem_str n (gdims g) then Some (rev rp)
      else match rp with [] => None | _ :: rp' => nc_lookup_dim root rp' n end
  end.

(* repair C11-fix2-2: the dimension is handed to netCDF by its basename; walking from the
   variable's group up to (not including) the dimension's group, no group may define a dimension
   of that basename - else ValueError "... is hidden by the netCDF dimension of the same name".
   A group of the path that does not exist yet is created empty by _parent_group. *)
Fixpoint no_hiding (root : group) (rp : list str) (k : nat) (n : str) : bool :=
  match k with
  | 0 => true
  | S k' =>
      match find_group root (rev rp) with
      | Some g => negb (mem_str n (gdims g)) && no_hiding root (tl rp) k' n
      | None => no_hiding root (tl rp) k' n
      end
  end.

(* max(groups.count("/") - 1, 0) *)
Definition depth_of (gs : str) : nat := Nat.pred (count_chr slash gs).

Definition dims_unhidden (root : group) (ncvar : str) (ncdims : list str) : bool :=
  match parent_group_path true ncvar with
  | None => false
  | Some gv =>
      forallb (fun d => no_hiding root (rev gv)
                          (depth_of (groups_str ncvar) - depth_of (groups_str d))
                          (remove_group_structure d)) ncdims
  end.

(* both checks; [root] is the state of the output file when the variable is created *)
Definition writer_accepts (root : group) (group : bool) (ncvar : str) (ncdims : list str) : bool :=
  dims_visible group ncvar ncdims && (if group then dims_unhidden root ncvar ncdims else true).

(* ------------------------------------------------------------------ mixin: names and groups *)
(* NetCDFMixin._nc_set: the stored name, None = ValueError *)
Definition nc_set (value : str) : option str :=
  match value with
  | [] => None
  | _ =>
      if str_eqb value [slash] then None
      else if mem_chr slash value then
        if negb (starts_with [slash] value) then None
        else if Nat.eqb (count_chr slash value) 1 then Some (tl value)
        else if ends_with_chr slash value then None
        else Some value
      else Some value
  end.

(* NetCDFGroupsMixin._nc_groups *)
Definition nc_groups (name : str) : list str := mid (split_on slash name).

(* NetCDFGroupsMixin._nc_set_groups: the new stored name (None = ValueError) *)
Definition nc_set_groups (groups : list str) (name : str) : option str :=
  let n := last (split_on slash name) [] in
  match n with
  | [] => None
  | _ =>
      match groups with
      | [] => nc_set n
      | _ => if existsb (mem_chr slash) groups then None
             else nc_set (join [slash] ([[]] ++ groups ++ [n]))
      end
  end.

(* NetCDFGroupsMixin._nc_clear_groups *)
Definition nc_clear_groups (name : str) : option str :=
  let n := last (split_on slash name) [] in
  match n with [] => Some name | _ => nc_set n end.

(* ------------------------------------------------------------------ group attributes *)
(* attributes of a group or variable: a Python dict, name -> value, in insertion order *)
Definition attrs := list (str * str).

(* d[k] = v *)
Fixpoint attr_set (k v : str) (d : attrs) : attrs :=
  match d with
  | [] => [(k, v)]
  | (k', v') :: r => if str_eqb k' k then (k', v) :: r else (k', v') :: attr_set k v r
  end.

(* d.update(e) *)
Definition dict_update (d e : attrs) : attrs := fold_left (fun acc kv => attr_set (fst kv) (snd kv) acc) e d.

(* flattener_attributes: group path (a non-empty tuple) -> the attributes of that group *)
Fixpoint gattr_lookup (p : list str) (fa : list (list str * attrs)) : option attrs :=
  match fa with
  | [] => None
  | (q, e) :: r => if list_eqb str_eqb q p then Some e else gattr_lookup p r
  end.

(* NetCDFRead.read: for i in range(1, len(groups) + 1): update with the attributes of groups[:i] -
   from the outermost group down to the variable's own group, so the nearer group overrides *)
Fixpoint group_attrs_down (fa : list (list str * attrs)) (pre rest : list str) (acc : attrs) : attrs :=
  match rest with
  | [] => acc
  | g :: r =>
      group_attrs_down fa (pre ++ [g]) r
        (match gattr_lookup (pre ++ [g]) fa with Some e => dict_update acc e | None => acc end)
  end.
Definition group_attrs (fa : list (list str * attrs)) (groups : list str) : attrs := group_attrs_down fa [] groups [].

(* a variant that walks from the variable's group up to the root with the same update: the outer
   group overrides (not the code; see Refuted.v) *)
Fixpoint group_attrs_up (fa : list (list str * attrs)) (rp : list str) (acc : attrs) : attrs :=
  match rp with
  | [] => acc
  | _ :: rp' =>
      group_attrs_up fa rp'
        (match gattr_lookup (rev rp) fa with Some e => dict_update acc e | None => acc end)
  end.

(* _create_field_or_domain: global attributes, updated with the group attributes, updated with
   the variable's own attributes *)
Definition field_props (glob : attrs) (fa : list (list str * attrs)) (groups : list str) (vattrs : attrs) : attrs :=
  dict_update (dict_update glob (group_attrs fa groups)) vattrs.

(* what is recorded by nc_set_group_attributes: every applicable group attribute, with its value
   when the variable has an attribute of that name itself, else None *)
Definition recorded_group_attrs (fa : list (list str * attrs)) (groups : list str) (vattrs : attrs)
  : list (str * option str) :=
  map (fun kv => (fst kv, match assoc_str (fst kv) vattrs with Some _ => Some (snd kv) | None => None end))
      (group_attrs fa groups).

(* ------------------------------------------------------------------ h5netcdf: the dimensions of a variable *)
(* _Flattener.get_dims, h5netcdf branch (an h5netcdf variable only knows the NAMES of its
   dimensions): walk from the variable's group to the root; in each group every dimension whose
   name is still looked for is taken and the name struck off.  [all = false] is the code before
   C11-fix3-1: list.remove strikes off ONE occurrence, so for a variable spanning a dimension
   twice the search went on and an outer dimension of that name replaced the nearer one. *)
Fixpoint remove1 (x : str) (l : list str) : list str :=
  match l with [] => [] | y :: r => if str_eqb x y then r else y :: remove1 x r end.
Fixpoint remove_all (x : str) (l : list str) : list str :=
  match l with [] => [] | y :: r => if str_eqb x y then remove_all x r else y :: remove_all x r end.

Fixpoint pset (k : str) (v : list str) (d : list (str * list str)) : list (str * list str) :=
  match d with
  | [] => [(k, v)]
  | (k', v') :: r => if str_eqb k' k then (k', v) :: r else (k', v') :: pset k v r
  end.
Fixpoint pget (k : str) (d : list (str * list str)) : option (list str) :=
  match d with [] => None | (k', v) :: r => if str_eqb k' k then Some v else pget k r end.

Definition h5_step (all : bool) (path : list str) (gd : list str) (st : list str * list (str * list str))
  : list str * list (str * list str) :=
  fold_left (fun st d => if mem_str d (fst st)
                         then ((if all then remove_all d (fst st) else remove1 d (fst st)), pset d path (snd st))
                         else st) gd st.

Fixpoint h5_walk (all : bool) (root : group) (rp : list str) (names : list str) (acc : list (str * list str))
  : list (str * list str) :=
  match find_group root (rev rp) with
  | None => acc
  | Some g =>
      let st := h5_step all (rev rp) (gdims g) (names, acc) in
      match rp with
      | [] => snd st
      | _ :: rp' => match fst st with [] => snd st | _ => h5_walk all root rp' (fst st) (snd st) end
      end
  end.

(* the group in which each dimension of the variable is found (None = KeyError) *)
Definition h5_get_dims_gen (all : bool) (root : group) (rp : list str) (vdims : list str) : list (option (list str)) :=
  let d := h5_walk all root rp vdims [] in map (fun n => pget n d) vdims.
Definition h5_get_dims := h5_get_dims_gen true.
Definition h5_get_dims_old := h5_get_dims_gen false.

(* the merged loop of seeded change s6: nothing is struck off, the outermost definition wins *)
Fixpoint h5_walk_merged (root : group) (rp : list str) (names : list str) (acc : list (str * list str))
  : list (str * list str) :=
  match find_group root (rev rp) with
  | None => acc
  | Some g =>
      let acc' := fold_left (fun a d => if mem_str d names then pset d (rev rp) a else a) (gdims g) acc in
      match rp with [] => acc' | _ :: rp' => h5_walk_merged root rp' names acc' end
  end.

